"""C12 — targets and returns are ordered deep merges; evaluation is pure.

proof:   lean/Koreo/Props/C12.lean over lean/Koreo/Overlay.lean (indexer positions, index-compiled
         applier = deep merge for every base/overlay shape, pipeline = ordered fold with the forced
         overlay re-applied, ValueFunction return = merge, determinism)
tie:     (a) unit — real prepare_overlay_expression + evaluate_overlay (and the compiled index tree)
             vs the Lean model on generated (base, overlay, inputs) triples; real `_overlay` vs the model;
         (b) ValueFunction return over a base, through the real prepare + reconcile_value_function;
         (c) end to end — a real ResourceFunction (inline resource or cached ResourceTemplate, inline and
             overlayRef overlays, skipIf on/off, optional create.overlay) reconciled against the
             in-memory cluster; POST / PATCH body (minus the last-applied annotation and injected owner
             references) vs the model's target.
oracle:  independent of the model: a plain recursive Python deep merge of the same documents
         (`ref_*` below, with its own path evaluator) compared with what the real code produced.
purity:  cannot be a theorem about a functional model; decided here by deep snapshots (values, types
         and sharing graph of mutable containers) of inputs, base, cached ResourceTemplate and prepared
         functions before/after, and by evaluating twice.
"""
from __future__ import annotations

import asyncio
import copy
import json
import logging

import common
from common import Check, Infra, LeanDriver, canon_unordered, rng, to_wire

PROP = "C12"

# --------------------------------------------------------------------------- value pools

KEYS = ["a", "b", "c", "d", "e", "labels", "spec", "data", "a.b", "app.kubernetes.io/name", "k 1", "x-y", "0", ""]
IDENT_KEYS = ["a", "b", "c", "d", "e", "labels", "spec", "data"]
# static scalars: nothing that the literal encoder treats specially (that is C11's ground): no string that
# looks like a number, starts with '=', or contains quotes / backslashes / newlines; floats are eighths
SCALARS = [None, True, False, 0, 1, -3, 17, 2 ** 31, 1.5, -0.125, 2.0, "", "s", "hello world", "é", "true",
           "null", "a.b", "x=y", "v1"]


def gen_scalar(r):
    return r.choice(SCALARS)


def gen_inputs(r):
    """the `inputs` every expression reads: scalars, lists, maps (nested, empty), two flags, a name"""
    return {
        "s": r.choice(["str", "", "other value"]),
        "n": r.choice([0, 7, -12, 2 ** 31]),
        "f": r.choice([0.5, -2.25, 3.0]),
        "b": r.choice([True, False]),
        "t": True,
        "ff": False,
        "l": r.choice([[1, 2], [], ["x", None, 1.5], [{"k": 1}, {"k": {}}], [[1], [2, [3]]]]),
        "el": [],
        "em": {},
        "m": r.choice([{"b": 2}, {"x": {"y": 1}, "z": [1]}, {"a": 1, "b": {"c": {"d": "deep"}}}, {"labels": {"q": "r"}}]),
        "deep": {"a": {"b": {"c": gen_scalar(r)}}, "k": gen_scalar(r)},
        # arguments for koreo's own CEL functions: nested lists with >= 2 non-empty members, maps to overlay
        "ll": r.choice([[[1, 2], [3]], [["a", "b"], ["c"], []], [[{"k": 1}], [2, 3], [None]], [[1.5], [[2]], ["x", "y"]]]),
        "m2": r.choice([{"b": {"c": 3}, "x": None}, {"x": {"q": [2]}, "new": "v"}, {"labels": {}, "a": {"deep": {"k": 1}}}]),
        "obj": {"apiVersion": "g.example/v1", "kind": "Thing", "metadata": {"name": "o1", "namespace": "ons"},
                "status": {"conditions": [{"type": "Ready", "reason": "UpToDate", "status": "True"}]}},
        "ref": {"apiVersion": "g.example/v1", "kind": "Thing", "name": "o1", "namespace": "ons"},
        "teams": [{"name": "core", "members": ["ann", "bob"]}, {"name": "infra", "members": ["cy"]}],
        "name": r.choice(["obj-1", "widget-x", "n"]),
        "ns": r.choice(["ns1", "team-a"]),
        "tname": "tmpl",
    }


def input_paths(inputs, prefix="inputs", depth=3):
    """every path into `inputs` that ends at a present key (identifier keys only)"""
    out = []

    def go(v, path, d):
        out.append(path)
        if isinstance(v, dict) and d > 0:
            for k, x in v.items():
                if k.isidentifier():
                    go(x, path + [k], d - 1)

    for k, v in inputs.items():
        go(v, [prefix, k], depth)
    return out


class Ctx:
    """what expressions may be written at a leaf: paths that exist in the activation"""

    def __init__(self, paths, fexprs=()):
        self.paths = paths
        self.fexprs = list(fexprs)      # calls of koreo's CEL functions that are valid in this activation

    def expr(self, r):
        if self.fexprs and r.random() < 0.15:
            return r.choice(self.fexprs)
        return "=" + ".".join(r.choice(self.paths))


# koreo's custom functions over input-derived values (value-checked: model and reference know them)
FEXPR_INPUTS = ["=inputs.ll.flatten()", "=inputs.m.overlay(inputs.m2)", "=inputs.m2.overlay(inputs.m)",
                "=inputs.obj.overlay(inputs.m2)", "=inputs.deep.overlay(inputs.obj)"]
FEXPR_RESOURCE = ["=resource.overlay(inputs.m2)", "=resource.overlay(inputs.m)"]
# purity-only probes (value not checked; an evaluation error just drops the probe)
FN_PURITY = ["=to_ref(inputs.ref)", "=self_ref(inputs.obj)", "=group_ref(inputs.ref)", "=kindless_ref(inputs.ref)",
             "=config_connect_ready(inputs.obj)", "=to_json(inputs.m)", "=to_json(inputs.ll)",
             "=inputs.teams.map(t, t.members).flatten()", "=inputs.ll.flatten()", "=inputs.ll.flatten().size()",
             "=[inputs.ll[0], inputs.ll[1]].flatten()", "=inputs.obj.overlay(inputs.m2)",
             "=inputs.m.overlay({'k': inputs.ll})", "=from_json(to_json(inputs.ll))", "=inputs.ll.map(x, x.size())",
             "=inputs.teams.filter(t, t.members.size() > 1)", "=inputs.l + inputs.ll", "=inputs.ll[0] + inputs.ll[1]",
             "=inputs.teams.map(t, t.members).flatten().map(m, m.lower())", "=b64encode(to_json(inputs.m2))",
             "=inputs.m.overlay(inputs.m2).overlay(inputs.obj)", "={'a': inputs.ll}.a.flatten()"]


def gen_list(r, ctx, depth=2):
    n = r.choice([1, 1, 2, 3])
    out = []
    for _ in range(n):
        k = r.random()
        if k < 0.5:
            out.append(gen_scalar(r))
        elif k < 0.65 and ctx is not None:
            out.append(ctx.expr(r))
        elif k < 0.8 and depth > 0:
            out.append(gen_list(r, ctx, depth - 1))
        elif k < 0.95:
            # a non-empty map inside a list is *not* split: the list is one leaf
            out.append({r.choice(IDENT_KEYS): (ctx.expr(r) if ctx is not None and r.random() < 0.4 else gen_scalar(r))})
        else:
            out.append({})
    return out


def gen_leaf(r, ctx):
    k = r.random()
    if k < 0.38:
        return gen_scalar(r)
    if k < 0.46:
        return {}
    if k < 0.53:
        return []
    if k < 0.68:
        return gen_list(r, ctx)
    if ctx is not None:
        return ctx.expr(r)
    return gen_scalar(r)


def gen_doc(r, depth, ctx=None, width=(0, 1, 2, 2, 3, 4, 5), keys=KEYS):
    """a JSON map (base documents, templates); ctx=None: static"""
    n = r.choice(width)
    out = {}
    for k in r.sample(keys, min(n, len(keys))):
        x = r.random()
        if x < 0.4 and depth > 0:
            out[k] = gen_doc(r, depth - 1, ctx, width, keys)
        else:
            out[k] = gen_leaf(r, ctx)
    return out


def gen_overlay(r, depth, ctx, hint, top=True):
    """a written overlay: 0-5 siblings per map (a map with 0 siblings is an empty-map *leaf*), keys
    overlapping with / disjoint from the document it will be merged into (`hint`)"""
    n = r.choice([1, 1, 2, 3, 4, 5]) if top else r.choice([0, 1, 1, 2, 2, 3, 4, 5])
    hint_keys = list(hint.keys()) if isinstance(hint, dict) else []
    out = {}
    for _ in range(n):
        if hint_keys and r.random() < 0.55:
            k = r.choice(hint_keys)
        else:
            k = r.choice(KEYS)
        if k in out:
            continue
        sub = hint.get(k) if isinstance(hint, dict) else None
        if depth > 1 and r.random() < 0.5:
            out[k] = gen_overlay(r, depth - 1, ctx, sub, top=False)
        else:
            out[k] = gen_leaf(r, ctx)
    if top and not out:
        out[r.choice(KEYS)] = gen_leaf(r, ctx)
    return out


# --------------------------------------------------------------------------- reference semantics (the oracle)

class BadCase(Exception):
    """the generated/shrunk case leaves the success path (dangling path …): not a test input"""


def ref_eval(v, env):
    """a written value: "=a.b.c" is a path into the activation; lists/maps element-wise"""
    if isinstance(v, str) and v.startswith("="):
        def path(text):
            cur = env
            for p in text.split("."):
                if not isinstance(cur, dict) or p not in cur:
                    raise BadCase(f"dangling path {v}")
                cur = cur[p]
            return copy.deepcopy(cur)

        e = v.lstrip("=")
        if e.endswith(".flatten()"):            # koreo's flatten(): members of the nested lists, in order
            xs = path(e[:-len(".flatten()")])
            if not isinstance(xs, list):
                raise BadCase(f"flatten of a non-list {v}")
            return [y for x in xs if isinstance(x, list) for y in x]
        if ".overlay(" in e:                    # koreo's overlay(): field-by-field deep overlay
            left, arg = e.split(".overlay(", 1)
            a, b = path(left), path(arg[:-1])
            if not (isinstance(a, dict) and isinstance(b, dict)):
                raise BadCase(f"overlay of non-maps {v}")
            return ref_deep_overlay(a, b)
        return path(e)
    if isinstance(v, list):
        return [ref_eval(x, env) for x in v]
    if isinstance(v, dict):
        return {k: ref_eval(x, env) for k, x in v.items()}
    return v


def ref_merge(base, written, env):
    """the property's wording: maps *written in the overlay* merge key by key, everything else
    (scalars, lists, empty maps, computed values) replaces"""
    out = copy.deepcopy(base) if isinstance(base, dict) else {}
    for k, v in written.items():
        if isinstance(v, dict) and v:
            out[k] = ref_merge(out.get(k), v, env)
        else:
            out[k] = ref_eval(v, env)
    return out


def ref_overlay_env(env, base):
    e = dict(env)
    e["resource"] = base
    return e


def ref_deep_overlay(resource, overlay):
    """`overlay()` / forced overlay: both maps -> merge, else replace"""
    out = copy.deepcopy(resource)
    for k, v in overlay.items():
        if k in out and isinstance(out[k], dict) and isinstance(v, dict):
            out[k] = ref_deep_overlay(out[k], v)
        else:
            out[k] = copy.deepcopy(v)
    return out


def ref_vf(vf, inputs, base):
    """ValueFunction return over a base (None / empty base: no `resource` for locals)"""
    env = {"inputs": inputs}
    if base:
        env["resource"] = base
    env["locals"] = ref_eval(vf.get("locals"), env) if vf.get("locals") else {}
    b = base if base is not None else {}
    return ref_merge(b, vf["return"], ref_overlay_env(env, b))


def ref_forced(prog, inputs):
    env = {"inputs": inputs}
    md = {"name": str(ref_eval(prog["api"]["name"], env))}
    md["namespace"] = str(ref_eval(prog["api"]["namespace"], env))
    return {"apiVersion": prog["api"]["apiVersion"], "kind": prog["api"]["kind"], "metadata": md}


def ref_skip(expr, env):
    """True / False, or "fail" when the skipIf does not evaluate to a boolean"""
    if expr is None:
        return False
    try:
        v = ref_eval(expr, env)
    except BadCase:
        return "fail"
    return v if isinstance(v, bool) else "fail"


def ref_program(prog):
    """(target, create view, undecidable) of a program, by plain deep merges in listed order.
    `undecidable`: some skipIf is not a boolean — the real code must then give PermFail and no
    request; target/view are then computed with that step APPLIED (an overlay whose skipIf is not
    `true` may not vanish)"""
    inputs = prog["inputs"]
    env = {"inputs": inputs}
    env["locals"] = ref_eval(prog["locals"], {"inputs": inputs}) if prog.get("locals") else {}
    forced = ref_forced(prog, inputs)
    tmpl = prog["template"]
    base = ref_eval(tmpl["doc"], env) if tmpl["kind"] == "inline" else copy.deepcopy(tmpl["doc"])
    cur = ref_deep_overlay(base, forced)
    undecidable = False
    for st in prog["overlays"]:
        sk = ref_skip(st.get("skipIf"), env)      # the skipIf decides first …
        if sk == "fail":
            undecidable = True
        if sk is True:
            continue                               # … a skipped step's inputs are never looked at
        if st["kind"] == "vf" and st.get("inputs"):
            try:
                ref_eval(st["inputs"], env)
            except BadCase:
                # an APPLIED function overlay whose inputs do not evaluate: no target at all
                return None, None, "must-fail"
        if st["kind"] == "inline":
            cur = ref_merge(cur, st["overlay"], ref_overlay_env(env, cur))
        else:
            vin = ref_eval(st["inputs"], env) if st.get("inputs") else None
            cur = ref_vf(prog["vfs"][st["ref"]], vin, cur)
    if prog["overlays"]:
        cur = ref_deep_overlay(cur, forced)
    target = cur
    view = target
    if prog.get("create"):
        view = ref_merge(target, prog["create"], ref_overlay_env(env, target))
    view = ref_deep_overlay(view, forced)
    return target, view, undecidable


# --------------------------------------------------------------------------- snapshots (purity)

class Snapper:
    """structure + sharing graph of everything reachable: containers get an ordinal at first visit and
    later visits are recorded as back references, so both a changed value and a changed aliasing
    pattern alter the snapshot.  Excluded (DESIGN 7): the kr8s class's `plural` / `endpoint` memo;
    loggers, functions, modules and the celpy environment/parser are opaque; a lark Tree is walked
    through `data`/`children` only (celpy's evaluator may cache `meta` on it)."""

    def __init__(self):
        self.seen: dict[int, int] = {}
        self.keep: list = []
        self.ids: set[int] = set()     # ids of mutable containers met

    def walk(self, o, depth=0):
        import celpy
        import lark

        if depth > 60:
            return ("deep",)
        if o is None or isinstance(o, (bool, int, float, str, bytes)):
            return (type(o).__name__, repr(o))
        oid = id(o)
        if oid in self.seen:
            return ("ref", self.seen[oid])
        if isinstance(o, (logging.Logger, type(json), type(len), type(lambda: 0), type(Snapper.walk))):
            return ("opaque", type(o).__name__)
        n = len(self.seen)
        self.seen[oid] = n
        self.keep.append(o)
        if isinstance(o, dict):
            self.ids.add(oid)
            return ("dict", type(o).__name__, n, [(self.walk(k, depth + 1), self.walk(v, depth + 1)) for k, v in o.items()])
        if isinstance(o, (list, tuple)):
            if isinstance(o, list):
                self.ids.add(oid)
            return ("seq", type(o).__name__, n, [self.walk(x, depth + 1) for x in o])
        if isinstance(o, (set, frozenset)):
            self.ids.add(oid)
            return ("set", type(o).__name__, n, sorted(repr(self.walk(x, depth + 1)) for x in o))
        if isinstance(o, lark.Tree):
            return ("tree", str(o.data), n, [self.walk(c, depth + 1) for c in o.children])
        if isinstance(o, celpy.Runner):
            return ("runner", type(o).__name__, n, self.walk(getattr(o, "ast", None), depth + 1))
        if isinstance(o, type):
            attrs = {}
            for k in ("version", "kind", "namespaced", "scalable", "singular"):
                if hasattr(o, k):
                    attrs[k] = repr(getattr(o, k))
            return ("class", o.__name__, n, sorted(attrs.items()))
        if isinstance(o, celpy.Environment):
            return ("opaque", "Environment")
        d = getattr(o, "__dict__", None)
        if isinstance(d, dict):
            return ("obj", type(o).__name__, n, [(k, self.walk(v, depth + 1)) for k, v in sorted(d.items())
                                                 if not isinstance(v, logging.Logger)])
        return ("opaque", type(o).__name__)


def snapshot(*roots):
    s = Snapper()
    return [s.walk(r) for r in roots], s


def container_ids(o):
    s = Snapper()
    s.walk(o)
    return s.ids


# --------------------------------------------------------------------------- the implementation under test

class Impl:
    def __init__(self):
        import celpy
        from koreo.cel import evaluation, functions, prepare
        from koreo.cel.functions import koreo_function_annotations
        import koreo_util as ku

        self.celpy, self.ku = celpy, ku
        self.prepare, self.evaluation, self.functions = prepare, evaluation, functions
        self.env = celpy.Environment(annotations=koreo_function_annotations)

    # -- unit: prepare_overlay_expression + evaluate_overlay
    def unit(self, case):
        try:
            return self._unit(case)
        except Exception as e:       # e.g. a RecursionError on a structure the code under test made cyclic
            return {"result": None, "error": f"raised {type(e).__name__}: {str(e)[:200]}", "impure": [],
                    "index": None, "leaves": None}

    def _unit(self, case):
        """-> dict(result=plain | None, error=str | None, impure=[...], index=..., leaves=...)"""
        from koreo.result import PermFail

        celpy, ku = self.celpy, self.ku
        spec = copy.deepcopy(case["spec"])
        out = {"result": None, "error": None, "impure": [], "index": None, "leaves": None}
        try:
            ov = self.prepare.prepare_overlay_expression(self.env, spec, "c12")
        except Exception as e:
            out["error"] = f"prepare_overlay_expression raised {type(e).__name__}: {e}"
            return out
        if spec != case["spec"]:
            out["impure"].append("prepare modified the written overlay")
        if ov is None or isinstance(ov, PermFail):
            out["error"] = f"prepare_overlay_expression returned {type(ov).__name__}"
            return out
        try:
            out["index"] = index_abs(ov.value_index)
            fn = getattr(self.prepare, "_overlay_indexer", None)
            if fn is not None:
                out["leaves"] = [to_wire(x) for x in fn(copy.deepcopy(case["spec"]), 0)[1]]
        except Exception:
            out["index"] = out["leaves"] = None   # internal representation changed: not compared
        inputs = {"inputs": celpy.json_to_cel(case["inputs"])}
        base = celpy.json_to_cel(case["base"])
        apply_shares(base, case.get("share"))
        before, keep = snapshot(inputs, base, ov)
        results = []
        for _ in range(2):
            try:
                res = self.evaluation.evaluate_overlay(ov, inputs, base, "c12")
            except Exception as e:
                out["error"] = f"evaluate_overlay raised {type(e).__name__}: {e}"
                break
            if isinstance(res, PermFail):
                out["error"] = f"evaluate_overlay returned PermFail: {res.message}"
                break
            results.append(res)
        after, _ = snapshot(inputs, base, ov)
        for name, b, a in zip(("inputs", "base", "prepared overlay"), before, after):
            if a != b:
                out["impure"].append(f"{name} modified by evaluate_overlay")
        if ku.plain(base) != case["base"]:
            out["impure"].append("base no longer equals the document it was built from")
        if len(results) == 2:
            out["result"] = ku.plain(results[0])
            if canon_unordered(ku.plain(results[1])) != canon_unordered(out["result"]):
                out["impure"].append("second evaluation with equal inputs gave a different result")
            out["alias"] = bool(container_ids(results[0]) & keep.ids)
        return out

    # -- `_overlay`
    def overlay(self, resource, overlay):
        celpy, ku = self.celpy, self.ku
        res, ov = celpy.json_to_cel(resource), celpy.json_to_cel(overlay)
        before, _ = snapshot(res, ov)
        got = self.functions._overlay(res, ov)
        after, _ = snapshot(res, ov)
        return ku.plain(got), before != after

    # -- ValueFunction return over a base
    def vf(self, case):
        from koreo.result import is_unwrapped_ok
        from koreo.value_function.reconcile import reconcile_value_function
        from koreo.value_function.structure import ValueFunction

        celpy, ku = self.celpy, self.ku
        out = {"result": None, "error": None, "impure": []}
        ku.reset()

        async def go():
            spec = {k: copy.deepcopy(v) for k, v in case["vf"].items() if v is not None}
            fn = await ku.offer_value_function("vf", spec)
            if not isinstance(fn, ValueFunction):
                out["error"] = f"prepare_value_function: {getattr(fn, 'message', fn)!r}"
                return
            inputs = celpy.json_to_cel(case["inputs"])
            base = None if case["base"] is None else celpy.json_to_cel(case["base"])
            before, _ = snapshot(inputs, base, fn)
            results = []
            for _ in range(2):
                res = await reconcile_value_function("c12", fn, inputs, base)
                if not is_unwrapped_ok(res):
                    out["error"] = f"reconcile_value_function: {type(res).__name__} {res.message}"
                    return
                results.append(ku.plain(res))
            after, _ = snapshot(inputs, base, fn)
            for name, b, a in zip(("inputs", "base", "prepared ValueFunction"), before, after):
                if a != b:
                    out["impure"].append(f"{name} modified by reconcile_value_function")
            out["result"] = results[0]
            if canon_unordered(results[0]) != canon_unordered(results[1]):
                out["impure"].append("second evaluation with equal inputs gave a different result")

        try:
            ku.run(go())
        except Exception as e:
            out["error"] = f"raised {type(e).__name__}: {str(e)[:200]}"
        return out

    # -- ONE prepared ValueFunction over several (inputs, base) pairs
    def vfseq(self, case):
        from koreo.result import is_unwrapped_ok
        from koreo.value_function.reconcile import reconcile_value_function
        from koreo.value_function.structure import ValueFunction

        celpy, ku = self.celpy, self.ku
        out = {"results": [], "error": None, "impure": []}
        ku.reset()

        async def go():
            spec = {k: copy.deepcopy(v) for k, v in case["vf"].items() if v is not None}
            fn = await ku.offer_value_function("vf", spec)
            if not isinstance(fn, ValueFunction):
                out["error"] = f"prepare_value_function: {getattr(fn, 'message', fn)!r}"
                return
            args = [(celpy.json_to_cel(c["inputs"]), None if c["base"] is None else celpy.json_to_cel(c["base"]))
                    for c in case["calls"]]
            before, _ = snapshot(args, fn)
            for i, (inputs, base) in enumerate(args):
                res = await reconcile_value_function("c12", fn, inputs, base)
                if not is_unwrapped_ok(res):
                    out["error"] = f"call {i}: reconcile_value_function: {type(res).__name__} {res.message}"
                    return
                out["results"].append(ku.plain(res))
            after, _ = snapshot(args, fn)
            if before[0] != after[0]:
                out["impure"].append("inputs/base of some call modified by reconcile_value_function")
            if before[1] != after[1]:
                out["impure"].append("prepared ValueFunction modified by reconcile_value_function")

        try:
            ku.run(go())
        except Exception as e:
            out["error"] = f"raised {type(e).__name__}: {str(e)[:200]}"
        return out

    # -- end to end
    def program(self, prog):
        """-> dict(body=… | None, method, error, impure)"""
        from cluster import Cluster
        from koreo import cache
        from koreo.constants import LAST_APPLIED_ANNOTATION
        from koreo.resource_function.reconcile import reconcile_resource_function
        from koreo.resource_function.structure import ResourceFunction
        from koreo.resource_template.structure import ResourceTemplate
        from koreo.value_function.structure import ValueFunction

        celpy, ku = self.celpy, self.ku
        out = {"body": None, "method": None, "error": None, "impure": [], "alias": False, "permfail": False}
        ku.reset()
        api = prog["api"]
        spec = program_spec(prog)

        async def go():
            vfs = []
            late = [n for n in prog.get("late_vfs") or [] if n in prog["vfs"]]
            for name, vf in prog["vfs"].items():
                if name in late:
                    continue         # this ValueFunction arrives only after the ResourceFunction was prepared
                fn = await ku.offer_value_function(name, {k: copy.deepcopy(v) for k, v in vf.items() if v is not None})
                if not isinstance(fn, ValueFunction):
                    out["error"] = f"prepare ValueFunction {name}: {getattr(fn, 'message', fn)!r}"
                    return
                vfs.append(fn)
            tmpl = None
            if prog["template"]["kind"] == "ref":
                tmpl = await ku.offer_resource_template("tmpl", {"template": copy.deepcopy(prog["template"]["doc"])})
                if not isinstance(tmpl, ResourceTemplate):
                    out["error"] = f"prepare ResourceTemplate: {getattr(tmpl, 'message', tmpl)!r}"
                    return
            fn = await ku.offer_resource_function("rf", copy.deepcopy(spec))
            if not isinstance(fn, ResourceFunction):
                out["error"] = f"prepare ResourceFunction: {getattr(fn, 'message', fn)!r}"
                return
            if late:
                # the window before the ValueFunction arrives: a listed overlay is unavailable, so a reconcile
                # may not produce any target (HEAD: Retry, no request)
                env0 = {"inputs": prog["inputs"]}
                name0, ns0 = str(ref_eval(api["name"], env0)), str(ref_eval(api["namespace"], env0))
                cl = Cluster()
                if prog["mode"] == "patch":
                    cl.put(api["apiVersion"], api["plural"], ns0, name0,
                           {"apiVersion": api["apiVersion"], "kind": api["kind"],
                            "metadata": {"name": name0, "namespace": ns0, "uid": "live-uid"}})
                res = await reconcile_resource_function(
                    api=cl, location="c12", function=fn, owner=("elsewhere", dict(ku.OWNER_REF)),
                    inputs=celpy.json_to_cel(prog["inputs"]))
                out["window"] = {"outcome": ku.outcome_class(res.outcome),
                                 "requests": [{"method": m["method"], "body": m["body"]} for m in cl.mutations()]}
                previous = fn
                for name in late:
                    vf = prog["vfs"][name]
                    await ku.offer_value_function(name, {kk: copy.deepcopy(v) for kk, v in vf.items() if v is not None})
                for _ in range(80):
                    await asyncio.sleep(0)
                    if cache.get_resource_from_cache(resource_class=ResourceFunction, cache_key="rf") is not previous:
                        break
                for _ in range(10):
                    await asyncio.sleep(0)
                fn = cache.get_resource_from_cache(resource_class=ResourceFunction, cache_key="rf")
                out["window"]["reprepared"] = fn is not previous
                if not isinstance(fn, ResourceFunction):
                    out["error"] = f"ResourceFunction after its ValueFunction arrived: {getattr(fn, 'message', fn)!r}"
                    return
                vfs = [cache.get_resource_from_cache(resource_class=ValueFunction, cache_key=n) for n in prog["vfs"]]
            # dependency updates: each referenced ValueFunction gets a new resourceVersion; the cache's monitor
            # task re-prepares the ResourceFunction from its stored spec when the loop turns
            observed = 0
            for k in range(int(prog.get("reprepare") or 0)):
                previous = cache.get_resource_from_cache(resource_class=ResourceFunction, cache_key="rf")
                for name, vf in prog["vfs"].items():
                    await ku.offer_value_function(name, {kk: copy.deepcopy(v) for kk, v in vf.items() if v is not None},
                                                  version=str(k + 2))
                for _ in range(60):
                    await asyncio.sleep(0)
                    if cache.get_resource_from_cache(resource_class=ResourceFunction, cache_key="rf") is not previous:
                        break
                for _ in range(10):
                    await asyncio.sleep(0)
                if cache.get_resource_from_cache(resource_class=ResourceFunction, cache_key="rf") is not previous:
                    observed += 1
            out["reprepared"] = observed
            if prog.get("reprepare"):
                fn = cache.get_resource_from_cache(resource_class=ResourceFunction, cache_key="rf")
                if not isinstance(fn, ResourceFunction):
                    out["error"] = f"re-prepared ResourceFunction: {getattr(fn, 'message', fn)!r}"
                    return
                vfs = [cache.get_resource_from_cache(resource_class=ValueFunction, cache_key=n) for n in prog["vfs"]]
            if not isinstance(fn.crud_config.overlays, (list, tuple)):
                out["error"] = f"overlays not prepared: {getattr(fn.crud_config.overlays, 'message', '')!r}"
                return
            inputs = celpy.json_to_cel(prog["inputs"])
            env = {"inputs": prog["inputs"]}
            name = str(ref_eval(api["name"], env))
            ns = str(ref_eval(api["namespace"], env))
            owner = (ns if prog["owned"] else "elsewhere", dict(ku.OWNER_REF))
            cached_tmpl = cache.get_resource_from_cache(resource_class=ResourceTemplate, cache_key="tmpl") if tmpl else None
            before, keep = snapshot(inputs, cached_tmpl, fn, vfs)
            bodies = []
            refused = 0
            for _ in range(2):
                cl = Cluster()
                if prog["mode"] == "patch":
                    cl.put(api["apiVersion"], api["plural"], ns, name,
                           {"apiVersion": api["apiVersion"], "kind": api["kind"],
                            "metadata": {"name": name, "namespace": ns, "uid": "live-uid"}})
                res = await reconcile_resource_function(api=cl, location="c12", function=fn, owner=owner, inputs=inputs)
                muts = cl.mutations()
                want = "POST" if prog["mode"] == "create" else "PATCH"
                if not muts and ku.outcome_class(res.outcome) == "permFail":
                    refused += 1           # no target was materialised
                    out["permfail_message"] = str(res.outcome.message)[:200]
                    continue
                if len(muts) != 1 or muts[0]["method"] != want:
                    o = res.outcome
                    out["error"] = (f"expected one {want}, saw {[m['method'] for m in muts]}; outcome "
                                    f"{ku.outcome_class(o)} {getattr(o, 'message', '')!r}")
                    return
                bodies.append(muts[0])
            after, _ = snapshot(inputs, cached_tmpl, fn, vfs)
            for nm, b, a in zip(("inputs", "cached ResourceTemplate", "prepared ResourceFunction", "prepared ValueFunctions"),
                                before, after):
                if a != b:
                    out["impure"].append(f"{nm} modified by reconcile")
            if cached_tmpl is not None and ku.plain(cached_tmpl.template) != prog["template"]["doc"]:
                out["impure"].append("cached ResourceTemplate no longer equals its definition")
            if ku.plain(inputs) != prog["inputs"]:
                out["impure"].append("inputs no longer equal what was passed")
            if refused == 2:
                out["permfail"] = True
                return
            if refused:
                out["impure"].append("one reconcile gave PermFail and the other, with equal inputs, a request")
                return
            b0, b1 = (strip_body(m["body"], prog["owned"], LAST_APPLIED_ANNOTATION) for m in bodies)
            if canon_unordered(b0) != canon_unordered(b1):
                out["impure"].append("second reconcile with equal inputs sent a different body")
            out["body"], out["method"] = b0, bodies[0]["method"]
            out["request"] = {"plural": bodies[0]["plural"], "namespace": bodies[0]["namespace_arg"], "name": bodies[0]["name"]}

        try:
            ku.run(go())
        except Exception as e:
            out["error"] = f"raised {type(e).__name__}: {str(e)[:200]}"
        return out


def _at(doc, path):
    cur = doc
    for k in path:
        cur = cur[k]
    return cur


def apply_shares(base, shares):
    """make the very same container object sit at two paths of the base (what celpy yields when one
    expression value is used twice); the document's *value* is unchanged — both paths already hold
    equal values"""
    from celpy import celtypes

    K = celtypes.StringType
    for src, dst in shares or []:
        try:
            obj = base
            for k in src:
                obj = obj[K(k)]
            parent = base
            for k in dst[:-1]:
                parent = parent[K(k)]
            if (isinstance(obj, dict) and isinstance(parent, dict) and K(dst[-1]) in parent
                    and canon_unordered_cel(parent[K(dst[-1])]) == canon_unordered_cel(obj)):
                parent[K(dst[-1])] = obj
        except (KeyError, TypeError, IndexError):
            pass       # (a shrunk case) the path is gone: nothing to share


def canon_unordered_cel(v):
    import koreo_util as ku
    return canon_unordered(ku.plain(v))


def index_abs(ix):
    """representation-light view of the compiled index: nested [key, position | subtree] pairs"""
    if isinstance(ix, bool) or not isinstance(ix, (int, dict)):
        raise TypeError("unknown index representation")
    if isinstance(ix, int):
        return ix
    return {"s": [[str(k), index_abs(v)] for k, v in ix.items()]}


def index_positions(ix):
    if isinstance(ix, int):
        return [ix]
    return [p for _, v in ix["s"] for p in index_positions(v)]


def strip_body(body, owned, annotation):
    """the body as sent, minus what C08 owns: the last-applied annotation (and the containers created
    only to hold it) and the injected owner references"""
    b = copy.deepcopy(body)
    md = b.get("metadata")
    if isinstance(md, dict):
        ann = md.get("annotations")
        if isinstance(ann, dict) and annotation in ann:
            del ann[annotation]
            if not ann:
                md["__annotations_emptied__"] = True
        if owned:
            md.pop("ownerReferences", None)
    return b


def norm_expected(doc, body):
    """the annotations container exists in the body even when the target has none"""
    d = copy.deepcopy(doc)
    b = copy.deepcopy(body)
    md = b.get("metadata")
    if isinstance(md, dict) and md.pop("__annotations_emptied__", False):
        if not (isinstance(d.get("metadata"), dict) and "annotations" in d["metadata"]):
            md.pop("annotations", None)
    return d, b


def program_spec(prog):
    api = prog["api"]
    spec = {"apiConfig": {"apiVersion": api["apiVersion"], "kind": api["kind"], "plural": api["plural"],
                          "name": api["name"], "namespace": api["namespace"], "owned": prog["owned"]}}
    if prog.get("locals"):
        spec["locals"] = prog["locals"]
    if prog["template"]["kind"] == "inline":
        spec["resource"] = prog["template"]["doc"]
    else:
        spec["resourceTemplateRef"] = {"name": prog["template"]["name"]}
    ovs = []
    for st in prog["overlays"]:
        o = {}
        if st.get("skipIf") is not None:
            o["skipIf"] = st["skipIf"]
        if st["kind"] == "inline":
            o["overlay"] = st["overlay"]
        else:
            o["overlayRef"] = {"kind": "ValueFunction", "name": st["ref"]}
            if st.get("inputs"):
                o["inputs"] = st["inputs"]
        ovs.append(o)
    if ovs:
        spec["overlays"] = ovs
    if prog.get("create"):
        spec["create"] = {"overlay": prog["create"]}
    return spec


# --------------------------------------------------------------------------- generators of cases

def gen_unit(r):
    inputs = gen_inputs(r)
    depth = r.choice([1, 2, 2, 3, 3, 4, 5, 6])
    base = gen_doc(r, r.choice([0, 1, 2, 3, 4, 5]))
    paths = input_paths(inputs) + [["resource", k] for k in base if k.isidentifier()]
    ctx = Ctx(paths, FEXPR_INPUTS + FEXPR_RESOURCE)
    spec = gen_overlay(r, depth, ctx, base)
    case = {"base": base, "spec": spec, "inputs": inputs}
    if r.random() < 0.3:
        add_share(r, case, ctx)
    return case


def _nest(path, leaf):
    d = leaf
    for k in reversed(path):
        d = {k: d}
    return d


def _graft(spec, path, node):
    """write `node` (a non-empty map) into the written overlay at `path`, through written maps only"""
    cur = spec
    for i, k in enumerate(path):
        if not (isinstance(cur.get(k), dict) and cur[k]):
            cur[k] = _nest(path[i + 1:], node)
            return
        cur = cur[k]
    cur.update(node)


def add_share(r, case, ctx):
    """the same map object at two paths of the base, and an overlay that merges into ONE of them"""
    base = case["base"]
    srcs = [list(p) for p in _paths(base) if isinstance(_at(base, p), dict) and _at(base, p)]
    if not srcs:
        base["spec"] = {"selector": {"matchLabels": {"app": "x", "tier": {"k": 1}}}}
        srcs = [["spec", "selector", "matchLabels"]]
    src = r.choice(srcs)
    parents = [[]] + [list(p) for p in _paths(base) if isinstance(_at(base, p), dict)]
    parents = [p for p in parents if p[:len(src)] != src]      # not inside the shared map itself
    parent = r.choice(parents)
    key = "twin"
    _at(base, parent)[key] = copy.deepcopy(_at(base, src))
    dst = parent + [key]
    case["share"] = [[src, dst]]
    if r.random() < 0.7:
        into = r.choice([src, dst])
        _graft(case["spec"], into, {r.choice(["added", "a", "b"]): gen_leaf(r, ctx)})


def gen_fn_probe(r):
    """purity-only: koreo's CEL functions (and a few comprehensions) over input-derived lists/maps"""
    inputs = gen_inputs(r)
    spec = {f"v{i}": e for i, e in enumerate(r.sample(FN_PURITY, r.choice([1, 2, 3])))}
    return {"base": {}, "spec": spec, "inputs": inputs, "purity_only": True}


def mutate_doc(r, doc, i):
    """a different base with the same top-level keys (so `resource.<key>` stays valid) plus/minus extras"""
    d = copy.deepcopy(doc)
    for k in list(d):
        x = r.random()
        if x < 0.3:
            d[k] = gen_scalar(r)
        elif x < 0.45:
            d[k] = gen_doc(r, 2)
    d[f"extra{i}"] = gen_scalar(r)
    return d


def gen_vfseq(r):
    """ONE prepared ValueFunction evaluated over several (inputs, base) pairs in one process —
    equal inputs over different bases included (a shared overlayRef; with and without a base)"""
    inputs_a = gen_inputs(r)
    inputs_b = copy.deepcopy(inputs_a)
    inputs_b["s"] = inputs_a["s"] + "-b"          # same shape (every path stays valid), other values
    inputs_b["n"] = inputs_a["n"] + 1
    inputs_b["l"] = ["only", "in-b"]
    with_nobase = r.random() < 0.4
    core = gen_doc(r, r.choice([1, 2, 3]))
    if not core:
        core = {"a": {"b": 1}}
    paths = input_paths(inputs_a)
    fex = list(FEXPR_INPUTS)
    locals_ = None
    if r.random() < 0.5:
        locals_ = {f"l{i}": gen_leaf(r, Ctx(paths)) for i in range(r.choice([1, 2]))}
        paths = paths + [["locals", k] for k in locals_]
    if not with_nobase:
        paths = paths + [["resource", k] for k in core if k.isidentifier()]
        fex += FEXPR_RESOURCE
    ret = gen_overlay(r, r.choice([1, 2, 3, 4]), Ctx(paths, fex), core)
    bases = [core] + [mutate_doc(r, core, i) for i in range(3)]
    if with_nobase:
        bases += [None, {}]
    calls = []
    for i in range(r.choice([2, 3, 4, 5])):
        # mostly the same inputs again, over another base
        inp = inputs_a if (i == 0 or r.random() < 0.7) else inputs_b
        calls.append({"inputs": copy.deepcopy(inp), "base": copy.deepcopy(r.choice(bases))})
    return {"vf": {"locals": locals_, "return": ret}, "calls": calls}


def gen_vf_case(r):
    inputs = gen_inputs(r)
    base = r.choice([None, {}, "doc", "doc", "doc"])
    if base == "doc":
        base = gen_doc(r, r.choice([1, 2, 3, 4]))
        if not base:
            base = {"a": 1}
    paths = input_paths(inputs)
    locals_ = None
    if r.random() < 0.6:
        ctx1 = Ctx(paths + ([["resource", k] for k in base if k.isidentifier()] if base else []))
        locals_ = {f"l{i}": gen_leaf(r, ctx1) for i in range(r.choice([1, 2, 3]))}
        paths = paths + [["locals", k] for k in locals_]
    if base is not None:      # `resource` is bound at the return overlay whenever a base is passed
        paths = paths + [["resource", k] for k in base if k.isidentifier()]
    ret = gen_overlay(r, r.choice([1, 2, 3, 4, 5, 6]), Ctx(paths, FEXPR_INPUTS), base or {})
    return {"vf": {"locals": locals_, "return": ret}, "inputs": inputs, "base": base}


# skipIf expressions that do NOT evaluate to a boolean for the generated inputs (absent key, string, int,
# list; `inputs.deep.k` is a random scalar — sometimes a bool, then it decides normally)
SKIP_UNDECIDABLE = ["=inputs.missing", "=inputs.em.nokey", "=inputs.flags.skipMonitoring", "=inputs.s", "=inputs.n",
                    "=inputs.l", "=inputs.deep.k", "=inputs.m"]

IDENTITY_ATTACKS = [
    {"metadata": {"name": "evil"}}, {"metadata": {"namespace": "kube-system"}}, {"kind": "Secret"},
    {"apiVersion": "v0"}, {"metadata": "not-a-map"}, {"metadata": {"name": "=inputs.s", "labels": {"x": "y"}}},
    {"metadata": {}}, {"metadata": []},
]


def gen_program(r):
    inputs = gen_inputs(r)
    kind, plural = r.choice([("Widget", "widgets"), ("Gadget", "gadgets")])
    api = {"apiVersion": "example.dev/v1", "kind": kind, "plural": plural,
           "name": r.choice(["=inputs.name", "fixed-name"]), "namespace": r.choice(["=inputs.ns", "static-ns"])}
    prog = {"api": api, "inputs": inputs, "owned": r.random() < 0.3, "mode": r.choice(["create", "create", "patch"]),
            "vfs": {}, "overlays": [], "locals": None, "create": None}
    paths = input_paths(inputs)
    if r.random() < 0.4:
        prog["locals"] = {f"r{i}": gen_leaf(r, Ctx(paths)) for i in range(r.choice([1, 2]))}
        paths = paths + [["locals", k] for k in prog["locals"]]
    ctx = Ctx(paths, FEXPR_INPUTS)
    doc_keys = [k for k in KEYS if k not in ("",)]
    if r.random() < 0.5:
        doc = gen_doc(r, r.choice([1, 2, 3, 4]), ctx, keys=doc_keys + ["metadata"])
        prog["template"] = {"kind": "inline", "doc": doc}
    else:
        doc = gen_doc(r, r.choice([1, 2, 3, 4]), None, keys=doc_keys + ["metadata"])
        doc["apiVersion"] = r.choice(["example.dev/v1", "other/v9"])
        doc["kind"] = r.choice([kind, "Other"])
        if r.random() < 0.2:
            doc["literal"] = "=inputs.s"     # a template is data: nothing in it is evaluated
        prog["template"] = {"kind": "ref", "doc": doc, "name": r.choice(["tmpl", "=inputs.tname"])}
        if r.random() < 0.3:
            # a static template that already carries the identity apiConfig computes (nothing for the forced
            # overlay to change), typically owned and created as is
            fo = ref_forced(prog, inputs)
            doc["apiVersion"], doc["kind"] = fo["apiVersion"], fo["kind"]
            md = doc["metadata"] if isinstance(doc.get("metadata"), dict) else {}
            md.update(fo["metadata"])
            doc["metadata"] = md
            prog["identity_template"] = True
            if r.random() < 0.7:
                prog["owned"], prog["mode"] = True, "create"
    twin = None
    if r.random() < 0.3:
        # one map-valued expression used twice: celpy hands out the very same object at both paths
        e = r.choice(["=inputs.m", "=inputs.deep", "=inputs.m2", "=inputs.obj"])
        if prog["template"]["kind"] == "inline" and r.random() < 0.6:
            doc["spec"] = {"selector": {"matchLabels": e}, "template": {"metadata": {"labels": e}}, "replicas": 1}
            twin = ("template", [["spec", "selector", "matchLabels"], ["spec", "template", "metadata", "labels"]])
        else:
            twin = ("overlay", [["data", "primary"], ["data", "replica"]], e)
    if isinstance(doc.get("metadata"), dict):
        doc["metadata"].pop("ownerReferences", None)
    doc["zz-marker"] = "m"        # never in the live object: the patch path always has something to send
    # the evolving reference document guides key overlap and tells which `resource.*` paths exist
    env = {"inputs": inputs, "locals": ref_eval(prog["locals"], {"inputs": inputs}) if prog["locals"] else {}}
    forced = ref_forced(prog, inputs)
    cur = ref_deep_overlay(ref_eval(doc, env) if prog["template"]["kind"] == "inline" else doc, forced)
    n_steps = r.choice([0, 1, 1, 2, 2, 3, 4])
    if prog.get("identity_template") and r.random() < 0.5:
        n_steps = 0
    if twin and twin[0] == "overlay":
        st = {"kind": "inline", "skipIf": None, "overlay": {"data": {"primary": twin[2], "replica": twin[2]}}}
        prog["overlays"].append(st)
        cur = ref_merge(cur, st["overlay"], ref_overlay_env(env, cur))
    bad_skip_at = r.randrange(n_steps) if n_steps and r.random() < 0.15 else None
    for i in range(n_steps):
        skip = r.choice([None, None, "=inputs.t", "=inputs.ff", "=inputs.b"])
        if i == bad_skip_at:
            skip = r.choice(SKIP_UNDECIDABLE)
        res_paths = [["resource", k] for k in cur if k.isidentifier()] + [["resource", "metadata", "name"]]
        earlier_vf = [x for x in prog["overlays"] if x["kind"] == "vf" and not x.get("bad_inputs")]
        new_vf = None
        if r.random() < 0.6:
            ov = (copy.deepcopy(r.choice(IDENTITY_ATTACKS)) if r.random() < 0.25
                  else gen_overlay(r, r.choice([1, 2, 3, 4, 5, 6]),
                                   Ctx(paths + res_paths, FEXPR_INPUTS + FEXPR_RESOURCE), cur))
            st = {"kind": "inline", "skipIf": skip, "overlay": ov}
        elif earlier_vf and r.random() < 0.4:
            # the same ValueFunction again with the same overlay inputs, over the base as it is by now
            e = r.choice(earlier_vf)
            st = {"kind": "vf", "skipIf": skip, "ref": e["ref"], "inputs": copy.deepcopy(e["inputs"])}
        else:
            name = new_vf = f"vf{i}"
            sin = None
            vpaths = []
            if r.random() < 0.8:
                sin = {k: gen_leaf(r, ctx) for k in r.sample(["p", "q", "w"], r.choice([1, 2, 3]))}
                vin = ref_eval(sin, env)
                vpaths = input_paths(vin)
            vloc = None
            if r.random() < 0.5 and (vpaths or res_paths):
                vloc = {f"l{j}": gen_leaf(r, Ctx(vpaths + res_paths)) for j in range(r.choice([1, 2]))}
            vctx = Ctx(vpaths + res_paths + ([["locals", k] for k in vloc] if vloc else []))
            ret = gen_overlay(r, r.choice([1, 2, 3, 4, 5]), vctx, cur)
            prog["vfs"][name] = {"locals": vloc, "return": ret}
            st = {"kind": "vf", "skipIf": skip, "ref": name, "inputs": sin}
        if st["kind"] == "vf":
            # `inputs` that do not evaluate: harmless on a skipped step (the skipIf decides first — the usual
            # `skipIf: =!has(inputs.tls)` + `inputs: {secret: =inputs.tls.secretName}`), fatal on an applied one
            sk, x = ref_skip(skip, env), r.random()
            if (sk is True and x < 0.5) or (sk is False and x < 0.04):
                bad = dict(st["inputs"] or {})
                bad[r.choice(list(bad)) if bad else "p"] = r.choice(
                    ["=inputs.tls.secretName", "=inputs.em.nokey", "=inputs.absent", "=inputs.s.sub"])
                st["inputs"], st["bad_inputs"] = bad, True
        prog["overlays"].append(st)
        if ref_skip(skip, env) is not True and not st.get("bad_inputs"):
            try:
                if st["kind"] == "inline":
                    cur = ref_merge(cur, st["overlay"], ref_overlay_env(env, cur))
                else:
                    cur = ref_vf(prog["vfs"][st["ref"]], ref_eval(st["inputs"], env) if st.get("inputs") else None, cur)
            except BadCase:
                prog["overlays"].pop()
                if new_vf:
                    prog["vfs"].pop(new_vf, None)
    if twin and r.random() < 0.85:
        # a later overlay (inline or ValueFunction return) deep-merges into ONE of the two paths only
        into = r.choice(twin[1])
        ov = _nest(into, {r.choice(["added", "a", "b"]): gen_leaf(r, ctx)})
        if r.random() < 0.6:
            st = {"kind": "inline", "skipIf": r.choice([None, None, "=inputs.ff"]), "overlay": ov}
        else:
            prog["vfs"]["vftwin"] = {"locals": None, "return": _nest(into, {"added": gen_scalar(r), "seen": "=resource.kind"})}
            st = {"kind": "vf", "skipIf": None, "ref": "vftwin", "inputs": None}
        prog["overlays"].append(st)
        prog["twin"] = True
        try:
            if st["kind"] == "inline":
                cur = ref_merge(cur, st["overlay"], ref_overlay_env(env, cur))
            else:
                cur = ref_vf(prog["vfs"]["vftwin"], None, cur)
        except BadCase:
            prog["overlays"].pop()
            prog["vfs"].pop("vftwin", None)
    # the function is fetched from the cache after its overlayRef dependencies were updated n times
    if prog["vfs"]:
        prog["reprepare"] = r.choice([0, 0, 1, 2, 2, 3])
        if r.random() < 0.3:
            # a referenced ValueFunction arrives only after the ResourceFunction was prepared; a reconcile in the
            # window in between must not produce a target from the remaining overlays
            names = sorted({st["ref"] for st in prog["overlays"] if st["kind"] == "vf"})
            if names:
                prog["late_vfs"] = [r.choice(names)] if r.random() < 0.7 else names
    if prog["mode"] == "create" and r.random() < 0.3 and not (prog.get("identity_template") and not prog["overlays"]):
        cur2 = ref_deep_overlay(cur, forced) if prog["overlays"] else cur
        res_paths = [["resource", k] for k in cur2 if k.isidentifier()]
        prog["create"] = (copy.deepcopy(r.choice(IDENTITY_ATTACKS)) if r.random() < 0.3
                          else gen_overlay(r, r.choice([1, 2, 3]), Ctx(paths + res_paths), cur2))
    strip_owner_refs(prog)
    return prog


def strip_owner_refs(prog):
    """the target never specifies metadata.ownerReferences (that interplay is C08's finding F7)"""
    def clean(d):
        if isinstance(d, dict) and isinstance(d.get("metadata"), dict):
            d["metadata"].pop("ownerReferences", None)
    clean(prog["template"]["doc"])
    for st in prog["overlays"]:
        if st["kind"] == "inline":
            clean(st["overlay"])
    for vf in prog["vfs"].values():
        clean(vf["return"])
    if prog.get("create"):
        clean(prog["create"])


# --------------------------------------------------------------------------- model requests

def req_unit(case):
    return {"op": "apply", "base": to_wire(case["base"]), "spec": to_wire(case["spec"]), "inputs": to_wire(case["inputs"])}


def req_index(case):
    return {"op": "index", "spec": to_wire(case["spec"]), "base": 0}


def req_vf(case):
    return {"op": "vf", "inputs": to_wire(case["inputs"]), "base": None if case["base"] is None else to_wire(case["base"]),
            "locals": None if not case["vf"].get("locals") else to_wire(case["vf"]["locals"]),
            "ret": to_wire(case["vf"]["return"])}


def req_program(prog, window=False):
    """window=True: the state in which the ResourceFunction was prepared (late ValueFunctions unavailable)"""
    env = {"inputs": prog["inputs"]}
    steps = []
    for st in prog["overlays"]:
        if st["kind"] == "inline":
            steps.append({"kind": "inline", "skipIf": st.get("skipIf"), "spec": to_wire(st["overlay"])})
        else:
            vf = prog["vfs"][st["ref"]]
            steps.append({"kind": "vf", "skipIf": st.get("skipIf"),
                          "available": not (window and st["ref"] in (prog.get("late_vfs") or [])),
                          "inputs": to_wire(st["inputs"]) if st.get("inputs") else None,
                          "locals": to_wire(vf["locals"]) if vf.get("locals") else None,
                          "ret": to_wire(vf["return"])})
    return {"op": "materialise", "template": to_wire(prog["template"]["doc"]), "inline": prog["template"]["kind"] == "inline",
            "forced": {"apiVersion": prog["api"]["apiVersion"], "kind": prog["api"]["kind"],
                       "name": str(ref_eval(prog["api"]["name"], env)), "namespace": str(ref_eval(prog["api"]["namespace"], env))},
            "steps": steps, "inputs": to_wire(prog["inputs"]),
            "locals": to_wire(prog["locals"]) if prog.get("locals") else None,
            "create": to_wire(prog["create"]) if prog.get("create") else None}


# --------------------------------------------------------------------------- oracles on the implementation

def oracle_unit(case, got):
    """what is wrong with the implementation's answer on this case (None = nothing)"""
    if case.get("purity_only"):      # value not judged; a probe that does not evaluate is no test input
        return "; ".join(got["impure"]) if (got["impure"] and not got["error"]) else None
    try:
        env = {"inputs": case["inputs"]}
        want = ref_merge(case["base"], case["spec"], ref_overlay_env(env, case["base"]))
    except BadCase:
        return None
    if got["error"]:
        return got["error"]
    if got["impure"]:
        return "; ".join(got["impure"])
    if canon_unordered(got["result"]) != canon_unordered(want):
        return "evaluate_overlay result is not the deep merge of the overlay into the base"
    if got.get("index") is not None:
        pos = index_positions(got["index"])
        n = len(got["leaves"]) if got.get("leaves") is not None else len(pos)
        if pos != list(range(n)):
            return f"compiled index positions {pos} are not 0..{n - 1} in order"
    return None


def oracle_vf(case, got):
    try:
        want = ref_vf(case["vf"], case["inputs"], case["base"])
    except BadCase:
        return None
    if got["error"]:
        return got["error"]
    if got["impure"]:
        return "; ".join(got["impure"])
    if canon_unordered(got["result"]) != canon_unordered(want):
        return "ValueFunction return is not the deep merge of `return` into the base"
    return None


def oracle_program(prog, got):
    if prog["mode"] == "patch" and prog["template"]["doc"].get("zz-marker") != "m":
        return None          # (a shrunk case) nothing guarantees a PATCH: not a test input
    try:
        target, view, undecidable = ref_program(prog)
    except BadCase:
        return None
    w0 = got.get("window")
    if w0 and w0["requests"]:
        # prepared before a referenced ValueFunction arrived: one listed overlay is unavailable, and a
        # reconcile in that window may not produce a target from the remaining overlays
        return (f"a target was sent ({[q['method'] for q in w0['requests']]}) while the listed overlayRef "
                f"{prog.get('late_vfs')} was not available yet: a listed, non-skipped overlay is missing from it")
    if got["error"]:
        return got["error"]
    if got["impure"]:
        return "; ".join(got["impure"])
    if undecidable == "must-fail":
        if got["permfail"]:
            return None
        return (f"{got['method']} sent although the inputs of an applied function overlay do not evaluate")
    want = view if prog["mode"] == "create" else target
    if undecidable:
        # some skipIf is not a boolean: no target may be materialised (PermFail, no request) — or, at the
        # very least, the overlay is applied; it may not vanish
        if got["permfail"]:
            return None
        w, b = norm_expected(want, got["body"])
        if canon_unordered(b) != canon_unordered(w):
            return (f"an overlay whose skipIf did not evaluate to a boolean vanished: {got['method']} sent, "
                    "body is not base + every overlay whose skipIf is not true")
        return None
    if got["permfail"]:
        return ("PermFail and no request although every expression of every non-skipped step evaluates "
                f"(a skipped step's inputs must not be evaluated): {got.get('permfail_message')!r}")
    w, b = norm_expected(want, got["body"])
    if canon_unordered(b) != canon_unordered(w):
        return f"{got['method']} body is not base + forced overlay + non-skipped overlays in order + forced overlay"
    return None


def oracle_vfseq(case, got):
    try:
        wants = [ref_vf(case["vf"], call["inputs"], call["base"]) for call in case["calls"]]
    except BadCase:
        return None
    if got["error"]:
        return got["error"]
    if got["impure"]:
        return "; ".join(got["impure"])
    for i, (want, res) in enumerate(zip(wants, got["results"])):
        if canon_unordered(res) != canon_unordered(want):
            return (f"call {i} of the same prepared ValueFunction: result is not the deep merge of `return` into "
                    "THIS call's base")
    return None


# --------------------------------------------------------------------------- shrinking

def category(msg):
    """shrinking keeps the *kind* of failure"""
    if msg is None:
        return None
    if "modified" in msg or "no longer equal" in msg or "second " in msg:
        return "impure"
    if msg.startswith("expected one"):
        return "no-mutation"
    if msg.startswith("a target was sent"):
        return "window"
    if "raised" in msg or "PermFail" in msg or msg.startswith("prepare"):
        return "error"
    return "value"


def _paths(doc, prefix=()):
    out = []
    if isinstance(doc, dict):
        for k, v in doc.items():
            out.append(prefix + (k,))
            out.extend(_paths(v, prefix + (k,)))
    return out


def _without(doc, path):
    d = copy.deepcopy(doc)
    cur = d
    for k in path[:-1]:
        cur = cur[k]
    del cur[path[-1]]
    return d


def shrink_doc(doc, fails, keep_nonempty=False, budget=60):
    """greedy: drop keys (deepest first) while the failure persists"""
    changed = True
    while changed and budget > 0:
        changed = False
        for p in sorted(_paths(doc), key=len, reverse=True):
            if budget <= 0:
                break
            cand = _without(doc, p)
            if keep_nonempty and not cand:
                continue
            budget -= 1
            try:
                if fails(cand):
                    doc, changed = cand, True
                    break
            except Exception:
                pass
    return doc


def shrink_unit(case, impl):
    cat = category(oracle_unit(case, impl.unit(case)))

    def bad(c):
        return category(oracle_unit(c, impl.unit(c))) == cat

    c = copy.deepcopy(case)
    c["spec"] = shrink_doc(c["spec"], lambda s: bad({**c, "spec": s}), keep_nonempty=True)
    c["base"] = shrink_doc(c["base"], lambda b: bad({**c, "base": b}))
    c["inputs"] = shrink_doc(c["inputs"], lambda i: bad({**c, "inputs": i}), budget=30)
    return c


def shrink_vf(case, impl):
    cat = category(oracle_vf(case, impl.vf(case)))

    def bad(c):
        return category(oracle_vf(c, impl.vf(c))) == cat

    c = copy.deepcopy(case)
    c["vf"]["return"] = shrink_doc(c["vf"]["return"], lambda s: bad({**c, "vf": {**c["vf"], "return": s}}),
                                   keep_nonempty=True, budget=30)
    if c["base"]:
        c["base"] = shrink_doc(c["base"], lambda b: bad({**c, "base": b}), budget=20)
    return c


def shrink_program(prog, impl):
    cat = category(oracle_program(prog, impl.program(prog)))

    def bad(p):
        return category(oracle_program(p, impl.program(p))) == cat

    p = copy.deepcopy(prog)
    ovs = common.ddmin(p["overlays"], lambda sub: bad({**p, "overlays": sub})) if len(p["overlays"]) > 1 else p["overlays"]
    if bad({**p, "overlays": ovs}):
        p["overlays"] = ovs
    if p["overlays"] and bad({**p, "overlays": []}):
        p["overlays"] = []
    if p.get("create") and bad({**p, "create": None}):
        p["create"] = None
    if p.get("owned") and bad({**p, "owned": False}):
        p["owned"] = False
    for n in (0, 1, 2):
        if (p.get("reprepare") or 0) > n and bad({**p, "reprepare": n}):
            p["reprepare"] = n
            break
    p["vfs"] = {k: v for k, v in p["vfs"].items() if any(s.get("ref") == k for s in p["overlays"])}
    for i, st in enumerate(p["overlays"]):
        if st["kind"] == "inline":
            def with_ov(o, i=i):
                q = copy.deepcopy(p)
                q["overlays"][i]["overlay"] = o
                return q
            st["overlay"] = shrink_doc(st["overlay"], lambda o: bad(with_ov(o)), keep_nonempty=True, budget=15)

    def with_doc(d):
        q = copy.deepcopy(p)
        q["template"]["doc"] = d
        return q
    p["template"]["doc"] = shrink_doc(p["template"]["doc"], lambda d: bad(with_doc(d)), budget=20)
    return p


# --------------------------------------------------------------------------- the run

CORPUS = common.VERIF / "corpus" / PROP


def run_case(kind, case, impl):
    if kind == "unit":
        got = impl.unit(case)
        return got, oracle_unit(case, got)
    if kind == "vf":
        got = impl.vf(case)
        return got, oracle_vf(case, got)
    if kind == "vfseq":
        got = impl.vfseq(case)
        return got, oracle_vfseq(case, got)
    got = impl.program(case)
    return got, oracle_program(case, got)


def shrink_vfseq(case, impl):
    cat = category(oracle_vfseq(case, impl.vfseq(case)))

    def bad(c):
        return category(oracle_vfseq(c, impl.vfseq(c))) == cat

    c = copy.deepcopy(case)
    if len(c["calls"]) > 2:
        c["calls"] = common.ddmin(c["calls"], lambda sub: bad({**c, "calls": sub}))
    c["vf"]["return"] = shrink_doc(c["vf"]["return"], lambda s: bad({**c, "vf": {**c["vf"], "return": s}}),
                                   keep_nonempty=True, budget=25)
    for i, call in enumerate(c["calls"]):
        if call["base"]:
            def with_base(b, i=i):
                q = copy.deepcopy(c)
                q["calls"][i]["base"] = b
                return q
            call["base"] = shrink_doc(call["base"], lambda b: bad(with_base(b)), budget=10)
    return c


SHRINKERS = {"unit": shrink_unit, "vf": shrink_vf, "vfseq": shrink_vfseq, "program": shrink_program}


def report(ck, kind, case, impl, bad, budget):
    if budget["shrinks"] > 0:
        budget["shrinks"] -= 1
        try:
            small = SHRINKERS[kind](case, impl)
            got2, bad2 = run_case(kind, small, impl)
            if bad2:
                case, bad = small, bad2
        except Exception:
            pass
    ck.violate({"kind": kind, "case": case}, bad)


def shape_stats(ck, spec, prefix="ov"):
    def depth(d):
        return 1 + max([depth(v) for v in d.values() if isinstance(v, dict) and v] or [0])

    def nodes_after_node(d):
        """some written map has a preceding sibling: its values start at a non-trivial running offset"""
        for i, v in enumerate(d.values()):
            if isinstance(v, dict) and v and (i > 0 or nodes_after_node(v)):
                return True
        return False

    ck.count(f"{prefix}-depth:{depth(spec)}")
    ck.count(f"{prefix}-siblings:{len(spec)}")
    return depth(spec), nodes_after_node(spec)


def explore(ck, impl, drv, n_unit, n_vf, n_prog, n_ov, salt="", model=True):
    budget = {"shrinks": 4}
    r = rng("c12-unit" + salt)
    units = [gen_unit(r) for _ in range(n_unit)]
    r = rng("c12-vf" + salt)
    vfs = [gen_vf_case(r) for _ in range(n_vf)]
    r = rng("c12-prog" + salt)
    progs = [gen_program(r) for _ in range(n_prog)]
    r = rng("c12-vfseq" + salt)
    seqs = [gen_vfseq(r) for _ in range(max(1, n_vf // 2))]
    r = rng("c12-fn" + salt)
    probes = [gen_fn_probe(r) for _ in range(max(1, n_unit // 20))]
    r = rng("c12-ov" + salt)
    ovs = []
    for _ in range(n_ov):
        res = gen_doc(r, r.choice([1, 2, 3, 4]))
        over = gen_overlay(r, r.choice([1, 2, 3, 4]), None, res)
        ovs.append((res, over))

    reqs = []
    if model:
        reqs += [req_unit(c) for c in units] + [req_index(c) for c in units] + [req_vf(c) for c in vfs]
        reqs += [req_program(p) for p in progs]
        reqs += [{"op": "overlay", "resource": to_wire(a), "overlay": to_wire(b)} for a, b in ovs]
        reqs += [req_vf({"vf": q["vf"], **c}) for q in seqs for c in q["calls"]]
        reqs += [req_program(p, window=True) for p in progs if p.get("late_vfs")]
    try:
        answers = drv.ask(reqs) if model else []
    except Infra:
        raise
    except Exception as e:
        answers = []
        model = False
        ck.notes.append(f"model driver unavailable: {e}")
        ck.build_ok = False
    it = iter(answers)
    ans_unit = [next(it) for _ in units] if model else [None] * len(units)
    ans_index = [next(it) for _ in units] if model else [None] * len(units)
    ans_vf = [next(it) for _ in vfs] if model else [None] * len(vfs)
    ans_prog = [next(it) for _ in progs] if model else [None] * len(progs)
    ans_ov = [next(it) for _ in ovs] if model else [None] * len(ovs)
    ans_seq = [[next(it) for _ in q["calls"]] if model else [None] * len(q["calls"]) for q in seqs]
    ans_window = {id(p): (next(it) if model else None) for p in progs if p.get("late_vfs")}

    def model_err(a):
        return isinstance(a, dict) and "error" in a

    # ---- unit: prepare_overlay_expression + evaluate_overlay
    for case, a, ai in zip(units, ans_unit, ans_index):
        ck.evaluated()
        got, bad = run_case("unit", case, impl)
        d, offs = shape_stats(ck, case["spec"])
        ck.count("unit")
        if got.get("alias"):
            ck.count("unit-result-shares-containers-with-inputs(informational)")
        if d >= 2 and offs:
            ck.nontriv(canon_unordered(case["spec"]) + canon_unordered(case["base"]))
        ck.sample({"kind": "unit", "base": case["base"], "spec": case["spec"]}, limit=3)
        if bad:
            report(ck, "unit", case, impl, bad, budget)
        if a is not None and not got["error"]:
            if model_err(a):
                ck.disagree({"kind": "unit", "case": case}, a, None, "model-driver-error")
                continue
            m = canon_unordered(common.from_wire(a["result"]))
            if m != canon_unordered(common.from_wire(a["merge"])):
                ck.disagree({"kind": "unit", "case": case}, a["result"], a["merge"], "model-applier-vs-model-merge")
            if m != canon_unordered(got["result"]):
                ck.disagree({"kind": "unit", "case": case}, a["result"], to_wire(got["result"]), "evaluate_overlay-result")
            if got.get("index") is not None and ai is not None and not model_err(ai):
                if got["index"] != ai["index"]:
                    ck.disagree({"kind": "index", "spec": case["spec"]}, ai["index"], got["index"], "compiled-index-tree")
                if got.get("leaves") is not None and got["leaves"] != ai["leaves"]:
                    ck.disagree({"kind": "index", "spec": case["spec"]}, ai["leaves"], got["leaves"], "compiled-value-list")
            elif got.get("index") is None:
                ck.count("index-representation-not-comparable")

    # ---- `_overlay` (forced overlay / overlay())
    for (res, over), a in zip(ovs, ans_ov):
        ck.evaluated()
        ck.count("deep-overlay")
        try:
            got, impure = impl.overlay(res, over)
        except Exception as e:
            ck.violate({"kind": "overlay", "resource": res, "overlay": over}, f"_overlay raised {type(e).__name__}")
            continue
        want = ref_deep_overlay(res, over)
        if impure:
            ck.violate({"kind": "overlay", "resource": res, "overlay": over}, "_overlay modified its arguments")
        elif canon_unordered(got) != canon_unordered(want):
            ck.violate({"kind": "overlay", "resource": res, "overlay": over}, "_overlay is not the field-by-field deep overlay")
        if a is not None and not model_err(a) and canon_unordered(common.from_wire(a["result"])) != canon_unordered(got):
            ck.disagree({"kind": "overlay", "resource": res, "overlay": over}, a["result"], to_wire(got), "_overlay-result")

    # ---- ValueFunction return over a base
    for case, a in zip(vfs, ans_vf):
        ck.evaluated()
        got, bad = run_case("vf", case, impl)
        ck.count("vf-base:" + ("none" if case["base"] is None else "empty" if not case["base"] else "doc"))
        shape_stats(ck, case["vf"]["return"], "vf")
        if case["base"]:
            ck.nontriv("vf" + canon_unordered(case["vf"]["return"]) + canon_unordered(case["base"]))
        ck.sample({"kind": "vf", "vf": case["vf"], "base": case["base"]}, limit=4)
        if bad:
            report(ck, "vf", case, impl, bad, budget)
        if a is not None and not got["error"]:
            if model_err(a):
                ck.disagree({"kind": "vf", "case": case}, a, None, "model-driver-error")
            elif canon_unordered(common.from_wire(a["result"])) != canon_unordered(got["result"]):
                ck.disagree({"kind": "vf", "case": case}, a["result"], to_wire(got["result"]), "value-function-return")

    # ---- one prepared ValueFunction, several (inputs, base) pairs in one process
    for case, answers_ in zip(seqs, ans_seq):
        ck.evaluated()
        got, bad = run_case("vfseq", case, impl)
        ck.count(f"vfseq-calls:{len(case['calls'])}")
        pairs = [(canon_unordered(c["inputs"]), canon_unordered(c["base"]) if c["base"] is not None else None)
                 for c in case["calls"]]
        if any(a[0] == b[0] and a[1] != b[1] for a, b in zip(pairs, pairs[1:])):
            ck.count("vfseq-equal-inputs-different-base-consecutive")
            ck.nontriv("vfseq" + json.dumps(pairs))
        ck.sample({"kind": "vfseq", "vf": case["vf"], "bases": [c["base"] for c in case["calls"]]}, limit=6)
        if bad:
            report(ck, "vfseq", case, impl, bad, budget)
        if not got["error"]:
            for i, (a, res) in enumerate(zip(answers_, got["results"])):
                if a is None:
                    continue
                if model_err(a):
                    ck.disagree({"kind": "vfseq", "case": case, "call": i}, a, None, "model-driver-error")
                elif canon_unordered(common.from_wire(a["result"])) != canon_unordered(res):
                    ck.disagree({"kind": "vfseq", "case": case, "call": i}, a["result"], to_wire(res),
                                "value-function-return-shared-function")

    # ---- purity probes: koreo's CEL functions over input-derived lists and maps
    for case in probes:
        ck.evaluated()
        got, bad = run_case("unit", case, impl)
        ck.count("fn-probe" + (":not-evaluable" if got["error"] else ""))
        if bad:
            report(ck, "unit", case, impl, bad, budget)

    # ---- end to end
    for prog, a in zip(progs, ans_prog):
        ck.evaluated()
        got, bad = run_case("program", prog, impl)
        ck.count(f"program-mode:{prog['mode']}")
        ck.count(f"program-template:{prog['template']['kind']}")
        ck.count(f"program-overlays:{len(prog['overlays'])}")
        for st in prog["overlays"]:
            ck.count(f"step:{st['kind']}:skipIf={'none' if st.get('skipIf') is None else ref_skip(st['skipIf'], {'inputs': prog['inputs']})}")
        refs = [st["ref"] for st in prog["overlays"] if st["kind"] == "vf"]
        if len(refs) != len(set(refs)):
            ck.count("program-same-vf-referenced-twice")
        if got.get("permfail"):
            ck.count("program-permfail-no-request")
        if prog.get("create"):
            ck.count("program-create-overlay")
        if prog["owned"]:
            ck.count("program-owned")
        if prog.get("twin"):
            ck.count("program-one-expression-at-two-paths-then-merge-into-one")
        for st in prog["overlays"]:
            if st.get("bad_inputs"):
                ck.count("step:vf:inputs-do-not-evaluate:" + ("skipped" if ref_skip(st.get("skipIf"), {"inputs": prog["inputs"]}) is True else "applied-or-undecidable"))
        if prog.get("late_vfs"):
            w0 = got.get("window") or {}
            ck.count(f"program-valuefunction-arrives-late:window-outcome={w0.get('outcome')}:requests={len(w0.get('requests') or [])}:reprepared={w0.get('reprepared')}")
            aw = ans_window.get(id(prog))
            if aw is not None and not model_err(aw) and w0:
                # model: an unavailable listed overlay gives no target  <->  no request in the window
                if bool(aw.get("fail")) != (not w0["requests"]):
                    ck.disagree({"kind": "program", "case": prog}, aw, w0, "no-target-while-a-listed-overlay-is-unavailable")
        if prog.get("reprepare"):
            ck.count(f"program-reprepare:{prog['reprepare']}:observed={got.get('reprepared')}")
        if prog.get("identity_template"):
            ck.count("program-template-already-carries-identity" + (":owned-created-as-is" if prog["owned"] and not prog["overlays"] and prog["mode"] == "create" else ""))
        env = {"inputs": prog["inputs"]}
        n_active = sum(1 for st in prog["overlays"] if ref_skip(st.get("skipIf"), env) is not True)
        if n_active >= 2:
            ck.nontriv("prog" + json.dumps(program_spec(prog), sort_keys=True, default=str))
        ck.sample({"kind": "program", "spec": program_spec(prog), "mode": prog["mode"]}, limit=5)
        if bad:
            report(ck, "program", prog, impl, bad, budget)
        if a is not None and not got["error"]:
            if model_err(a):
                ck.disagree({"kind": "program", "case": prog}, a, None, "model-driver-error")
                continue
            if a.get("fail") or got.get("permfail"):
                if bool(a.get("fail")) != bool(got.get("permfail")):
                    ck.disagree({"kind": "program", "case": prog}, a if a.get("fail") else "target",
                                "permfail" if got.get("permfail") else "request", "no-target-iff-undecidable-skipIf")
                continue
            m = common.from_wire(a["create"] if prog["mode"] == "create" else a["target"])
            w, b = norm_expected(m, got["body"])
            if canon_unordered(w) != canon_unordered(b):
                ck.disagree({"kind": "program", "case": prog}, to_wire(w), to_wire(b), f"{got['method']}-body-vs-model-target")


def run(tier: str) -> int:
    ck = Check(PROP, tier)
    ck.trusted = [
        "Lean 4.33.0 kernel; axioms of every theorem ⊆ {propext, Classical.choice, Quot.sound}",
        "model lean/Koreo/Overlay.lean hand-transcribed from cel/prepare.py, cel/evaluation.py, cel/functions.py, "
        "resource_function/reconcile/__init__.py, value_function/reconcile.py; tied to the code by this run's "
        "differential; the forced overlay's key shape is regenerated from `_forced_overlay` by "
        "harness/extractors/Overlay.py and proved equal to the model's (the other functions are recursive "
        "programs, not tables: nothing robust to extract)",
        "celpy 0.3.0 as the leaf evaluator (an oracle parameter in the theorems; the driver instantiates it with the "
        "generators' path language), kr8s 0.20.7 APIObject.create/patch, harness/cluster.py",
        "harness/c12.py: generators, the reference deep merge `ref_*`, the snapshot walker",
    ]
    ck.assumptions = [
        "success path only: every generated expression evaluates (failing expressions are C10)",
        "written maps have distinct keys (Python dicts); hypothesis WFO/HDO of the theorems",
        "static leaves avoid the literal-encoder corner cases of C11 (number-looking strings, quotes, backslashes)",
        "'maps merge key by key' = maps written in the overlay; a computed map is a leaf (DESIGN section 7)",
        "purity: snapshots compare values, types and the sharing graph; excluded: kr8s class plural/endpoint memo, "
        "loggers, celpy environment/parser internals, lark Tree attributes other than data/children; the written "
        "definition handed to prepare is out of scope (prepare works on the cache's private deep copy)",
        "floats restricted to multiples of 1/8",
    ]
    ck.prove(extractors=["Overlay"])

    impl = Impl()
    drv = LeanDriver(PROP)

    # corpus first
    if CORPUS.is_dir():
        for f in sorted(CORPUS.glob("*.json")):
            data = json.load(open(f))
            kind, case = data["kind"], data["case"]
            ck.evaluated()
            ck.count("corpus")
            got, bad = run_case(kind, case, impl)
            if bad:
                ck.violate({"kind": kind, "case": case, "corpus": f.name}, bad)

    if tier == "quick":
        sizes = dict(n_unit=5000, n_vf=200, n_prog=220, n_ov=800)
    else:
        sizes = dict(n_unit=60000, n_vf=2500, n_prog=3000, n_ov=10000)
    explore(ck, impl, drv, **sizes)

    def widen(ck):
        # broken proof or model/implementation disagreement without a failing input: search further,
        # oracle only, fresh randomness
        explore(ck, impl, drv, n_unit=4 * sizes["n_unit"] if tier == "quick" else sizes["n_unit"],
                n_vf=sizes["n_vf"], n_prog=2 * sizes["n_prog"], n_ov=sizes["n_ov"], salt="-widen", model=False)

    if tier == "thorough":
        ck.leanchecker()
    return ck.finish(
        widen=widen,
        rule="random (base, written overlay, inputs): overlay depth 1-6, 0-5 siblings per map, keys overlapping the base "
             "or not (dotted, spaced, empty keys), leaves static scalars / empty maps / lists (with maps and expressions "
             "inside) / `=inputs.*` / `=resource.*` paths whose values are maps, lists, scalars; ValueFunctions with "
             "locals over None/empty/non-empty bases; ResourceFunctions (inline resource or cached ResourceTemplate, 0-4 "
             "inline/overlayRef overlays, skipIf true/false/absent, identity-attacking overlays, optional create.overlay, "
             "owned or not, create and patch paths). non-trivial = unit: depth >= 2 with a written map after a sibling "
             "(running offset matters); vf: non-empty base; program: >= 2 active overlays; distinct by documents",
    )


def replay(path: str) -> int:
    impl = Impl()
    data = json.load(open(path))
    rc = 0
    items = data.get("violations", [])
    if not items and "kind" in data and "case" in data:      # a corpus file
        items = [{"case": {"kind": data["kind"], "case": data["case"]}}]
    for v in items:
        c = v["case"]
        kind = c.get("kind")
        if kind == "overlay":
            got, impure = impl.overlay(c["resource"], c["overlay"])
            bad = None
            if impure:
                bad = "_overlay modified its arguments"
            elif canon_unordered(got) != canon_unordered(ref_deep_overlay(c["resource"], c["overlay"])):
                bad = "_overlay is not the field-by-field deep overlay"
        else:
            got, bad = run_case(kind, c["case"], impl)
        print("replay:", json.dumps(c, default=str)[:2000], "->", json.dumps(got, default=str)[:1500], "::", bad)
        rc = rc or (1 if bad else 0)
    return rc
