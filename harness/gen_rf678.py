"""Shared generator / runner for C06, C07, C08: real ResourceFunction specs, prepared through the
real cache, reconciled against a freshly seeded in-memory cluster (harness/cluster.py).

Everything the three checks observe comes from the cluster's request log and the returned outcome.
"""
from __future__ import annotations

import copy
import json

import celpy

import cluster as cl
import koreo_util as ku

API_VERSION = "verif.test/v1"
NS = "ns1"                 # the namespace apiConfig names for namespaced kinds
NAME = "obj"
LAST_APPLIED = "koreo.dev/last-applied-configuration"
DIRECTIVES = ("x-koreo-compare-as-set", "x-koreo-compare-as-map", "x-koreo-compare-last-applied")

OWNER_REF = dict(ku.OWNER_REF)
OTHER_REF = {"apiVersion": "v1", "kind": "ConfigMap", "name": "someone-else", "uid": "uid-other",
             "blockOwnerDeletion": False, "controller": True}
THIRD_REF = {"apiVersion": "apps/v1", "kind": "Deployment", "name": "third", "uid": "uid-third"}


def kind_for(prefix: str, namespaced: bool) -> tuple[str, str]:
    """kr8s keeps every class it ever made and `get_class` finds it again by kind+version — with the
    `namespaced` flag of its *first* creation.  So each (property, scope) gets its own kind."""
    kind = f"{prefix}{'Ns' if namespaced else 'Cl'}"
    return kind, kind.lower() + "s"


def api_config(prefix: str, scoped_ns: bool, name=NAME, namespace=NS, **flags) -> dict:
    """`scoped_ns` picks the kind (namespaced / cluster-scoped); the `namespaced` *key* is written only
    when it is among `flags`"""
    kind, plural = kind_for(prefix, scoped_ns)
    api = {"apiVersion": API_VERSION, "kind": kind, "plural": plural, "name": name}
    if namespace is not None:
        api["namespace"] = namespace
    api.update(flags)
    return api


def key_for(prefix: str, namespaced: bool, name=NAME, namespace=NS) -> tuple:
    _, plural = kind_for(prefix, namespaced)
    return (API_VERSION, plural, namespace if namespaced else None, name)


async def _reconcile(spec, objects, inputs, owner, templates, value_functions, cluster_ns):
    from koreo.resource_function.reconcile import reconcile_resource_function

    ku.reset()
    for name, tspec in (templates or {}).items():
        await ku.offer_resource_template(name, copy.deepcopy(tspec))
    for name, vspec in (value_functions or {}).items():
        await ku.offer_value_function(name, copy.deepcopy(vspec))
    fn = await ku.offer_resource_function("rf", copy.deepcopy(spec))
    c = cl.Cluster(objects=copy.deepcopy(objects), namespace=cluster_ns)
    if not hasattr(fn, "crud_config"):
        return {"prepared": False, "prepare": ku.outcome_obs(fn), "cluster": c, "raised": None, "outcome": None}
    raised, res = None, None
    try:
        res = await reconcile_resource_function(
            api=c, location="verif", function=fn, owner=owner, inputs=celpy.json_to_cel(inputs))
    except Exception as e:  # an exception escaping reconcile is an observation, not a harness error
        raised = f"{type(e).__name__}: {e}"
    return {"prepared": True, "cluster": c, "raised": raised,
            "outcome": None if res is None else res.outcome}


def reconcile(spec, objects=None, inputs=None, owner=(NS, OWNER_REF), templates=None, value_functions=None,
              cluster_ns="default") -> dict:
    """one reconcile of a real prepared ResourceFunction against a fresh cluster holding `objects`"""
    owner = (owner[0], copy.deepcopy(owner[1]))
    return ku.run(_reconcile(spec, objects or {}, inputs or {}, owner, templates, value_functions, cluster_ns))


def log_view(c) -> list[dict]:
    """the request log reduced to what the properties talk about"""
    return [{"method": e["method"], "plural": e["plural"], "name": e["name"], "nsArg": e["namespace_arg"],
             "body": e["body"]} for e in c.log]


def action_of(c) -> str:
    """noApiAtAll | none (reads only) | create | patch | delete | multiple:<methods>"""
    if not c.log:
        return "noApiAtAll"
    muts = [e["method"] for e in c.log if e["method"] != "GET"]
    if not muts:
        return "none"
    if len(muts) == 1:
        return {"POST": "create", "PATCH": "patch", "DELETE": "delete"}.get(muts[0], muts[0])
    return "multiple:" + ",".join(muts)


def outcome_view(obs: dict) -> dict:
    if obs["raised"]:
        return {"c": "raised", "what": obs["raised"]}
    o = obs["outcome"]
    c = ku.outcome_class(o)
    v = {"c": c}
    if c == "retry":
        v["delay"] = o.delay
    return v


# ------------------------------------------------------------------ JSON helpers

def get_path(v, *path):
    for p in path:
        if not isinstance(v, dict) or p not in v:
            return None
        v = v[p]
    return v


def identity_of(body) -> dict:
    """(apiVersion, kind, metadata.name, metadata.namespace) of a JSON object, missing = None"""
    md = body.get("metadata") if isinstance(body, dict) else None
    return {"apiVersion": body.get("apiVersion") if isinstance(body, dict) else None,
            "kind": body.get("kind") if isinstance(body, dict) else None,
            "name": md.get("name") if isinstance(md, dict) else None,
            "namespace": md.get("namespace") if isinstance(md, dict) else None}


def directive_paths(v, path=()) -> list:
    """every place (any depth, any list position) where a Koreo directive key occurs"""
    out = []
    if isinstance(v, dict):
        for k, x in v.items():
            if k in DIRECTIVES:
                out.append(list(path) + [k])
            out.extend(directive_paths(x, path + (k,)))
    elif isinstance(v, (list, tuple)):
        for i, x in enumerate(v):
            out.extend(directive_paths(x, path + (i,)))
    return out


def strip_directives(v):
    """reference stripping (written independently of koreo's)"""
    if isinstance(v, dict):
        return {k: strip_directives(x) for k, x in v.items() if k not in DIRECTIVES}
    if isinstance(v, (list, tuple)):
        return [strip_directives(x) for x in v]
    return v


def typed_eq(a, b) -> bool:
    """JSON equality that keeps bool / number apart and ignores map order"""
    if isinstance(a, bool) or isinstance(b, bool):
        return isinstance(a, bool) and isinstance(b, bool) and a == b
    if isinstance(a, dict) and isinstance(b, dict):
        return a.keys() == b.keys() and all(typed_eq(a[k], b[k]) for k in a)
    if isinstance(a, list) and isinstance(b, list):
        return len(a) == len(b) and all(typed_eq(x, y) for x, y in zip(a, b))
    if isinstance(a, (int, float)) and isinstance(b, (int, float)):
        return a == b
    return type(a) is type(b) and a == b


def dumps(v) -> str:
    return json.dumps(v, sort_keys=True, default=str)
