"""Shared generator / runner for C06, C07, C08: real ResourceFunction specs, prepared through the
real cache, reconciled against a freshly seeded in-memory cluster (harness/cluster.py).

Everything the three checks observe comes from the cluster's request log and the returned outcome.
"""
from __future__ import annotations

import copy
import json

import celpy

import cluster as cl
import koreo_util as ku

API_VERSION = "verif.test/v1"
NS = "ns1"                 # the namespace apiConfig names for namespaced kinds
NAME = "obj"
LAST_APPLIED = "koreo.dev/last-applied-configuration"
DIRECTIVES = ("x-koreo-compare-as-set", "x-koreo-compare-as-map", "x-koreo-compare-last-applied")

OWNER_REF = dict(ku.OWNER_REF)
OTHER_REF = {"apiVersion": "v1", "kind": "ConfigMap", "name": "someone-else", "uid": "uid-other",
             "blockOwnerDeletion": False, "controller": True}
THIRD_REF = {"apiVersion": "apps/v1", "kind": "Deployment", "name": "third", "uid": "uid-third"}
# an earlier incarnation of the parent: same apiVersion/kind/name, another uid (deleted with orphaning, re-created)
STALE_PARENT_REF = {**OWNER_REF, "uid": "uid-parent-previous-incarnation"}


def kind_for(prefix: str, namespaced: bool) -> tuple[str, str]:
    """kr8s keeps every class it ever made and `get_class` finds it again by kind+version — with the
    `namespaced` flag of its *first* creation.  So each (property, scope) gets its own kind."""
    kind = f"{prefix}{'Ns' if namespaced else 'Cl'}"
    return kind, kind.lower() + "s"


def api_config(prefix: str, scoped_ns: bool, name=NAME, namespace=NS, **flags) -> dict:
    """`scoped_ns` picks the kind (namespaced / cluster-scoped); the `namespaced` *key* is written only
    when it is among `flags`"""
    kind, plural = kind_for(prefix, scoped_ns)
    api = {"apiVersion": API_VERSION, "kind": kind, "plural": plural, "name": name}
    if namespace is not None:
        api["namespace"] = namespace
    api.update(flags)
    return api


def key_for(prefix: str, namespaced: bool, name=NAME, namespace=NS) -> tuple:
    _, plural = kind_for(prefix, namespaced)
    return (API_VERSION, plural, namespace if namespaced else None, name)


async def _reconcile(spec, objects, inputs, owner, templates, value_functions, cluster_ns, configure=None,
                     function_test=None):
    from koreo.resource_function.reconcile import reconcile_resource_function

    ku.reset()
    for name, tspec in (templates or {}).items():
        await ku.offer_resource_template(name, copy.deepcopy(tspec))
    for name, vspec in (value_functions or {}).items():
        await ku.offer_value_function(name, copy.deepcopy(vspec))
    fn = await ku.offer_resource_function("rf", copy.deepcopy(spec))
    ftest = None
    if function_test is not None and hasattr(fn, "crud_config"):
        ftest = await _function_test_between(function_test)
    c = cl.Cluster(objects=copy.deepcopy(objects), namespace=cluster_ns)
    c.log_lookups = True      # a kind-to-plural discovery is an API call too
    if configure is not None:
        configure(c)
    if not hasattr(fn, "crud_config"):
        return {"prepared": False, "prepare": ku.outcome_obs(fn), "cluster": c, "raised": None, "outcome": None,
                "resource_id": None}
    raised, res = None, None
    try:
        res = await reconcile_resource_function(
            api=c, location="verif", function=fn, owner=owner, inputs=celpy.json_to_cel(inputs))
    except Exception as e:  # an exception escaping reconcile is an observation, not a harness error
        raised = f"{type(e).__name__}: {e}"
    return {"prepared": True, "cluster": c, "raised": raised,
            "outcome": None if res is None else res.outcome,
            "resource_id": None if res is None else copy.deepcopy(res.resource_id), "function_test": ftest}


async def _function_test_between(ftest_spec):
    """run a FunctionTest with koreo's own runner (real prepare_function_test / run_function_test) — what the
    controller does in the same process between two reconciles"""
    from koreo.function_test.prepare import prepare_function_test
    from koreo.function_test.run import run_function_test

    try:
        prepared = await prepare_function_test("ft", copy.deepcopy(ftest_spec))
        if not isinstance(prepared, tuple):
            return {"prepared": False, "why": ku.outcome_obs(prepared)}
        result = await run_function_test("ft", prepared[0])
    except Exception as e:  # an exception escaping koreo's test runner is an observation, not a harness error
        return {"prepared": None, "raised": f"{type(e).__name__}: {e}"}
    return {"prepared": True, "cases": [(t.label, bool(t.test_pass)) for t in (result.test_results or [])]}


async def _test_first(spec, objects, inputs, owner, templates, value_functions, function_test, then):
    """the reverse order: a FunctionTest of the kind runs FIRST (against the function as cached so far); THEN the
    function is prepared again (`then="reprepare"`: a spec update, new resourceVersion) or another function of the
    same kind is prepared for the first time (`then="another"`), and that one is reconciled.  Whatever class the
    test runner left registered with kr8s is still alive at that point (see `test_first`)."""
    from koreo.resource_function.reconcile import reconcile_resource_function

    ku.reset()
    for name, tspec in (templates or {}).items():
        await ku.offer_resource_template(name, copy.deepcopy(tspec))
    for name, vspec in (value_functions or {}).items():
        await ku.offer_value_function(name, copy.deepcopy(vspec))
    first = await ku.offer_resource_function("rf", copy.deepcopy(spec))
    ftest = await _function_test_between(function_test) if hasattr(first, "crud_config") else None
    if then == "another":
        fn = await ku.offer_resource_function("rf-second", copy.deepcopy(spec))
    else:
        fn = await ku.offer_resource_function("rf", copy.deepcopy(spec), version="2")
    c = cl.Cluster(objects=copy.deepcopy(objects))
    c.log_lookups = True
    if not hasattr(fn, "crud_config"):
        return {"prepared": False, "prepare": ku.outcome_obs(fn), "cluster": c, "raised": None, "outcome": None,
                "resource_id": None, "function_test": ftest}
    raised, res = None, None
    try:
        res = await reconcile_resource_function(api=c, location="verif", function=fn, owner=owner,
                                                inputs=celpy.json_to_cel(inputs))
    except Exception as e:
        raised = f"{type(e).__name__}: {e}"
    return {"prepared": True, "cluster": c, "raised": raised, "outcome": None if res is None else res.outcome,
            "resource_id": None if res is None else copy.deepcopy(res.resource_id), "function_test": ftest,
            "prepared_fresh": fn is not first}


def test_first(spec, objects, inputs, owner, templates, value_functions, function_test, then) -> dict:
    """`_test_first` with the garbage collector held off: a class the FunctionTest runner registers is only
    reachable through reference cycles, so whether it is still registered when the function is prepared would
    otherwise depend on when the cyclic collector happens to run.  Collect before (a clean registry), keep the
    collector off during the sequence, restore it afterwards."""
    import gc

    was_enabled = gc.isenabled()
    gc.collect()
    gc.disable()
    try:
        owner = (owner[0], copy.deepcopy(owner[1]))
        return ku.run(_test_first(spec, objects or {}, inputs or {}, owner, templates, value_functions,
                                  function_test, then))
    finally:
        if was_enabled:
            gc.enable()
        gc.collect()


def reconcile(spec, objects=None, inputs=None, owner=(NS, OWNER_REF), templates=None, value_functions=None,
              cluster_ns="default", configure=None, function_test=None) -> dict:
    """one reconcile of a real prepared ResourceFunction against a fresh cluster holding `objects`;
    `configure(cluster)` may install hooks (latency / competitor) before the run; `function_test` (a FunctionTest
    spec for the function, cached as "rf") is run with koreo's own runner between prepare and reconcile"""
    owner = (owner[0], copy.deepcopy(owner[1]))
    return ku.run(_reconcile(spec, objects or {}, inputs or {}, owner, templates, value_functions, cluster_ns,
                             configure, function_test))


async def _reconcile_reprepared(spec, vf_name, vf_specs, objects, inputs, owner, configure):
    """prepare through the real cache with an overlayRef dependency, update the ValueFunction so that the cache
    re-prepares the function in the background, fetch the function from the cache and reconcile it"""
    import asyncio

    from koreo import cache
    from koreo.resource_function.reconcile import reconcile_resource_function
    from koreo.resource_function.structure import ResourceFunction

    ku.reset()
    await ku.offer_value_function(vf_name, copy.deepcopy(vf_specs[0]), version="1")
    first = await ku.offer_resource_function("rf", copy.deepcopy(spec))
    await ku.offer_value_function(vf_name, copy.deepcopy(vf_specs[1]), version="2")
    fn = first
    for _ in range(200):        # let the monitor task take its turns
        await asyncio.sleep(0)
        fn = cache.get_resource_from_cache(resource_class=ResourceFunction, cache_key="rf")
        if fn is not first:
            break
    c = cl.Cluster(objects=copy.deepcopy(objects))
    c.log_lookups = True
    if configure is not None:
        configure(c)
    out = {"reprepared": fn is not first, "cluster": c, "raised": None, "outcome": None, "resource_id": None,
           "prepared": hasattr(fn, "crud_config")}
    if not out["prepared"]:
        out["prepare"] = ku.outcome_obs(fn) if fn is not None else {"c": "missing"}
        return out
    try:
        res = await reconcile_resource_function(api=c, location="verif", function=fn, owner=owner,
                                                inputs=celpy.json_to_cel(inputs))
        out["outcome"], out["resource_id"] = res.outcome, copy.deepcopy(res.resource_id)
    except Exception as e:
        out["raised"] = f"{type(e).__name__}: {e}"
    return out


def reconcile_reprepared(spec, vf_name, vf_specs, objects=None, inputs=None, owner=(NS, OWNER_REF), configure=None):
    owner = (owner[0], copy.deepcopy(owner[1]))
    return ku.run(_reconcile_reprepared(spec, vf_name, vf_specs, objects or {}, inputs or {}, owner, configure))


def log_view(c) -> list[dict]:
    """the request log reduced to what the properties talk about"""
    return [{"method": e["method"], "plural": e["plural"], "name": e["name"], "nsArg": e["namespace_arg"],
             "body": e["body"], "version": e["version"]} for e in c.log if e["method"] != "LOOKUP"]


def action_of(c) -> str:
    """noApiAtAll | none (reads only) | create | patch | delete | multiple:<methods>"""
    if not c.log:
        return "noApiAtAll"
    muts = [e["method"] for e in c.log if e["method"] not in ("GET", "LOOKUP")]
    if not muts:
        return "none"
    if len(muts) == 1:
        return {"POST": "create", "PATCH": "patch", "DELETE": "delete"}.get(muts[0], muts[0])
    return "multiple:" + ",".join(muts)


def outcome_view(obs: dict) -> dict:
    if obs["raised"]:
        return {"c": "raised", "what": obs["raised"]}
    o = obs["outcome"]
    c = ku.outcome_class(o)
    v = {"c": c}
    if c == "retry":
        v["delay"] = o.delay
    return v


# ------------------------------------------------------------------ JSON helpers

def get_path(v, *path):
    for p in path:
        if not isinstance(v, dict) or p not in v:
            return None
        v = v[p]
    return v


def identity_of(body) -> dict:
    """(apiVersion, kind, metadata.name, metadata.namespace) of a JSON object, missing = None"""
    md = body.get("metadata") if isinstance(body, dict) else None
    return {"apiVersion": body.get("apiVersion") if isinstance(body, dict) else None,
            "kind": body.get("kind") if isinstance(body, dict) else None,
            "name": md.get("name") if isinstance(md, dict) else None,
            "namespace": md.get("namespace") if isinstance(md, dict) else None}


def directive_paths(v, path=()) -> list:
    """every place (any depth, any list position) where a Koreo directive key occurs"""
    out = []
    if isinstance(v, dict):
        for k, x in v.items():
            if k in DIRECTIVES:
                out.append(list(path) + [k])
            out.extend(directive_paths(x, path + (k,)))
    elif isinstance(v, (list, tuple)):
        for i, x in enumerate(v):
            out.extend(directive_paths(x, path + (i,)))
    return out


def directive_in_nested_list(v, in_list=0) -> int:
    """deepest run of lists directly inside lists above a directive-bearing map (0 = none)"""
    if isinstance(v, dict):
        here = in_list if (in_list >= 2 and any(k in DIRECTIVES for k in v)) else 0
        return max([here] + [directive_in_nested_list(x, 0) for x in v.values()])
    if isinstance(v, (list, tuple)):
        return max([0] + [directive_in_nested_list(x, in_list + 1) for x in v])
    return 0


def strip_directives(v):
    """reference stripping (written independently of koreo's)"""
    if isinstance(v, dict):
        return {k: strip_directives(x) for k, x in v.items() if k not in DIRECTIVES}
    if isinstance(v, (list, tuple)):
        return [strip_directives(x) for x in v]
    return v


def typed_eq(a, b) -> bool:
    """JSON equality that keeps bool / number apart and ignores map order"""
    if isinstance(a, bool) or isinstance(b, bool):
        return isinstance(a, bool) and isinstance(b, bool) and a == b
    if isinstance(a, dict) and isinstance(b, dict):
        return a.keys() == b.keys() and all(typed_eq(a[k], b[k]) for k in a)
    if isinstance(a, list) and isinstance(b, list):
        return len(a) == len(b) and all(typed_eq(x, y) for x, y in zip(a, b))
    if isinstance(a, (int, float)) and isinstance(b, (int, float)):
        return a == b
    return type(a) is type(b) and a == b


def dumps(v) -> str:
    return json.dumps(v, sort_keys=True, default=str)


# ------------------------------------------------------------------ overlay trees (C06 / C08)
#
# A layer (inline resource, ResourceTemplate, inline overlay, overlayRef ValueFunction `return`,
# create.overlay) is written as a JSON-serialisable tree
#     {"n": {key: tree}}            a map written in the definition
#     {"l": value, "via": bool}     a leaf: a literal, or (via) an `=inputs.<k>` expression giving `value`
# A literal non-empty map is always a node (that is how `_overlay_indexer` reads it).

def node(**kw):
    return {"n": dict(kw)}


def leaf(value, via=False):
    if isinstance(value, dict) and value and not via:
        return {"n": {k: leaf(v) for k, v in value.items()}}
    return {"l": value, "via": bool(via)}


def cel_leaf(value, cel: str):
    """a leaf written as the CEL expression `cel`; `value` is what it comes to once `convert_bools` has turned
    the CEL value into a plain one (what the model sees).  A static ResourceTemplate writes `value` itself."""
    return {"l": value, "via": False, "cel": cel}


def strip_cel(t):
    if "n" in t:
        return {"n": {k: strip_cel(v) for k, v in t["n"].items()}}
    return {k: v for k, v in t.items() if k != "cel"}


def tree_merge(a, b):
    """b laid over a (definition-level merge of two trees: nodes merge, anything else replaces)"""
    if a is not None and "n" in a and "n" in b:
        out = dict(a["n"])
        for k, v in b["n"].items():
            out[k] = tree_merge(out.get(k), v)
        return {"n": out}
    return copy.deepcopy(b)


def tree_value(t):
    """the plain value of a tree (what a template evaluates to)"""
    if "n" in t:
        return {k: tree_value(v) for k, v in t["n"].items()}
    return copy.deepcopy(t["l"])


def tree_spec(t, inputs: dict, tag: str):
    """the tree as written in a real spec; via-leaves become `=inputs.<k>` and fill `inputs`"""
    if "n" in t:
        return {k: tree_spec(v, inputs, f"{tag}_{k.replace('-', '_').replace('.', '_').replace('/', '_')}")
                for k, v in t["n"].items()}
    if t.get("cel"):
        return t["cel"]
    if t.get("via"):
        key = f"v_{tag}"
        inputs[key] = copy.deepcopy(t["l"])
        return f"=inputs.{key}"
    return copy.deepcopy(t["l"])


def tree_ov(t):
    """the tree as the model's `Ov` on the wire"""
    from common import to_wire

    if "n" in t and t["n"]:
        return {"node": [[k, tree_ov(v)] for k, v in t["n"].items()]}
    if "n" in t:
        return {"leaf": to_wire({})}
    return {"leaf": to_wire(t["l"])}


def tree_is_empty(t) -> bool:
    return "n" in t and not t["n"]


# ------------------------------------------------------------------ programs

LAYERS = ("template", "ov0", "ov1", "ovRef", "create")

EVIL_META = {"name": "evil-name", "namespace": "evil-ns", "labels": {"x": "y"}}
EDITS = {
    "verkind": lambda via: node(apiVersion=leaf("evil/v9", via), kind=leaf("EvilKind", via)),
    "name": lambda via: node(metadata=node(name=leaf("evil-name", via))),
    "namespace": lambda via: node(metadata=node(namespace=leaf("evil-ns", via))),
    "metaStr": lambda via: node(metadata=leaf("scalar", via)),
    "metaInt": lambda via: node(metadata=leaf(7, via)),
    "metaList": lambda via: node(metadata=leaf(["a", {"name": "evil-name"}], via)),
    "metaNull": lambda via: node(metadata=leaf(None, via)),
    "metaMap": lambda via: node(metadata=leaf(EVIL_META, via)),
    "verkindNonStr": lambda via: node(apiVersion=leaf(3, via), kind=leaf({"k": 1}, via)),
    "ver": lambda via: node(apiVersion=leaf("verif.test/v0alpha1", via)),     # another version of the same kind
    "kindOnly": lambda via: node(kind=leaf("EvilKind", via)),
    # a CEL map whose BYTES key has the base64 text "name": distinct from the text key `name` while the kind/name
    # overlay is applied, folded onto it when `convert_bools` turns the keys into text (F18)
    "bytesKeyName": lambda via: node(metadata=cel_leaf(
        {"name": "evil-name", "labels": {"x": "y"}},
        '={"name": "kept-name", "labels": {"x": "y"}, b"\\x9d\\xa9\\x9e": "evil-name"}')),
}


def base_layer(layer: str, prog: dict):
    if layer == "template":
        t = node(spec=node(a=leaf(1), b=leaf("x")), metadata=node(labels=node(app=leaf("t"))))
        if prog.get("tmplForm") == "ref":   # a ResourceTemplate must name some apiVersion / kind
            kind, _ = kind_for(prog["prefix"], prog["namespaced"])
            t = tree_merge(t, node(apiVersion=leaf(prog.get("apiVersion", API_VERSION)), kind=leaf(kind)))
        return t
    return node(spec=node(**{f"from_{layer}": leaf(True)}))


def layer_tree(layer: str, prog: dict):
    """benign content of the layer + its adversarial edits (in order); None = the layer is not there"""
    edits = [e for e in prog["edits"] if e["layer"] == layer]
    if layer != "template" and not edits and layer not in prog.get("benign", []) and layer not in prog.get("extra", {}):
        return None
    t = base_layer(layer, prog)
    if layer == "template" and prog.get("bigField"):
        # an unusually large target: one string field of that many characters (kept out of the program's own
        # description so that cases stay readable)
        t = tree_merge(t, node(spec=node(blob=leaf("x" * int(prog["bigField"]), via=prog.get("tmplForm") != "ref"))))
    if layer in prog.get("extra", {}):
        t = tree_merge(t, prog["extra"][layer])
    for e in edits:
        via = e.get("via", False) and not (layer == "template" and prog.get("tmplForm") == "ref")
        t = tree_merge(t, EDITS[e["kind"]](via))
    if layer == "template" and prog.get("tmplForm") == "ref":
        t = strip_cel(t)
    return t


def id_text(value) -> str:
    """what an evaluated apiConfig name / namespace is as text (`f"{value}"` of the CEL value): a string stays
    as it is — blanks, newlines and all —, a number is written out"""
    if isinstance(value, str):
        return value
    return f"{celpy.json_to_cel(value)}"


def build(prog: dict) -> dict:
    """program -> real spec + cache content + inputs, and the model's request"""
    from common import to_wire

    prefix, namespaced = prog["prefix"], prog["namespaced"]
    kind, plural = kind_for(prefix, namespaced)
    inputs: dict = {}
    locals_: dict = {}
    raw_name, raw_ns = prog.get("name", NAME), prog.get("apiNs", NS if namespaced else None)
    name, ns = id_text(raw_name), (None if raw_ns is None else id_text(raw_ns))
    api_version = prog.get("apiVersion", API_VERSION)
    sfx = prog.get("suffix", "")          # several functions prepared side by side (concurrent mode)
    # what the spec DECLARES may differ from the scope / plural of the kind as first registered in the process
    # (`declNamespaced`, `declPlural`): kr8s hands every later function of the kind the class registered first
    api = {"apiVersion": api_version, "kind": kind, "plural": prog.get("declPlural", plural),
           "namespaced": prog.get("declNamespaced", namespaced)}
    plural = prog.get("regPlural", plural)     # the plural the kind was first registered with
    if prog.get("nameVia") == "locals":     # the expression itself reads no input: the name comes through `locals`
        inputs["objName"] = raw_name
        locals_["objName"] = "=inputs.objName"
        api["name"] = "=locals.objName"
    elif prog.get("nameVia"):
        inputs["objName"] = raw_name
        api["name"] = "=inputs.objName"
    else:
        api["name"] = name
    if "nsEmpty" in prog:
        # the namespace is written (prepare is satisfied) but EVALUATES to nothing: "" | null | a missing input
        api["namespace"] = "=inputs.objNs"
        if prog["nsEmpty"] != "missing":
            inputs["objNs"] = prog["nsEmpty"]
        ns = None
    elif ns is not None:
        if prog.get("nsVia") == "locals":
            inputs["objNs"] = raw_ns
            locals_["objNs"] = "=inputs.objNs"
            api["namespace"] = "=locals.objNs"
        elif prog.get("nsVia"):
            inputs["objNs"] = raw_ns
            api["namespace"] = "=inputs.objNs"
        else:
            api["namespace"] = ns
    flags = prog.get("flags", {})
    api["owned"] = flags.get("owned", True)
    for k in ("readonly", "deleteIfExists"):
        if flags.get(k):
            api[k] = True
    spec: dict = {"apiConfig": api}
    if locals_:
        spec["locals"] = locals_
    templates, vfs = {}, {}
    # template
    ttree = layer_tree("template", prog)
    if prog.get("tmplForm") == "ref":
        templates["tmpl" + sfx] = {"template": tree_spec(ttree, {}, "t")}
        spec["resourceTemplateRef"] = {"name": "tmpl" + sfx}
    else:
        spec["resource"] = tree_spec(ttree, inputs, "t")
    tmpl_value = tree_value(ttree)
    # overlays
    steps_real, steps_model = [], []
    for layer in ("ov0", "ov1", "ovRef"):
        t = layer_tree(layer, prog)
        if t is None or tree_is_empty(t):
            continue
        entry: dict = {}
        if layer == "ovRef":
            vf_inputs: dict = {}
            vfs["vf" + sfx] = {"return": tree_spec(t, vf_inputs, layer)}
            entry["overlayRef"] = {"kind": "ValueFunction", "name": "vf" + sfx}
            if vf_inputs:
                entry["inputs"] = {k: f"=inputs.{k}" for k in vf_inputs}
                inputs.update(vf_inputs)
        else:
            entry["overlay"] = tree_spec(t, inputs, layer)
        skipped = layer in prog.get("skip", [])
        if layer in prog.get("skip", []) or layer in prog.get("noskip", []):
            inputs[f"skip_{layer}"] = skipped
            entry["skipIf"] = f"=inputs.skip_{layer}"
        steps_real.append(entry)
        steps_model.append({"skip": True} if skipped else {"ov": tree_ov(t)})
    if steps_real:
        spec["overlays"] = steps_real
    # create
    ctree = layer_tree("create", prog)
    create: dict = {}
    create_model = None
    if ctree is not None and not tree_is_empty(ctree):
        create["overlay"] = tree_spec(ctree, inputs, "create")
        create_model = tree_ov(ctree)
    if not flags.get("createEnabled", True):
        create = {"enabled": False}
        create_model = None
    if create:
        spec["create"] = create
    pol = flags.get("policy", "patch")
    if pol != "patch":
        spec["update"] = {pol: {}}
    owner_ns = prog.get("ownerNs", NS)
    owner_ref = prog.get("ownerRef", OWNER_REF)
    stored = prog.get("stored")
    objects = {}
    if stored is not None:
        objects[(api_version, plural, ns if namespaced else None, name)] = stored
    model = {"op": "run", "api": {"ver": api_version, "kind": kind, "plural": plural, "namespaced": namespaced},
             "name": name, "ns": ns,
             "flags": {"readonly": bool(flags.get("readonly")), "owned": bool(flags.get("owned", True)),
                       "createEnabled": bool(flags.get("createEnabled", True)),
                       "deleteIfExists": bool(flags.get("deleteIfExists")), "policy": pol},
             "tmpl": to_wire(tmpl_value), "steps": steps_model, "createOv": create_model,
             "owner": {"ns": owner_ns, "ref": to_wire(owner_ref)},
             "stored": None if stored is None else to_wire(stored), "defNs": "default", "precond": True}
    return {"spec": spec, "templates": templates, "vfs": vfs, "inputs": inputs, "objects": objects,
            "owner": (owner_ns, owner_ref), "model": model, "kind": kind, "plural": plural, "name": name, "ns": ns,
            "apiVersion": api_version}


def function_test_for(prog: dict, b: dict) -> dict:
    """a FunctionTest of the program's function as a test author would write it: the function's inputs, a
    currentResource of the function's kind (`prog["functionTest"]["namespace"]`: spelled out or left out), one case"""
    ft = prog["functionTest"]
    md = {"name": b["name"]}
    if ft.get("namespace") and b["ns"] is not None:
        md["namespace"] = b["ns"]
    current = {"apiVersion": b["apiVersion"], "kind": b["kind"], "metadata": md, "spec": {"size": 1}}
    spec = {"functionRef": {"kind": "ResourceFunction", "name": "rf"}, "inputs": copy.deepcopy(b["inputs"]),
            "testCases": [{"label": "reconciles", "expectResource": copy.deepcopy(current)}]}
    if ft.get("currentResource", True):
        spec["currentResource"] = current
    return spec


def run_program(prog: dict) -> dict:
    b = build(prog)
    ft = prog.get("functionTest") or {}
    if ft.get("order") in ("test-first-reprepare", "test-first-another"):
        b["obs"] = test_first(b["spec"], b["objects"], b["inputs"], b["owner"], b["templates"], b["vfs"],
                              function_test_for(prog, b), "another" if ft["order"].endswith("another") else "reprepare")
        return b
    configure = None
    if prog.get("fault") is not None:
        # the server answers the mutating call (call 1; call 0 is the load) with this status
        def configure(c, code=prog["fault"]):
            c.faults[1] = code
    obs = reconcile(b["spec"], objects=b["objects"], inputs=b["inputs"], owner=b["owner"],
                    templates=b["templates"], value_functions=b["vfs"], configure=configure,
                    function_test=function_test_for(prog, b) if prog.get("functionTest") else None)
    b["obs"] = obs
    return b


def loaded_raw(stored: dict, namespaced: bool, ns) -> dict:
    """what koreo sees as `api_resource.raw` for a stored object"""
    raw = copy.deepcopy(stored)
    if namespaced and ns is not None and isinstance(raw.get("metadata"), dict):
        raw["metadata"]["namespace"] = ns
    return raw


def comparator_says(expected, stored, namespaced, ns):
    """the real comparator's verdict on (model's target, live object); None when it raises"""
    from koreo.resource_function.reconcile import _extract_last_applied
    from koreo.resource_function.reconcile.validate import validate_match

    raw = loaded_raw(stored, namespaced, ns)
    try:
        return bool(validate_match(target=copy.deepcopy(expected), actual=raw,
                                   last_applied_value=_extract_last_applied(raw)).match)
    except Exception:
        return None


def impl_request(obs: dict):
    """the one mutating request of the run as {method, plural, name, nsArg, body}; None / 'multiple'"""
    muts = [e for e in log_view(obs["cluster"]) if e["method"] != "GET"]
    if not muts:
        return None
    if len(muts) > 1:
        return "multiple"
    return muts[0]


# ------------------------------------------------------------------ directive-laden values (C08)

WORDS = ("a", "b", "items", "ports", "env", "labels", "rules", "cfg")
SCALARS = (0, 1, 7, -3, True, False, None, "x", "y z", "v1", "")


def dirty_value(r, depth=0, force_directive=False):
    """a JSON value with Koreo directive keys nested in maps at any depth and inside list items
    (directive values have the shape the comparator expects)"""
    roll = r.random()
    if depth >= 3 or (roll < 0.3 and not force_directive):
        return r.choice(SCALARS)
    if roll < 0.5 and not force_directive:
        if r.random() < 0.35:
            return nested_lists(r, depth)
        return [dirty_value(r, depth + 1) for _ in range(r.choice((0, 1, 2, 3)))]
    keys = r.sample(WORDS, r.choice((1, 2, 2, 3)))
    out = {}
    for k in keys:
        out[k] = dirty_value(r, depth + 1)
    lists = [k for k, v in out.items() if isinstance(v, list)]
    if force_directive or r.random() < 0.45:
        out[DIRECTIVES[0]] = lists[:2] if lists and r.random() < 0.8 else [r.choice(WORDS)]
    if r.random() < 0.25:
        out[DIRECTIVES[1]] = {(lists[0] if lists else r.choice(WORDS)): ["name"]}
    if r.random() < 0.2:
        out[DIRECTIVES[2]] = [r.choice(keys)]
    if r.random() < 0.3:   # keep insertion order varied: a directive first
        out = dict(sorted(out.items(), key=lambda kv: not kv[0].startswith("x-koreo")))
    return out


def nested_lists(r, depth=0):
    """lists directly inside lists (1-3 levels of nesting) whose innermost items are directive-bearing
    maps, mixed with scalars: a matrix / list-of-tuples shaped value"""
    levels = r.choice((1, 1, 2, 3))

    def level(n):
        if n == 0:
            return [dirty_value(r, 2, force_directive=True) if r.random() < 0.8 else r.choice(SCALARS)
                    for _ in range(r.choice((1, 2)))]
        return [level(n - 1) if r.random() < 0.85 else r.choice(SCALARS) for _ in range(r.choice((1, 2)))] or [level(n - 1)]

    out = level(levels)
    if not any(isinstance(x, list) for x in out):
        out.append(level(levels - 1))
    return out


def value_tree(r, v, via_rate=0.25):
    """how a value is written into a layer: maps as nodes (merged) or — through inputs — as one leaf"""
    if isinstance(v, dict) and v:
        if r.random() < via_rate:
            return leaf(v, via=True)
        return {"n": {k: value_tree(r, x, via_rate) for k, x in v.items()}}
    return leaf(v, via=(r.random() < via_rate and not isinstance(v, dict)))


def merge_patch(target, patch):
    return cl.merge_patch(target, patch)


def owner_uids(obj) -> list:
    refs = get_path(obj, "metadata", "ownerReferences")
    if not isinstance(refs, list):
        return []
    return [x.get("uid") if isinstance(x, dict) else None for x in refs]


# ------------------------------------------------------------------ several reconciles in flight at once (C06)

async def _reconcile_many(builds, latency):
    from koreo.resource_function.reconcile import reconcile_resource_function
    import asyncio

    ku.reset()
    fns = []
    objects = {}
    for i, b in enumerate(builds):
        for name, tspec in b["templates"].items():
            await ku.offer_resource_template(name, copy.deepcopy(tspec))
        for name, vspec in b["vfs"].items():
            await ku.offer_value_function(name, copy.deepcopy(vspec))
        fns.append(await ku.offer_resource_function(f"rf{i}", copy.deepcopy(b["spec"])))
        objects.update(copy.deepcopy(b["objects"]))
    c = cl.Cluster(objects=objects, latency=latency)
    c.log_lookups = True
    if not all(hasattr(f, "crud_config") for f in fns):
        return {"prepared": False, "cluster": c, "results": [], "prepare": [ku.outcome_obs(f) for f in fns if not hasattr(f, "crud_config")]}

    async def one(fn, b):
        try:
            res = await reconcile_resource_function(api=c, location="verif", function=fn,
                                                    owner=(b["owner"][0], copy.deepcopy(b["owner"][1])),
                                                    inputs=celpy.json_to_cel(b["inputs"]))
            return {"raised": None, "outcome": res.outcome, "resource_id": copy.deepcopy(res.resource_id)}
        except Exception as e:
            return {"raised": f"{type(e).__name__}: {e}", "outcome": None, "resource_id": None}

    results = await asyncio.gather(*[one(f, b) for f, b in zip(fns, builds)])
    return {"prepared": True, "cluster": c, "results": list(results)}


def run_concurrent(progs: list, latencies: list) -> dict:
    """the programs' functions prepared side by side and reconciled **concurrently** (asyncio.gather) against
    one cluster under the virtual-time loop; the i-th API call sleeps latencies[i % len] (> 0: it really suspends)"""
    import vloop

    builds = [build(p) for p in progs]

    def latency(i, method, key):
        return latencies[i % len(latencies)]

    out, _, _ = vloop.run_virtual(_reconcile_many(builds, latency))
    out["builds"] = builds
    return out


# ------------------------------------------------------------------ several functions prepared, some reconciled (C06)

async def _prepare_all_reconcile_some(builds, which):
    from koreo.resource_function.reconcile import reconcile_resource_function

    ku.reset()
    fns = []
    for i, b in enumerate(builds):
        for name, tspec in b["templates"].items():
            await ku.offer_resource_template(name, copy.deepcopy(tspec))
        for name, vspec in b["vfs"].items():
            await ku.offer_value_function(name, copy.deepcopy(vspec))
        fns.append(await ku.offer_resource_function(f"rf{i}", copy.deepcopy(b["spec"])))
    out = []
    for i in which:
        fn, b = fns[i], builds[i]
        c = cl.Cluster(objects=copy.deepcopy(b["objects"]))
        c.log_lookups = True
        if not hasattr(fn, "crud_config"):
            out.append({"prepared": False, "prepare": ku.outcome_obs(fn), "cluster": c, "raised": None, "outcome": None,
                        "resource_id": None})
            continue
        raised, res = None, None
        try:
            res = await reconcile_resource_function(api=c, location="verif", function=fn,
                                                    owner=(b["owner"][0], copy.deepcopy(b["owner"][1])),
                                                    inputs=celpy.json_to_cel(b["inputs"]))
        except Exception as e:
            raised = f"{type(e).__name__}: {e}"
        out.append({"prepared": True, "cluster": c, "raised": raised, "outcome": None if res is None else res.outcome,
                    "resource_id": None if res is None else copy.deepcopy(res.resource_id)})
    return out


def prepare_all_reconcile_some(progs: list, which: list) -> list:
    """every program's function is prepared (in the given order, one process, one cache); afterwards only the
    functions `which` are reconciled, each against a cluster of its own.  Returns [(build, obs)] for those."""
    builds = [build(p) for p in progs]
    obs = ku.run(_prepare_all_reconcile_some(builds, which))
    for i, o in zip(which, obs):
        builds[i]["obs"] = o
    return [builds[i] for i in which]


# ------------------------------------------------------------------ one prepared function, several reconciles (C06)

async def _reconcile_rounds(builds):
    from koreo.resource_function.reconcile import reconcile_resource_function

    ku.reset()
    b0 = builds[0]
    for name, tspec in b0["templates"].items():
        await ku.offer_resource_template(name, copy.deepcopy(tspec))
    for name, vspec in b0["vfs"].items():
        await ku.offer_value_function(name, copy.deepcopy(vspec))
    fn = await ku.offer_resource_function("rf", copy.deepcopy(b0["spec"]))
    out = []
    for b in builds:
        c = cl.Cluster(objects=copy.deepcopy(b["objects"]))
        c.log_lookups = True
        if not hasattr(fn, "crud_config"):
            out.append({"prepared": False, "prepare": ku.outcome_obs(fn), "cluster": c, "raised": None, "outcome": None,
                        "resource_id": None})
            continue
        raised, res = None, None
        try:
            res = await reconcile_resource_function(api=c, location="verif", function=fn,
                                                    owner=(b["owner"][0], copy.deepcopy(b["owner"][1])),
                                                    inputs=celpy.json_to_cel(b["inputs"]))
        except Exception as e:
            raised = f"{type(e).__name__}: {e}"
        out.append({"prepared": True, "cluster": c, "raised": raised, "outcome": None if res is None else res.outcome,
                    "resource_id": None if res is None else copy.deepcopy(res.resource_id)})
    return out


def reconcile_rounds(progs: list) -> list:
    """ONE prepared function (the programs must give the same spec and differ in inputs only) reconciled once per
    program, in order, each round with its own inputs against a cluster of its own; returns the builds with `obs`"""
    builds = [build(p) for p in progs]
    for b in builds[1:]:
        if dumps(b["spec"]) != dumps(builds[0]["spec"]):
            raise ValueError("reconcile_rounds: the rounds must share one spec")
    for b, o in zip(builds, ku.run(_reconcile_rounds(builds))):
        b["obs"] = o
    return builds
