"""C18 — FunctionTest cases chain sequentially; variant and skipped cases leave no trace.

proof:   lean/Koreo/Props/C18.lean over `runCase`/`runCases` of lean/Koreo/FunctionTest.lean
         (`variant_skip_preserve_state`, `case_depends_only_on_prefix`, `results_invariant_under_variant_edits` …
         for case lists of any length, every Function oracle)
tie:     generated FunctionTests over real echoing Value/ResourceFunctions, each together with 3–5 edited
         siblings (variant cases removed / inserted / moved, skipped cases removed), all through the real
         prepare_function_test / run_function_test;  per case (kind, pass, inputs and resource handed to the
         Function, outcome, mock effect) and the fatal flag: compiled Lean model == implementation
         (the Function itself is a table oracle built from what the runs showed)
oracle:  independent of the model, from TestCaseResult only — every case common to a test and its sibling has
         the same (pass, outcome) up to the first failing non-variant case, and both runs stop at the same one;
         the inputs / resource handed to a non-variant case are those its non-variant predecessor produced;
         deep snapshots of the prepared Function and of the FunctionTest's fixtures are unchanged by a run.
"""
from __future__ import annotations

import copy
import json
import re

import common
from common import Check, Infra, LeanDriver, ddmin, rng, to_wire
import gen_ft as g
import koreo_util as ku
import c19

CORPUS = common.VERIF / "corpus" / "C18"
IDX = re.compile(r"testCases\[(\d+)\]")


# --------------------------------------------------------------------------- running one FunctionTest

def is_core(c: dict) -> bool:
    return not c.get("skip") and not c.get("variant")


async def run_test(kind: str, fn_spec: dict, ft: dict, check_isolation=True, rerun=False):
    """-> {"results": [per-case obs], "fatal": bool, "log": {idx: entry}, "isolation": None | str}"""
    from koreo import result
    from koreo.function_test import run as ftrun

    fn, prepared = await g.prepare_ft_async(kind, fn_spec, ft)
    if not result.is_unwrapped_ok(prepared):
        raise Infra(f"generated FunctionTest did not prepare: {prepared}")
    before = None
    if check_isolation:
        before = (g.snap_text(fn), g.snap_text(prepared.inputs), g.snap_text(prepared.initial_resource),
                  g.snap_text(prepared.test_cases))
    log: dict[int, dict] = {}
    with g.observe() as raw:
        # tag each observation with the case index the runner put into `location`
        ov, orr = ftrun.reconcile_value_function, ftrun.reconcile_resource_function

        def tagged(f):
            async def w(*a, **k):
                n = len(raw)
                res = await f(*a, **k)
                m = IDX.findall(str(k.get("location", "")))
                if len(raw) > n:
                    raw[n]["idx"] = int(m[-1]) if m else None
                return res
            return w

        ftrun.reconcile_value_function, ftrun.reconcile_resource_function = tagged(ov), tagged(orr)
        try:
            res = await g.run_ft_async(prepared)
        finally:
            ftrun.reconcile_value_function, ftrun.reconcile_resource_function = ov, orr
    if any(e.get("idx") is None for e in raw):
        # the location no longer carries the index: fall back to execution order over non-skipped cases
        runnable = [i for i, c in enumerate(ft["testCases"]) if not c.get("skip")]
        for e, i in zip(raw, runnable):
            e["idx"] = i
    for e in raw:
        log[e["idx"]] = e
    results = []
    for i, tr in enumerate(res.test_results):
        o = tr.outcome
        results.append({"pass": bool(tr.test_pass), "outcome": None if o is None and i not in log else obs_out(o)})
    isolation = None
    if rerun:
        # the same PREPARED FunctionTest once more: a run must leave nothing behind (in the fixtures or anywhere
        # else in the process) that changes the next one
        res2 = await g.run_ft_async(prepared)
        again = [{"pass": bool(tr.test_pass),
                  "outcome": None if tr.outcome is None and i not in log else obs_out(tr.outcome)}
                 for i, tr in enumerate(res2.test_results)]
        if again != results or bool(res2.fatal_error) != bool(res.fatal_error):
            first_diff = next((i for i, (x, y) in enumerate(zip(results, again)) if x != y), min(len(results), len(again)))
            isolation = (f"a second run of the same prepared FunctionTest differs from the first at case {first_diff}: "
                         f"{results[first_diff:first_diff + 1]} then {again[first_diff:first_diff + 1]}")
    if check_isolation and isolation is None:
        after = (g.snap_text(fn), g.snap_text(prepared.inputs), g.snap_text(prepared.initial_resource),
                 g.snap_text(prepared.test_cases))
        names = ["the prepared Function under test", "FunctionTest.inputs", "FunctionTest.initial_resource",
                 "FunctionTest.test_cases"]
        for n, b, a in zip(names, before, after):
            if a != b:
                isolation = f"{n} changed during the run"
                break
    return {"results": results, "fatal": bool(res.fatal_error), "log": log, "isolation": isolation}


def obs_out(o) -> dict:
    """(class, delay, Ok value) of an outcome — never its message (it may quote the case's position)"""
    w = g.out_wire(o)
    w.pop("m", None)
    return w


def real_kind(case: dict, i: int, run: dict) -> str:
    if i in run["log"]:
        return "ran"
    if case.get("skip"):
        return "skipped"
    out = run["results"][i]["outcome"]
    return "overlayError" if (out and out.get("c") == "permFail") else "setupError"


# --------------------------------------------------------------------------- generating a family

# expressions in `overlayResource` see the inputs' own keys as variables (the runner passes `inputs`, not
# `{"inputs": inputs}`, to evaluate_overlay) — so `=name` reads inputs.name
OVERLAY_LEAVES = [1, 2, True, False, None, 0.5, "a", "Value", [1, 2], {}, "=name", "=missing", "=1/0"]


def gen_overlay(r, depth=2):
    out = {}
    for k in r.sample(["status", "spec", "meta", "extra"], r.choice([1, 1, 2])):
        if depth > 0 and r.random() < 0.6:
            out[k] = gen_overlay_inner(r, depth - 1)
        else:
            out[k] = r.choice(OVERLAY_LEAVES[:10])
    return out


def gen_overlay_inner(r, depth):
    out = {}
    for k in r.sample(["ready", "n", "fixed", "trip", "payload"], r.choice([1, 2])):
        if k == "trip":
            out[k] = {r.choice(list(g.TRIPS)): True} if r.random() < 0.5 else {}
        elif depth > 0 and r.random() < 0.3:
            out[k] = {"n": r.choice([1, 77]), "deep": r.choice(OVERLAY_LEAVES)}
        else:
            out[k] = r.choice(OVERLAY_LEAVES if r.random() < 0.15 else OVERLAY_LEAVES[:10])
    return out


def gen_overrides(r):
    o = {}
    for k in r.sample(["name", "payload", "extra", "trip", "k1", "nested", "groups"], r.choice([1, 1, 2])):
        if k == "nested":
            o[k] = g.gen_nested(r)
        elif k == "groups":
            o[k] = g.gen_groups(r)
        elif k == "name":
            o[k] = r.choice(["alpha", "beta", "gamma-1"])
        elif k == "trip":
            o[k] = {r.choice(list(g.TRIPS)): True} if r.random() < 0.6 else {}
        elif k == "payload" and r.random() < 0.5:
            o[k] = {"deep": g.small_value(r, 1), "b": r.choice([1, 2])}
        else:
            o[k] = g.small_value(r, 1)
    return o


def gen_case_shell(r, kind, allow_overlay=True):
    c = {}
    if r.random() < 0.5:
        c["inputOverrides"] = gen_overrides(r)
    x = r.random()
    if x < 0.15:
        c["currentResource"] = gen_current(r, kind)
    elif x < 0.4 and allow_overlay:
        c["overlayResource"] = gen_overlay(r)
        if r.random() < 0.1:
            c["currentResource"] = gen_current(r, kind)
    return c


def gen_current(r, kind):
    if kind == "ValueFunction":
        return {"seen": r.choice([1, "x"]), "spec": g.small_value(r, 1)}
    return {"apiVersion": "verif.koreo.dev/v1", "kind": "FtProbe",
            "metadata": {"name": r.choice(["alpha", "beta"]), "namespace": "ft-ns"},
            "spec": {"fixed": {"n": r.choice([1, 2, 77])}, "other": g.small_value(r, 1)},
            "status": r.choice([{}, {"ready": True}, {"trip": {"retry": True}}])}


async def last_behaviour(kind, fn_spec, base, cases):
    """what the Function does in the last of `cases` (placeholder assertion); None if that case is not reached
    or does not reach the Function"""
    probe_cases = copy.deepcopy(cases)
    run = await run_test(kind, fn_spec, dict(base, testCases=probe_cases), check_isolation=False)
    i = len(cases) - 1
    if i >= len(run["results"]) or i not in run["log"]:
        return None, run
    e = run["log"][i]
    return (e["out"], e["eff"]), run


async def gen_family(r):
    kind = "ValueFunction" if r.random() < 0.45 else "ResourceFunction"
    fn_spec = g.value_function_spec(r) if kind == "ValueFunction" else g.resource_function_spec(r)
    if kind == "ResourceFunction":
        # keep the CRUD path open in most families so that resources get materialised and threaded
        if r.random() < 0.8:
            fn_spec["apiConfig"].pop("readonly", None)
            fn_spec["apiConfig"].pop("deleteIfExists", None)
    base = {}
    if r.random() < 0.85:
        base["inputs"] = g.gen_inputs(r, r.choice([None] * 8 + list(g.TRIPS)))
    elif r.random() < 0.5:
        base["inputs"] = {}
    if r.random() < 0.3:
        base["currentResource"] = gen_current(r, kind)
    n = r.choice([1, 2, 3, 4, 5, 6, 8, 10, 12, 16, 20])
    cases: list[dict] = []
    want_setup_error = r.random() < 0.04
    for i in range(n):
        c = gen_case_shell(r, kind)
        c["label"] = f"c{i}"
        if r.random() < 0.1:
            c["skip"] = True
        if r.random() < 0.4:
            c["variant"] = True
        if "inputs" not in base and "inputOverrides" not in c and kind == "ResourceFunction" and not cases:
            c["inputOverrides"] = g.gen_inputs(r)
        probe = dict(c, expectOutcome={"ok": {}})
        beh, run = await last_behaviour(kind, fn_spec, base, cases + [probe])
        if beh is None:
            if c.get("skip"):
                c["expectOutcome"] = {"ok": {}}
                cases.append(c)
                continue
            kind_i = real_kind(probe, len(cases), run) if len(run["results"]) > len(cases) else "unreached"
            if kind_i == "setupError" and not want_setup_error:
                c.pop("overlayResource", None)
                probe = dict(c, expectOutcome={"ok": {}})
                beh, run = await last_behaviour(kind, fn_spec, base, cases + [probe])
            if beh is None:
                c["expectOutcome"] = {"ok": {}}
                cases.append(c)
                if kind_i in ("setupError", "unreached") or (kind_i == "overlayError" and is_core(c)):
                    break
                continue
        out, eff = beh
        # (the expectation forms that only the repaired comparator accepts are C19's business, not C18's)
        triples = [t for t in c19.build_assertions(r, kind, out, eff, index_free=True)
                   if not t[0].endswith("annotations-map")]
        if kind == "ResourceFunction" and eff["e"] != "wrote":
            # what an EARLIER case sent is not what this case did
            earlier = [e["eff"]["m"] for j, e in sorted(run["log"].items())
                       if j < len(cases) and e["eff"]["e"] == "wrote"]
            if earlier:
                triples.append(("resource:sent-by-earlier-case",
                                {"expectResource": c19.expectation_of_written(r.choice(earlier))}, False))
        truthful = r.random() < (0.9 if is_core(c) else 0.6)
        pool = [t for t in triples if t[2] == truthful] or triples
        if not truthful and pool and any(t[0] == "resource:sent-by-earlier-case" for t in pool) and r.random() < 0.5:
            pool = [t for t in pool if t[0] == "resource:sent-by-earlier-case"]
        label, frag, must = r.choice(pool)
        c.update(copy.deepcopy(frag))
        cases.append(c)
        if is_core(c) and not must:
            # the run stops here by design; add a few cases behind it that must not be executed
            for j in range(r.choice([0, 1, 2])):
                if len(cases) >= 20:
                    break
                t = gen_case_shell(r, kind, allow_overlay=False)
                t.update({"label": f"c{len(cases)}", "expectOutcome": {"ok": {}}})
                if r.random() < 0.5:
                    t["variant"] = True
                cases.append(t)
            break
    return {"kind": kind, "fn_spec": fn_spec, "base": base, "cases": cases[:20]}


def gen_siblings(r, fam):
    """3–5 edits that keep the non-variant, non-skipped cases and their order"""
    cases = fam["cases"]
    sibs = []
    aux = [i for i, c in enumerate(cases) if not is_core(c)]

    def fresh_variant(tag):
        c = gen_case_shell(r, fam["kind"], allow_overlay=False)
        c.update({"label": f"new-{tag}", "variant": True})
        c.update(r.choice([{"expectOutcome": {"ok": {}}}, {"expectOutcome": {"permFail": {"message": ""}}},
                           {"expectReturn": {"echo": 1}}]))
        return c

    sibs.append(("remove-all-aux", [c for c in cases if is_core(c)]))
    if aux:
        drop = set(r.sample(aux, r.randint(1, len(aux))))
        sibs.append(("remove-some-aux", [c for i, c in enumerate(cases) if i not in drop]))
    ins = list(cases)
    for t in range(r.choice([1, 2, 3])):
        if len(ins) >= 20:
            break
        ins.insert(r.randint(0, len(ins)), fresh_variant(t))
    sibs.append(("insert-variants", ins))
    variants = [i for i, c in enumerate(cases) if c.get("variant") and not c.get("skip") and "overlayResource" not in c]
    if variants and len(cases) > 1:
        mv = list(cases)
        i = r.choice(variants)
        c = mv.pop(i)
        mv.insert(r.randint(0, len(mv)), c)
        sibs.append(("move-variant", mv))
    skips = [i for i, c in enumerate(cases) if c.get("skip")]
    if skips:
        sibs.append(("remove-skips", [c for c in cases if not c.get("skip")]))
    dup = list(cases)
    if variants and len(dup) < 20:
        i = r.choice(variants)
        twin = dict(copy.deepcopy(cases[i]), label=f"twin-{i}")
        dup.insert(r.randint(0, len(dup)), twin)
        sibs.append(("duplicate-variant", dup))
    r.shuffle(sibs)
    keep = sibs[:r.choice([3, 4, 5])]
    return [(name, [c for c in cs][:20]) for name, cs in keep if cs]


# --------------------------------------------------------------------------- oracle (implementation only)

def core_prefix_len(cases, i):
    return sum(1 for c in cases[:i] if is_core(c))


def compare_runs(cases_a, run_a, cases_b, run_b):
    """property clauses between two related runs; returns a description or None"""
    # setup errors abort the run and are excluded by the property
    for cs, rn in ((cases_a, run_a), (cases_b, run_b)):
        for i in range(len(rn["results"])):
            if real_kind(cs[i], i, rn) == "setupError":
                return None
    res_a = {c["label"]: (i, run_a["results"][i]) for i, c in enumerate(cases_a) if i < len(run_a["results"])}
    res_b = {c["label"]: (i, run_b["results"][i]) for i, c in enumerate(cases_b) if i < len(run_b["results"])}
    core_a = [c["label"] for c in cases_a if is_core(c)]
    core_b = [c["label"] for c in cases_b if is_core(c)]
    if core_a != core_b:
        raise Infra("sibling does not keep the non-variant cases")
    ran_a = [l for l in core_a if l in res_a]
    ran_b = [l for l in core_b if l in res_b]
    if ran_a != ran_b:
        return f"the runs execute different non-variant cases: {ran_a} vs {ran_b}"
    if run_a["fatal"] != run_b["fatal"]:
        return f"fatal_error differs: {run_a['fatal']} vs {run_b['fatal']}"
    for l in ran_a:
        (i, ra), (j, rb) = res_a[l], res_b[l]
        if (ra["pass"], ra["outcome"]) != (rb["pass"], rb["outcome"]):
            return f"non-variant case {l} changed: pass {ra['pass']}→{rb['pass']}, outcome {ra['outcome']} → {rb['outcome']}"
    for l, (i, ra) in res_a.items():
        if l in core_a or l not in res_b:
            continue
        j, rb = res_b[l]
        if core_prefix_len(cases_a, i) != core_prefix_len(cases_b, j):
            continue   # moved across a non-variant case: it legitimately starts from another state
        if (ra["pass"], ra["outcome"]) != (rb["pass"], rb["outcome"]):
            return f"variant/skipped case {l} changed: pass {ra['pass']}→{rb['pass']}, outcome {ra['outcome']} → {rb['outcome']}"
    return None


def verdict_oracle(cases, run):
    """every case that reached the Function is judged as its assertion deserves for what THAT case did
    (C19's reference; here because a wrong verdict of a non-variant case also decides what runs next)"""
    for i, c in enumerate(cases[:len(run["results"])]):
        e = run["log"].get(i)
        if e is None:
            continue
        want = c19.verdict_ref(c, e["out"], e["eff"])
        if run["results"][i]["pass"] != want:
            return (f"case {c['label']} " + ("holds for what the case did but FAILED" if want
                                              else "does not hold for what the case did but PASSED"))
    return None


def chain_oracle(kind, base, cases, run):
    """within ONE run: what a non-variant case hands on is what the next case starts from, and variant /
    skipped cases hand on nothing (read off the observations of what the Function received)"""
    state_in = base.get("inputs") or {}             # what the last non-variant case handed on
    state_res = base.get("currentResource") or None
    n = len(run["results"])
    for i, c in enumerate(cases[:n]):
        # the runner stops at the first failing non-variant case (and reports it); nothing runs behind it
        failed_core = is_core(c) and not run["results"][i]["pass"]
        if failed_core and (i != n - 1 or not run["fatal"]):
            return (f"non-variant case {c['label']} failed but the run went on "
                    f"({n - 1 - i} more case(s) executed, fatal_error={run['fatal']})")
    if n < len(cases) and not run["fatal"]:
        return f"the run ended after {n} of {len(cases)} cases without reporting a fatal error"
    for i, c in enumerate(cases):
        if i >= len(run["results"]):
            break
        e = run["log"].get(i)
        if e is None:
            continue
        # the inputs this case should have received: previous state overlaid with its overrides
        exp_in = expected_inputs(state_in, c.get("inputOverrides"))
        if not g.json_eq(e["inputs"], exp_in):
            return (f"case {c['label']} received inputs {json.dumps(e['inputs'], default=str)[:200]} but its "
                    f"non-variant predecessors left {json.dumps(exp_in, default=str)[:200]}")
        if "overlayResource" not in c and not c.get("currentResource"):
            if not g.json_eq(e["resource"] or None, state_res or None):
                return (f"case {c['label']} started from resource {json.dumps(e['resource'], default=str)[:200]} but its "
                        f"non-variant predecessors left {json.dumps(state_res, default=str)[:200]}")
        if is_core(c):
            state_in = e["inputs"]
            eff = e["eff"]
            state_res = {} if eff["e"] == "deleted" else eff["m"] if eff["e"] == "wrote" else e["resource"]
    return None


def expected_inputs(state, overrides):
    if state and overrides:
        return deep_overlay(state, overrides)
    if state:
        return state
    if overrides:
        return overrides
    return {}


def deep_overlay(base, ov):
    out = copy.deepcopy(base)
    for k, v in ov.items():
        if k in out and isinstance(v, dict) and isinstance(out[k], dict):
            out[k] = deep_overlay(out[k], v)
        else:
            out[k] = copy.deepcopy(v)
    return out


# --------------------------------------------------------------------------- model

def case_wire(c: dict) -> dict:
    return {"skip": bool(c.get("skip")), "variant": bool(c.get("variant")),
            "overrides": g.opt_wire(c.get("inputOverrides") or None),
            "current": g.opt_wire(c.get("currentResource")),
            "overlay": g.opt_wire(c.get("overlayResource") or None),
            "as": g.assertion_wire(c)}


def model_request(fam_base, cases, rows):
    return {"op": "run", "inputs": g.opt_wire(fam_base.get("inputs") or None),
            "resource": g.opt_wire(fam_base.get("currentResource")),
            "cases": [case_wire(c) for c in cases], "fn": rows}


def rows_of(runs) -> list:
    rows, seen = [], set()
    for rn in runs:
        for e in rn["log"].values():
            row = {"inputs": to_wire(e["inputs"]), "resource": g.opt_wire(e["resource"]),
                   "out": g.out_wire(e["out"]), "eff": g.eff_wire(e["eff"])}
            key = json.dumps([row["inputs"], row["resource"]], sort_keys=True)
            if key not in seen:
                seen.add(key)
                rows.append(row)
    return rows


def impl_view(cases, run):
    out = []
    for i in range(len(run["results"])):
        k = real_kind(cases[i], i, run)
        rec = {"r": k}
        if k == "ran":
            e = run["log"][i]
            rec.update({"pass": run["results"][i]["pass"], "inputs": common.canon_unordered(e["inputs"]),
                        "resource": common.canon_unordered(e["resource"] or None),
                        "out": obs_out(e["out"]), "eff": e["eff"]["e"]})
        out.append(rec)
    return out


def model_view(ans):
    out = []
    for m in ans.get("results", []):
        rec = {"r": m["r"]}
        if m["r"] == "ran":
            res = m["resource"]
            rec.update({"pass": m["pass"], "inputs": common.canon_unordered(common.from_wire(m["inputs"])),
                        "resource": common.canon_unordered(None if res is None else (common.from_wire(res["some"]) or None)),
                        "out": {k: v for k, v in m["res"]["out"].items() if k != "m"},
                        "eff": m["res"]["eff"]["e"]})
            if rec["out"].get("c") == "ok":
                rec["out"] = {"c": "ok", "v": None}
        out.append(rec)
    return out


def norm_view(v):
    for rec in v:
        if rec.get("out", {}).get("c") == "ok":
            rec["out"] = {"c": "ok", "v": None}   # the value is compared through the table key already
    return v


# --------------------------------------------------------------------------- the check

def run_family(ck: Check, drv, fam, sibs, runs=None):
    """runs base + siblings; returns list of (name, cases, run) and records violations"""
    kind, fn_spec, base = fam["kind"], fam["fn_spec"], fam["base"]
    out = []
    for name, cases in [("base", fam["cases"])] + sibs:
        try:
            rn = ku.run(run_test(kind, fn_spec, dict(base, testCases=copy.deepcopy(cases)), rerun=(name == "base")))
        except (Infra, g.FunctionRaised):
            raise
        except Exception as e:
            ck.violate({"type": "family", "kind": kind, "fn_spec": fn_spec, "base": base, "cases": cases},
                       f"run_function_test raised {e!r}")
            continue
        out.append((name, cases, rn))
    return out


def family_violations(kind, fn_spec, base, cases_a, cases_b):
    """re-run a pair and evaluate the oracle (used for shrinking and replay)"""
    ra = ku.run(run_test(kind, fn_spec, dict(base, testCases=copy.deepcopy(cases_a)), rerun=True))
    rb = ku.run(run_test(kind, fn_spec, dict(base, testCases=copy.deepcopy(cases_b))))
    return (compare_runs(cases_a, ra, cases_b, rb) or chain_oracle(kind, base, cases_a, ra)
            or chain_oracle(kind, base, cases_b, rb) or verdict_oracle(cases_a, ra) or verdict_oracle(cases_b, rb)
            or ra["isolation"] or rb["isolation"])


def shrink_family(fam, cases_a, cases_b):
    """drop cases (from both lists at once, by label) while the pair still violates"""
    labels = [c["label"] for c in cases_a] + [c["label"] for c in cases_b if c["label"] not in {x["label"] for x in cases_a}]

    def fails(keep):
        ks = set(keep)
        a = [c for c in cases_a if c["label"] in ks]
        b = [c for c in cases_b if c["label"] in ks]
        if not a or not b:
            return False
        if [c["label"] for c in a if is_core(c)] != [c["label"] for c in b if is_core(c)]:
            return False
        return family_violations(fam["kind"], fam["fn_spec"], fam["base"], a, b) is not None

    try:
        keep = ddmin(labels, fails)   # (ddmin treats a raising candidate as "does not fail")
    except Exception:
        keep = labels
    ks = set(keep)
    return [c for c in cases_a if c["label"] in ks], [c for c in cases_b if c["label"] in ks]


def explore(ck: Check, drv: LeanDriver, r, n: int):
    done = 0
    while done < n:
        step = min(100, n - done)
        _explore_chunk(ck, drv, r, step)
        done += step
        if len(ck.violations) > 500 or len(ck.disagreements) > 2000:
            break


def _explore_chunk(ck: Check, drv: LeanDriver, r, n: int):
    requests, expect = [], []
    for _ in range(n):
        try:
            fam = ku.run(gen_family(r))
        except g.FunctionRaised as e:
            ck.count("skipped:function-under-test-raised")
            continue
        if not fam["cases"]:
            continue
        sibs = gen_siblings(r, fam)
        try:
            runs = run_family(ck, drv, fam, sibs)
        except g.FunctionRaised:
            ck.count("skipped:function-under-test-raised")
            continue
        if not runs:
            continue
        ck.count(f"family:{fam['kind']}")
        ck.count(f"len:{len(fam['cases'])}")
        changed = g.constants_changed()
        if changed:
            ck.violate({"type": "family", "kind": fam["kind"], "fn_spec": fam["fn_spec"], "base": fam["base"],
                        "cases": fam["cases"], "sibling": None, "constants": True}, changed)
        base_name, base_cases, base_run = runs[0]
        kinds_seen = set()
        for name, cases, rn in runs:
            ck.evaluated()
            ck.count(f"run:{name}")
            for i in range(len(rn["results"])):
                k = real_kind(cases[i], i, rn)
                kinds_seen.add(k)
                ck.count(f"case:{k}")
                c = cases[i]
                if k == "ran":
                    tag = "variant" if c.get("variant") else "core"
                    ck.count(f"case:{tag}:{'pass' if rn['results'][i]['pass'] else 'fail'}")
                    ck.count(f"effect:{rn['log'][i]['eff']['e']}")
                for f in ("inputOverrides", "currentResource", "overlayResource"):
                    if f in c:
                        ck.count(f"uses:{f}")
                for a in ("expectOutcome", "expectReturn", "expectResource", "expectDelete"):
                    if a in c:
                        ck.count(f"asserts:{a}")
            if rn["fatal"]:
                ck.count("run:stopped-early")
            if rn["isolation"]:
                ck.violate({"type": "family", "kind": fam["kind"], "fn_spec": fam["fn_spec"], "base": fam["base"],
                            "cases": cases, "sibling": None}, rn["isolation"])
            bad = chain_oracle(fam["kind"], fam["base"], cases, rn) or verdict_oracle(cases, rn)
            if bad:
                ck.violate({"type": "family", "kind": fam["kind"], "fn_spec": fam["fn_spec"], "base": fam["base"],
                            "cases": cases, "sibling": None}, bad)
        for name, cases, rn in runs[1:]:
            bad = compare_runs(base_cases, base_run, cases, rn)
            if bad:
                a, b = shrink_family(fam, base_cases, cases)
                ck.violate({"type": "family", "kind": fam["kind"], "fn_spec": fam["fn_spec"], "base": fam["base"],
                            "cases": a, "sibling": b, "edit": name},
                           family_violations(fam["kind"], fam["fn_spec"], fam["base"], a, b) or bad)
        if any(not is_core(c) for c in base_cases) and len(base_cases) >= 2:
            ck.nontriv(json.dumps([fam["kind"], to_wire(fam["base"]), [to_wire(c) for c in base_cases]], default=str))
        ck.sample({"kind": fam["kind"], "base": fam["base"], "cases": base_cases,
                   "siblings": [name for name, _ in sibs]}, limit=3)
        rows = rows_of([rn for _, _, rn in runs])
        for name, cases, rn in runs:
            requests.append(model_request(fam["base"], cases, rows))
            expect.append((fam, name, cases, rn))
    if requests:
        for (fam, name, cases, rn), ans in zip(expect, drv.ask(requests)):
            if "error" in ans:
                ck.disagree({"family": fam, "run": name}, ans, None, "driver-error")
                continue
            mine = norm_view(impl_view(cases, rn))
            model = model_view(ans)
            if mine != model or ans["fatal"] != rn["fatal"]:
                first = next((i for i, (x, y) in enumerate(zip(mine, model)) if x != y), min(len(mine), len(model)))
                ck.disagree({"type": "family", "kind": fam["kind"], "fn_spec": fam["fn_spec"], "base": fam["base"],
                             "cases": cases, "edit": name, "first_difference_at": first},
                            {"results": model[first:first + 1], "n": len(model), "fatal": ans["fatal"]},
                            {"results": mine[first:first + 1], "n": len(mine), "fatal": rn["fatal"]},
                            "runCases-vs-run_function_test")



# --------------------------------------------------------------------------- the per-case mock API (Koreo/MockApi.lean)

def gen_mock_value(r, depth=2):
    k = r.randrange(8)
    if depth <= 0 or k < 3:
        return r.choice([0, 1, -3, True, False, None, "", "x", "y", 1.5, [], [1, "a"], {}])
    if k < 6:
        return {r.choice("abcd"): gen_mock_value(r, depth - 1) for _ in range(r.randrange(0, 4))}
    return [gen_mock_value(r, depth - 1) for _ in range(r.randrange(0, 3))]


def gen_mock_obj(r, allow_empty=True):
    keys = ["apiVersion", "kind", "metadata", "spec", "status", "a", "b"]
    n = r.randrange(0 if allow_empty else 1, 5)
    o = {k: gen_mock_value(r) for k in r.sample(keys, n)}
    # what a Kubernetes object always has: string apiVersion / kind, a metadata map
    for k in ("apiVersion", "kind"):
        if k in o:
            o[k] = r.choice(["v1", "Thing", "g.example/v1"])
    if "metadata" in o:
        o["metadata"] = {k: gen_mock_value(r, 1) for k in r.sample(["name", "namespace", "labels", "uid"], r.randrange(0, 4))}
    return o


def gen_mock_conversation(r):
    cur = r.choice([None, {}, "obj", "obj", "obj", "obj"])
    if cur == "obj":
        cur = gen_mock_obj(r, allow_empty=False)
    calls = []
    n = r.choice([0, 1, 1, 2, 2, 3, 4, 6])
    for _ in range(n):
        k = r.randrange(10)
        if k < 4:
            calls.append({"c": "get"})
        elif k < 6:
            calls.append({"c": "delete"})
        else:
            body = gen_mock_obj(r)
            if cur and r.random() < 0.5:
                # bodies that overlap the current resource, with map values on both sides
                for key in r.sample(list(cur), min(len(cur), r.randrange(1, 3))):
                    if key in ("apiVersion", "kind"):
                        body[key] = cur[key]
                    elif key == "metadata" or r.random() < 0.5:
                        body[key] = {"n": gen_mock_value(r, 1)}
                    else:
                        body[key] = gen_mock_value(r)
            calls.append({"c": "write", "body": body})
    return cur, calls


async def real_mock_conversation(cur, calls):
    """the same conversation with the real `MockApi`, read back the way `_run_test_case` does"""
    from koreo.function_test import run as ftrun

    class Held:
        def __init__(self, api=None, resource=None, namespace=None, **_):
            self.raw = resource

    api = ftrun.MockApi(current_resource=copy.deepcopy(cur))
    answers = []
    for c in calls:
        if c["c"] == "get":
            got = [o async for o in api.async_get(Held, "name", namespace="ns")]
            answers.append(copy.deepcopy(got[0].raw) if got else None)
        elif c["c"] == "delete":
            async with api.call_api("DELETE", version="v1", url="things/name", namespace="ns") as resp:
                answers.append(resp.json())
        else:
            verb = "PATCH" if cur else "POST"
            async with api.call_api(verb, version="v1", url="things", namespace="ns",
                                    data=json.dumps(c["body"])) as resp:
                answers.append(copy.deepcopy(resp.json()))
    handed = api.materialized if api._api_called else cur
    return {"answers": answers, "materialized": copy.deepcopy(api.materialized), "apiCalled": bool(api._api_called),
            "deleteCalled": bool(api._delete_called), "handed": copy.deepcopy(handed)}


def opt_wire(v):
    return None if v is None else {"some": to_wire(v)}


def canon(v):
    return json.dumps(v, sort_keys=False, default=str)


def mock_model_view(ans):
    def un(o):
        return None if o is None else common.from_wire(o["some"])
    return {"answers": [un(a) for a in ans["answers"]], "materialized": un(ans["materialized"]),
            "apiCalled": ans["apiCalled"], "deleteCalled": ans["deleteCalled"], "handed": un(ans["handed"])}


def mock_oracle(cur, calls, impl):
    """what C18 needs of the mock, stated without the model: reads leave no trace, every GET answers the
    case's own resource, a write names the keys it replaces and keeps the others, a DELETE hands on `{}`"""
    muts = [c for c in calls if c["c"] != "get"]
    if impl["apiCalled"] != bool(muts):
        return f"_api_called is {impl['apiCalled']} after {len(muts)} mutating requests"
    if impl["deleteCalled"] != any(c["c"] == "delete" for c in calls):
        return "_delete_called does not say whether a DELETE was made"
    for c, a in zip(calls, impl["answers"]):
        if c["c"] == "get" and a != (cur if cur else None):
            return f"a GET answered {a!r}, the case's resource is {cur!r}"
    if not muts:
        if impl["handed"] != cur:
            return "a conversation without a mutating request changed what is handed to the next case"
        return None
    last = muts[-1]
    if last["c"] == "delete":
        if impl["handed"] != {}:
            return f"after a DELETE the next case is handed {impl['handed']!r}, not {{}}"
        return None
    want = dict(cur or {})
    want.update(last["body"])
    if impl["handed"] != want:
        return f"after a write the next case is handed {impl['handed']!r}; body over the case's resource is {want!r}"
    return None


def explore_mock(ck: Check, drv: LeanDriver, r, n: int):
    convs = [gen_mock_conversation(r) for _ in range(n)]
    reqs = [{"op": "mock", "cur": opt_wire(cur), "calls": [
        {"c": c["c"], **({"body": to_wire(c["body"])} if c["c"] == "write" else {})} for c in calls]}
        for cur, calls in convs]
    answers = drv.ask(reqs)

    async def all_real():
        out = []
        for cur, calls in convs:
            try:
                out.append(await real_mock_conversation(cur, calls))
            except Infra:
                raise
            except Exception as e:
                out.append(e)
        return out

    impls = ku.run(all_real())
    for (cur, calls), ans, impl in zip(convs, answers, impls):
        ck.evaluated()
        ck.count("mock:conversation")
        ck.count(f"mock:calls:{len(calls)}")
        for c in calls:
            ck.count(f"mock:{c['c']}")
        case = {"type": "mock", "cur": cur, "calls": calls}
        if isinstance(impl, Exception):
            ck.disagree(case, None, repr(impl), "mock-conversation-raised")
            continue
        if sum(1 for c in calls if c["c"] != "get") >= 1 and cur:
            ck.nontriv(canon([cur, calls]))
        bad = mock_oracle(cur, calls, impl)
        if bad:
            ck.violate(case, bad)
        if "error" in ans:
            ck.disagree(case, ans, impl, "driver-error")
            continue
        mine = mock_model_view(ans)
        if canon(mine) != canon(impl):
            ck.disagree(case, mine, impl, "Mock.run-vs-MockApi")


def check_case(case: dict):
    if case.get("type") == "mock":
        try:
            return mock_oracle(case["cur"], case["calls"], ku.run(real_mock_conversation(case["cur"], case["calls"])))
        except Infra:
            raise
        except Exception as e:
            return f"the mock API raised {e!r}"
    if case.get("type") != "family":
        return None
    a = case["cases"]
    b = case.get("sibling") or a
    try:
        if case.get("constants"):
            g.constants_changed()
            family_violations(case["kind"], case["fn_spec"], case["base"], a, b)
            return g.constants_changed()
        return family_violations(case["kind"], case["fn_spec"], case["base"], a, b)
    except Infra:
        raise
    except g.FunctionRaised:
        return None
    except Exception as e:
        return f"run_function_test raised {e!r}"


def replay_corpus(ck: Check):
    if not CORPUS.is_dir():
        return
    for f in sorted(CORPUS.glob("*.json")):
        data = json.loads(f.read_text())
        for case in data.get("cases", []):
            ck.evaluated()
            ck.count("corpus")
            bad = check_case(case)
            if bad:
                ck.violate(case, f"corpus {f.name}: {bad}")


def run(tier: str) -> int:
    ck = Check("C18", tier)
    ck.trusted = [
        "Lean 4.33.0 kernel; axioms of every theorem ⊆ {propext, Classical.choice, Quot.sound}",
        "model lean/Koreo/FunctionTest.lean (`runCase`, `runCases`, `caseInputs`, `deepOverlay`) hand-transcribed from "
        "src/koreo/function_test/run.py and cel/functions.py `_deep_overlay`",
        "harness/c18.py + harness/gen_ft.py: sibling FunctionTests through the real prepare/run; observation of what "
        "each case hands to reconcile_value_function / reconcile_resource_function (wrappers installed by the harness)",
        "model lean/Koreo/MockApi.lean (`Mock.step`, `mergeTop`, `handedOn`) hand-transcribed from `MockApi` / "
        "`_merge_overlay`; tied by conversations (GET / write / DELETE sequences) run against the real MockApi",
        "the Function under test (its reconcile over that mock) is an oracle in the model (a table of what the runs showed); the "
        "driver's `applyOv` mirrors `_overlay_applier` for literal overlays with `=inputs.<key>` leaves",
    ]
    ck.assumptions = [
        "a run that hits the setup error (overlayResource before a resource exists) is excluded, as the property says",
        "fixture / Function isolation is not expressible in the functional model; it is checked by deep snapshots only, "
        "excluding the kr8s plural/endpoint memo (DESIGN section 7)",
    ]
    ck.prove(extractors=["FtConsts"])
    drv = LeanDriver("C18")
    replay_corpus(ck)
    n = 170 if tier == "quick" else 3000
    explore(ck, drv, rng("c18"), n)
    explore_mock(ck, drv, rng("c18-mock"), 600 if tier == "quick" else 20000)
    if tier == "thorough":
        ck.leanchecker()

    def widen(ck2: Check):
        explore(ck2, drv, rng("c18-wide"), 600)
        explore_mock(ck2, drv, rng("c18-mock-wide"), 5000)

    return ck.finish(
        widen=widen,
        rule="families = one generated FunctionTest (1–20 cases mixing inputOverrides, currentResource, overlayResource, "
             "all four assertion kinds truthful or deviating, variant/skip flags anywhere) over a real echoing "
             "Value/ResourceFunction + 3–5 siblings (all/some variant+skipped cases removed, variants inserted, a "
             "variant moved or duplicated, skipped cases removed); non-trivial = a family with ≥2 cases of which at "
             "least one is variant or skipped; distinct by content",
    )


def replay(path: str) -> int:
    data = json.load(open(path))
    rc = 0
    for v in data.get("violations", []):
        bad = check_case(v["case"])
        print("replay:", json.dumps(v["case"], default=str)[:500], "::", bad)
        rc = rc or (1 if bad else 0)
    return rc
