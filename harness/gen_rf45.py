"""Generators and the specification oracle shared by the C04 and C05 checks.

  * `gen_target`    targets with nested compare directives (well-formed, or deliberately malformed)
  * `decorate`      what a server / other actors may add without touching a target-specified field
  * `spec_paths` / `drift`   one deviation at one target-specified path
  * `meets`         the spec relation Meets / MeetsExcl written from the property text
                    (differential-tested against Lean's `meetsB` through the driver)
  * `wf`, `no_nulls`  the stated domain (DirectivesWF / NoNulls)
"""
from __future__ import annotations

import copy

AS_SET = "x-koreo-compare-as-set"
AS_MAP = "x-koreo-compare-as-map"
LAST_APPLIED = "x-koreo-compare-last-applied"
DIRECTIVES = (AS_SET, AS_MAP, LAST_APPLIED)
OWNER_REFS = "ownerReferences"
LA_ANNOTATION = "koreo.dev/last-applied-configuration"

KEYS = ["a", "b", "c", "d", "e", "spec", "items", "x y", "é", "k1", "k2", "data",
        # field names the API server uses in `metadata` are ordinary field names anywhere else
        # (spec.claimRef.uid, involvedObject.resourceVersion, a CRD field called `generation`, ...)
        "uid", "generation", "resourceVersion", "creationTimestamp", "selfLink", "managedFields"]
STRS = ["", "a", "b", " a ", "1", "0", "True", "None", "x$y", "é", "it's", "long-ish value"]
INTS = [0, 1, -1, 2, 7, 80, 443, 2 ** 40, 2147483648, 1700000000123]
FLTS = [0.0, 1.0, 1.5, -2.25, 0.125, 80.0, 2.0 ** 33 + 0.5]
FIELD_SETS = [["name"], ["name", "port"], ["id"], ["name", ""]]
NAMES = ["a", "b", "c", "web", "db", " a", "1", "x$y", "z"]


# --------------------------------------------------------------------------- values

def gen_scalar(r, nulls=False):
    k = r.random()
    if nulls and k < 0.08:
        return None
    if k < 0.25:
        return r.choice([True, False])
    if k < 0.55:
        return r.choice(INTS)
    if k < 0.68:
        return r.choice(FLTS)
    return r.choice(STRS)


def gen_plain(r, depth, nulls=False):
    """directive-free JSON"""
    k = r.random()
    if depth <= 0 or k < 0.6:
        return gen_scalar(r, nulls)
    if k < 0.8:
        return [gen_plain(r, depth - 1, nulls) for _ in range(r.randint(0, 3))]
    return {key: gen_plain(r, depth - 1, nulls) for key in r.sample(KEYS, r.randint(0, 3))}


def is_scalar(v):
    return not isinstance(v, (dict, list, tuple))


def member_key(m, fields):
    """the key of a keyed-list member, as documented: the `$`-joined, stripped field values"""
    return "$".join(f"{m.get(f)}".strip() for f in fields)


def gen_members(r, depth, nulls, fields):
    n = r.randint(0, 3)
    out, seen = [], set()
    for _ in range(n * 3):
        if len(out) >= n:
            break
        m = {}
        for f in fields:
            if not f:
                continue
            c = r.random()
            if c < 0.75:
                m[f] = r.choice(NAMES)
            elif c < 0.9:
                m[f] = r.choice([1, 2, 80, True, 1.5])
            # else: field absent -> "None"
        key = member_key(m, [f for f in fields if f])
        if key in seen or key in DIRECTIVES or key == OWNER_REFS:
            continue
        seen.add(key)
        body = gen_dict(r, depth - 1, nulls, max_keys=2)
        for k, v in body.items():
            if k not in m and k not in fields:
                m[k] = v
        # directive values of the body refer to the body's keys; keep them
        out.append(m)
    return out


def gen_dict(r, depth, nulls=False, max_keys=4):
    d: dict = {}
    as_set, as_map, la = [], {}, []
    for key in r.sample(KEYS, r.randint(0, max_keys)):
        c = r.random()
        if depth <= 0 or c < 0.4:
            d[key] = gen_scalar(r, nulls)
        elif c < 0.58:
            d[key] = gen_dict(r, depth - 1, nulls)
        elif c < 0.72:
            n = r.randint(0, 3)
            d[key] = [gen_dict(r, depth - 1, nulls, 2) if r.random() < 0.3 else
                      ([gen_scalar(r, nulls) for _ in range(r.randint(0, 2))] if r.random() < 0.15 else gen_scalar(r, nulls))
                      for _ in range(n)]
        elif c < 0.86:
            pool = r.choice([INTS, STRS, INTS + STRS + [True, False] + FLTS])
            d[key] = [r.choice(pool) for _ in range(r.randint(0, 4))]
            as_set.append(key)
        else:
            fields = r.choice(FIELD_SETS)
            d[key] = gen_members(r, depth, nulls, fields)
            as_map[key] = list(fields)
        if r.random() < 0.08:
            la.append(key)
    if as_set or r.random() < 0.03:
        if r.random() < 0.1:
            as_set.append(r.choice(KEYS))      # names a key that may not exist / is not a list
        d[AS_SET] = as_set
    if as_map:
        d[AS_MAP] = as_map
    if la:
        d[LAST_APPLIED] = la
    if r.random() < 0.3:                      # directive position is irrelevant: shuffle key order
        items = list(d.items())
        r.shuffle(items)
        d = dict(items)
    return d


def _denull(v):
    """below a last-applied-directed key: no explicit null, and no keyed declaration on a value that is not
    a list of maps (both compare equal to the `None` that the aliased `last_applied_value[key] = None` plants)"""
    if isinstance(v, dict):
        out = {k: _denull(x) for k, x in v.items()}
        m = out.get(AS_MAP)
        if isinstance(m, dict):
            keep = {k: f for k, f in m.items()
                    if not (k in out and not (isinstance(out[k], list) and all(isinstance(y, dict) for y in out[k])))}
            if keep:
                out[AS_MAP] = keep
            else:
                del out[AS_MAP]
        return out
    if isinstance(v, list):
        return [_denull(x) for x in v]
    return "n" if v is None else v


def denull_under_la(v):
    """below a last-applied-directed key the code compares the last-applied value with itself (aliased), and its
    `last_applied_value[key] = None` makes a key the last-applied tree lacks read as null on the "actual" side
    too.  That matches a target `null` and a (malformed) keyed declaration on a non-list — outside both
    properties (C04: no explicit nulls, well-formed directives; C05: those keys are excluded), not modelled:
    the generators keep both out of last-applied-directed subtrees"""
    if isinstance(v, list):
        return [denull_under_la(x) for x in v]
    if not isinstance(v, dict):
        return v
    la = v.get(LAST_APPLIED)
    names = set()
    if isinstance(la, (list, str, dict)):
        names = {x for x in la if isinstance(x, str)}
    out = {}
    for k, x in v.items():
        if k in names and isinstance(x, (dict, list)):
            out[k] = _denull(x)
        else:
            out[k] = denull_under_la(x)
    return out


def gen_target(r, nulls=False, depth=3):
    t = gen_dict(r, depth, nulls)
    if r.random() < 0.5:
        md = t.setdefault("metadata", {})
        if isinstance(md, dict) and r.random() < 0.5:
            md.setdefault("labels", {"app": r.choice(NAMES)})
    return denull_under_la(t)


def malform(r, t):
    """break one directive / directed value somewhere (correspondence stream only)"""
    t = copy.deepcopy(t)
    dicts = []

    def walk(v):
        if isinstance(v, dict):
            dicts.append(v)
            for x in v.values():
                walk(x)
        elif isinstance(v, list):
            for x in v:
                walk(x)

    walk(t)
    d = r.choice(dicts)
    keys = [k for k in d if k not in DIRECTIVES]
    k = r.choice(keys) if keys else "a"
    c = r.randrange(14)
    if c == 0:
        d[AS_SET] = r.choice(["ab", 5, {"a": 1}, None, [["a"]], [1, k], True, 1.5, "", [{}, [], 0, k]])
    elif c == 1:
        d[LAST_APPLIED] = r.choice(["a", 0, {k: 1}, None, [[k]], [k, 7], k])
    elif c == 2:
        d[AS_MAP] = r.choice([[k], "s", 7, None, {k: "name"}, {k: 5}, {k: [["x"]]}, {"": 5}, {k: None},
                              {k: [{"a": 1}]}, {k: {"name": 1}}, {k: []}, {k: [0, "", "name"]}, {k: [3]}])
    elif c == 3:
        d[k] = r.choice(["abc", 7, [None], [[1]], {"name": "a"}, None, [{"name": "a"}, 3], "", 0, False, {}])
        d[AS_MAP] = {**(d.get(AS_MAP) if isinstance(d.get(AS_MAP), dict) else {}), k: ["name"]}
    elif c == 4:
        d[k] = [{"name": "a", "v": 1}, {"name": "a", "v": 2}]          # duplicate keys in the target
        d[AS_MAP] = {**(d.get(AS_MAP) if isinstance(d.get(AS_MAP), dict) else {}), k: ["name"]}
    elif c == 5:
        d[k] = [{"name": OWNER_REFS, "v": 1}, {"name": "b"}]            # a member that is never compared
        d[AS_MAP] = {**(d.get(AS_MAP) if isinstance(d.get(AS_MAP), dict) else {}), k: ["name"]}
    elif c == 6:
        d[k] = r.choice([[{"a": 1}], [[1], 2], [1, {"a": 1}, 2], [[], 1]])   # containers in a set list
        d[AS_SET] = list(d.get(AS_SET) if isinstance(d.get(AS_SET), list) else []) + [k]
    elif c == 7:
        d[k] = r.choice([{"x": 1}, 3, "s", None])                       # set-directed non-list
        d[AS_SET] = list(d.get(AS_SET) if isinstance(d.get(AS_SET), list) else []) + [k]
    elif c == 8:
        d[OWNER_REFS] = r.choice([[{"uid": "u"}], "x", {"one": "v"}])
    elif c == 9:
        d[k] = None
    elif c == 10:
        d[AS_MAP] = {k: [["x"], "name"]}
        d[k] = r.choice([[], [{"name": "a"}]])
    elif c == 11:
        d[k] = [{"name": "a"}]
        d[AS_MAP] = {k: ["name"]}
        d[AS_SET] = [k]                                                  # both directives on one key
    elif c == 12:
        d[k] = [{"name": "a", "n": {"x": 1}}, {"name": [1, "q"], "n": 2}, {"name": {"z": "w"}}]
        d[AS_MAP] = {k: ["name"]}                                        # container-valued key fields
    else:
        d[k] = [{"name": "a"}]
        d[AS_MAP] = {k: [1, True, "name"]}                               # non-string field names
    return denull_under_la(t)


# --------------------------------------------------------------------------- strip / domain

def strip(v):
    if isinstance(v, dict):
        return {k: strip(x) for k, x in v.items() if k not in DIRECTIVES}
    if isinstance(v, (list, tuple)):
        return [strip(x) for x in v]
    return v


def no_nulls(v) -> bool:
    if v is None:
        return False
    if isinstance(v, dict):
        return all(no_nulls(x) for x in v.values())
    if isinstance(v, list):
        return all(no_nulls(x) for x in v)
    return True


def _strs(v):
    return [x for x in v if isinstance(x, str) and x] if isinstance(v, list) else []


def spec_dirs(d: dict):
    """how the property reads a well-formed map's directives: (set keys, last-applied keys, key -> fields)"""
    m = d.get(AS_MAP)
    as_map = {k: _strs(f) for k, f in m.items() if k} if isinstance(m, dict) else {}
    return _strs(d.get(AS_SET)), _strs(d.get(LAST_APPLIED)), as_map


def wf(v) -> bool:
    """DirectivesWF"""
    if isinstance(v, list):
        return all(wf(x) for x in v)
    if not isinstance(v, dict):
        return True
    for key in (AS_SET, LAST_APPLIED):
        if key in v and not (isinstance(v[key], list) and all(isinstance(x, str) for x in v[key])):
            return False
    if AS_MAP in v:
        m = v[AS_MAP]
        if not (isinstance(m, dict) and all(isinstance(f, list) and all(isinstance(x, str) for x in f)
                                             for f in m.values())):
            return False
    sets, _, maps = spec_dirs(v)
    for k, x in v.items():
        if k not in DIRECTIVES:
            if k in maps:
                if not (isinstance(x, list) and all(isinstance(m, dict) for m in x)):
                    return False
                keys = [member_key(m, maps[k]) for m in x]
                if len(set(keys)) != len(keys) or any(q in DIRECTIVES or q == OWNER_REFS for q in keys):
                    return False
                if any(f in DIRECTIVES for f in maps[k]) or not all(is_scalar(m.get(f)) for m in x for f in maps[k]):
                    return False
            elif k in sets and isinstance(x, list) and not all(is_scalar(y) for y in x):
                return False
        if not wf(x):
            return False
    return True


# --------------------------------------------------------------------------- the spec relation

def scalar_eq(t, l) -> bool:
    """typed JSON equality of scalars: numbers by value (1 == 1.0), bool is not a number"""
    if t is None or l is None:
        return t is None and l is None
    if isinstance(t, bool) or isinstance(l, bool):
        return isinstance(t, bool) and isinstance(l, bool) and t == l
    if isinstance(t, str) or isinstance(l, str):
        return isinstance(t, str) and isinstance(l, str) and t == l
    if isinstance(t, (int, float)) and isinstance(l, (int, float)):
        return t == l
    return False


def _falsy_or(v, typ):
    return isinstance(v, typ) or not v


def meets(mode: str, t, live, la=None) -> bool:
    """mode 'full': Meets (C04's sufficient condition); mode 'excl': MeetsExcl (C05's necessary one)"""
    full = mode == "full"
    if isinstance(t, dict):
        if not isinstance(live, dict):
            return False
        if full and not _falsy_or(la, dict):
            return False
        lad = la if isinstance(la, dict) else {}
        sets, lakeys, maps = spec_dirs(t)
        for k, tv in t.items():
            if k in DIRECTIVES:
                continue
            if not full and (k == OWNER_REFS or k in lakeys):
                continue
            lav = lad.get(k)
            if k in lakeys:
                cv = lav
            elif k in live:
                cv = live[k]
            else:
                return False
            if k in maps:
                if not (isinstance(tv, list) and isinstance(cv, list)):
                    return False
                if full and not all(isinstance(m, dict) for m in cv):
                    return False
                fields = maps[k]
                lams = lav if isinstance(lav, list) and all(isinstance(m, dict) for m in lav) else []
                for tm in tv:
                    if not isinstance(tm, dict):
                        return False
                    key = member_key(tm, fields)
                    same = [m for m in cv if isinstance(m, dict) and member_key(m, fields) == key]
                    lam = None
                    for m in lams:
                        if member_key(m, fields) == key:
                            lam = m
                    if not same:
                        return False
                    if not (all if full else any)(meets(mode, tm, m, lam) for m in same):
                        return False
            elif k in sets and isinstance(tv, list):
                if not isinstance(cv, list):
                    return False
                if not (all(is_scalar(x) for x in tv) and all(is_scalar(x) for x in cv)):
                    return False
                if not all(any(scalar_eq(x, y) for y in cv) for x in tv):
                    return False
                if not all(any(scalar_eq(x, y) for x in tv) for y in cv):
                    return False
            elif not meets(mode, tv, cv, lav):
                return False
        return True
    if isinstance(t, list):
        if not isinstance(live, list) or len(t) != len(live):
            return False
        if full and not _falsy_or(la, list):
            return False
        items = la if isinstance(la, list) else []
        return all(meets(mode, x, y, items[i] if i < len(items) else None) for i, (x, y) in enumerate(zip(t, live)))
    return (not isinstance(live, (dict, list))) and scalar_eq(t, live)


# --------------------------------------------------------------------------- decoration

BOOKKEEPING = {"resourceVersion": "12", "uid": "u-1", "generation": 3, "creationTimestamp": "2026-01-01T00:00:00Z",
               "managedFields": [{"manager": "x", "operation": "Update"}], "finalizers": ["f"],
               # an object held by a finalizer while it is being deleted is still there to be compared
               "deletionTimestamp": "2026-01-02T00:00:00Z", "deletionGracePeriodSeconds": 0}


def fresh_key(r, taken):
    for _ in range(20):
        k = r.choice(["zz", "extra", "status", "srv", "q1", "q2", "added"]) + r.choice(["", "1", "2"])
        if k not in taken:
            return k
    return "zz-" + str(r.randrange(10 ** 6))


def decorate(r, t, live, rate=0.5):
    """server-side / third-party additions to `live` that leave every field specified by `t` alone:
    extra keys at any depth, reordered and duplicated set members, reordered keyed lists with extra members,
    anything at all under last-applied-directed keys"""
    if isinstance(t, dict) and isinstance(live, dict):
        sets, lakeys, maps = spec_dirs(t)
        out = {}
        for k, lv in live.items():
            if k not in t or k in DIRECTIVES:
                out[k] = lv
                continue
            tv = t[k]
            if k in lakeys:
                c = r.random()
                if c < 0.3:
                    out[k] = gen_plain(r, 2, True)
                elif c < 0.4:
                    pass          # removed
                else:
                    out[k] = lv
            elif k in maps and isinstance(tv, list) and isinstance(lv, list):
                fields = maps[k]
                taken = {member_key(m, fields) for m in tv if isinstance(m, dict)}
                ms = []
                for lm in lv:
                    tm = next((m for m in tv if isinstance(m, dict) and isinstance(lm, dict)
                               and member_key(m, fields) == member_key(lm, fields)), None)
                    ms.append(decorate(r, tm, lm, rate) if tm is not None else lm)
                if r.random() < rate * 0.6:
                    for _ in range(r.randint(1, 2)):
                        em = {f: r.choice(["extra1", "extra2", "new", 9]) for f in fields if f}
                        em["added"] = gen_plain(r, 1, True)
                        if member_key(em, fields) not in taken:
                            taken.add(member_key(em, fields))
                            ms.append(em)
                if r.random() < rate:
                    r.shuffle(ms)
                out[k] = ms
            elif k in sets and isinstance(tv, list) and isinstance(lv, list):
                xs = list(lv)
                if xs and r.random() < rate * 0.4:
                    xs.append(r.choice(xs))
                if xs and r.random() < rate * 0.3:     # 1 and 1.0 are the same JSON number
                    i = r.randrange(len(xs))
                    if isinstance(xs[i], int) and not isinstance(xs[i], bool) and abs(xs[i]) < 2 ** 20:
                        xs[i] = float(xs[i])
                if r.random() < rate:
                    r.shuffle(xs)
                out[k] = xs
            else:
                out[k] = decorate(r, tv, lv, rate)
        if r.random() < rate * 0.5:
            for _ in range(r.randint(1, 2)):
                out[fresh_key(r, set(out) | set(t))] = gen_plain(r, 2, True)
        if r.random() < 0.15:
            items = list(out.items())
            r.shuffle(items)
            out = dict(items)
        return out
    if isinstance(t, list) and isinstance(live, list) and len(t) == len(live):
        return [decorate(r, x, y, rate) for x, y in zip(t, live)]
    if isinstance(live, int) and not isinstance(live, bool) and r.random() < 0.05 and abs(live) < 2 ** 20:
        return float(live)
    return live


def decorate_object(r, t, live):
    """a whole API object: `decorate` + status + metadata bookkeeping"""
    out = decorate(r, t, live)
    if isinstance(out, dict):
        if r.random() < 0.5 and "status" not in t:
            out["status"] = {"conditions": [{"type": "Ready", "status": "True"}], "observedGeneration": 3}
        md = out.get("metadata")
        if isinstance(md, dict) and r.random() < 0.6:
            tmd = t.get("metadata") if isinstance(t.get("metadata"), dict) else {}
            for k, v in BOOKKEEPING.items():
                if k not in tmd and k not in md and r.random() < 0.5:     # never over what the server stamped
                    md[k] = copy.deepcopy(v)
    return out


# --------------------------------------------------------------------------- drift

def spec_paths(t, prefix=()):
    """every target-specified path (containers and leaves) the comparison is answerable for:
    directive keys, last-applied-directed keys and `ownerReferences` are excluded"""
    out = []
    if isinstance(t, dict):
        sets, lakeys, maps = spec_dirs(t)
        for k, tv in t.items():
            if k in DIRECTIVES or k == OWNER_REFS or k in lakeys:
                continue
            p = prefix + (("k", k),)
            if k in maps and isinstance(tv, list):
                out.append((p, "keyed"))
                for tm in tv:
                    if isinstance(tm, dict):
                        q = p + (("m", member_key(tm, maps[k]), tuple(maps[k])),)
                        out.append((q, "member"))
                        out.extend(spec_paths(tm, q))
            elif k in sets and isinstance(tv, list):
                out.append((p, "set"))
            elif isinstance(tv, (dict, list)):
                out.append((p, "container"))
                out.extend(spec_paths(tv, p))
            else:
                out.append((p, "leaf"))
    elif isinstance(t, list):
        for i, tv in enumerate(t):
            p = prefix + (("i", i),)
            if isinstance(tv, (dict, list)):
                out.append((p, "container"))
                out.extend(spec_paths(tv, p))
            else:
                out.append((p, "leaf"))
    return out


def _step(v, e):
    if e[0] == "k":
        return v[e[1]]
    if e[0] == "i":
        return v[e[1]]
    for m in v:
        if isinstance(m, dict) and member_key(m, list(e[2])) == e[1]:
            return m
    raise KeyError(e)


def get_path(v, path):
    for e in path:
        v = _step(v, e)
    return v


def _set_at(root, path, fn):
    """replace the value at `path` by fn(old) (fn may return the DELETE marker)"""
    parent = get_path(root, path[:-1])
    e = path[-1]
    if e[0] in ("k", "i"):
        new = fn(parent[e[1]])
        if new is DELETE:
            del parent[e[1]]
        else:
            parent[e[1]] = new
    else:
        idx = next(i for i, m in enumerate(parent) if isinstance(m, dict) and member_key(m, list(e[2])) == e[1])
        new = fn(parent[idx])
        if new is DELETE:
            del parent[idx]
        else:
            parent[idx] = new


DELETE = object()


def other_scalar(r, v):
    # a large number that is off by the smallest step: relative deviation far below 1e-9
    if isinstance(v, (int, float)) and not isinstance(v, bool) and abs(v) >= 2 ** 30 and r.random() < 0.6:
        step = 1 if isinstance(v, int) else 0.125
        return v + r.choice([step, -step])
    for _ in range(30):
        w = gen_scalar(r)
        if not scalar_eq(v, w) and type(w) is type(v):
            return w
    return "changed-" + str(v)


def retype(r, v):
    if isinstance(v, bool):
        return r.choice([int(v), str(v), "true" if v else "false", None, float(v)])
    if isinstance(v, int):
        return r.choice([str(v), bool(v) if v in (0, 1) else [v], None, {"v": v}, [v]])
    if isinstance(v, float):
        return r.choice([str(v), bool(v) if v in (0.0, 1.0) else None, None, [v]])
    if isinstance(v, str):
        if v.lstrip("-").isdigit():
            return r.choice([int(v), None, [v]])
        return r.choice([None, [v], {"v": v}, 0 if v == "" else 1, False if v == "" else True])
    if v is None:
        return r.choice([0, "", False, [], {}, "None"])
    if isinstance(v, list):
        return r.choice([None, {}, "", 0, False, {"0": v[0]} if v else {"a": 1}, "x", 7])
    return r.choice([None, [], "", 0, False, [v], "x", 7, list(v.items())[:1] and [list(v)[0]] or [1]])


DRIFT_KINDS = {
    "leaf": ["change", "retype", "delete", "null"],
    "container": ["retype", "delete", "null", "shorten", "extend", "reorder", "empty"],
    "set": ["add", "remove", "retype", "delete", "null", "boolswap", "change-member", "container-member"],
    "keyed": ["remove-member", "retype", "delete", "null", "junk", "empty"],
    "member": ["remove-member", "rekey"],
}


def drift(r, t, live, path=None, kind=None, exclude=None):
    """apply one deviation at one target-specified path of `live` (a decorated copy).
    Returns (live', path, kind, deviation) or None when nothing applicable was found."""
    paths = spec_paths(t)
    if exclude is not None:
        paths = [pk for pk in paths if not exclude(pk[0])]
    if not paths:
        return None
    live = copy.deepcopy(live)
    for _ in range(8):
        p, pk = (path, kind) if path is not None else r.choice(paths)
        try:
            cur = get_path(live, p)
        except (KeyError, IndexError, TypeError, StopIteration):
            continue
        dev = r.choice(DRIFT_KINDS[pk])
        in_list = p[-1][0] == "i"
        try:
            if dev == "change":
                _set_at(live, p, lambda v: other_scalar(r, v))
            elif dev == "retype":
                _set_at(live, p, lambda v: retype(r, v))
            elif dev == "null":
                _set_at(live, p, lambda v: None)
            elif dev == "delete":
                if in_list:
                    dev = "shorten-parent"
                _set_at(live, p, lambda v: DELETE)
            elif dev == "shorten":
                if not isinstance(cur, list) or not cur:
                    continue
                _set_at(live, p, lambda v: v[:-1] if r.random() < 0.5 else v[1:])
            elif dev == "extend":
                if not isinstance(cur, list):
                    continue
                _set_at(live, p, lambda v: v + [copy.deepcopy(v[-1]) if v and r.random() < 0.5 else gen_scalar(r)])
            elif dev == "reorder":
                if not isinstance(cur, list) or len(cur) < 2:
                    continue
                _set_at(live, p, lambda v: v[1:] + v[:1])
            elif dev == "empty":
                _set_at(live, p, lambda v: [] if isinstance(v, list) else {})
            elif dev == "add":
                _set_at(live, p, lambda v: v + [r.choice(["added", 99, -5, 2.5, True, False, None, 0, 1, ""])])
            elif dev == "remove":
                if not cur:
                    continue
                x = r.choice(cur)
                _set_at(live, p, lambda v: [y for y in v if not scalar_eq(x, y)] if is_scalar(x) else v[:-1])
            elif dev == "boolswap":
                swaps = {True: 1, False: 0}
                idx = [i for i, y in enumerate(cur) if (isinstance(y, bool)) or (is_scalar(y) and y in (0, 1) and not isinstance(y, str) and y is not None)]
                if not idx:
                    continue
                i = r.choice(idx)

                def sw(v, i=i):
                    v = list(v)
                    y = v[i]
                    v[i] = swaps[y] if isinstance(y, bool) else bool(y)
                    return v
                _set_at(live, p, sw)
            elif dev == "change-member":
                if not cur:
                    continue
                i = r.randrange(len(cur))
                _set_at(live, p, lambda v: v[:i] + [other_scalar(r, v[i]) if is_scalar(v[i]) else 0] + v[i + 1:])
            elif dev == "container-member":
                _set_at(live, p, lambda v: v + [r.choice([[1], {"a": 1}, [], {}])])
            elif dev == "remove-member":
                if pk == "keyed":
                    if not cur:
                        continue
                    _set_at(live, p, lambda v: v[1:] if r.random() < 0.5 else v[:-1])
                else:
                    _set_at(live, p, lambda v: DELETE)
            elif dev == "rekey":
                fields = [f for f in p[-1][2] if f]
                if not fields:
                    continue

                def rk(m):
                    m = dict(m)
                    m[fields[0]] = "renamed"
                    return m
                _set_at(live, p, rk)
            elif dev == "junk":
                _set_at(live, p, lambda v: r.choice(["x", 7, [None], [[1]], [None] + v, v + ["s"], {"name": "a"}, True, 1.5, [3]]))
            else:
                continue
        except (KeyError, IndexError, TypeError, StopIteration):
            continue
        return live, p, pk, dev
    return None


def path_text(p) -> str:
    out = []
    for e in p:
        out.append(f".{e[1]}" if e[0] == "k" else f"[{e[1]}]" if e[0] == "i" else f"[key={e[1]}]")
    return "".join(out)


# --------------------------------------------------------------------------- last-applied trees

def gen_la(r, t):
    c = r.random()
    if c < 0.55:
        return strip(t)
    if c < 0.7:
        return None
    if c < 0.9:
        base = strip(t)
        d = drift(r, {k: v for k, v in t.items() if k != LAST_APPLIED} if isinstance(t, dict) else t, base)
        return d[0] if d else base
    return r.choice([[1], "abc", 7, True, {"a": [1]}, [], "", 0, {"spec": "x"}, ["a", "spec"], "spec a", {}])
