"""Workflow generator (C01 / C02 / C09): workflows-as-data + an outcome assignment for every Logic.

A *case* is plain JSON-like data:

    {"trig": {...},                       trigger object (`parent`)
     "main": "main",
     "defs": [WF, ...],                   main first, then every sub-workflow (each used at exactly one site)
     "fns":  {id: FN, ...}}               one Function per reference site (id == site == resource-name prefix)

    WF    {"name": s, "steps": [STEP, ...]}
    STEP  {"label", "deps": [labels], "inputs": E|None, "skipIf": E|None,
           "forEach": {"itemIn": E, "inputKey": s}|None,
           "logic": {"ref": T} | {"switch": {"on": E, "cases": [[case, T], ...], "default": T|None}},
           "state": E|None, "cond": [type, name]|None}
    T     {"fn": id} | {"wf": name}
    E     {"lit": json} | {"path": [root, key, ...]} | {"map": [[key, E], ...]} | {"list": [E, ...]} | {"call": f, "args": [E, ...]} | {"bad": True}
    FN    {"c": ok|skip|depSkip|retry|permFail, "d": delay, "how": "pre"|"eval"|None, "by": key|None,
           optional: "name" (Koreo resource name if not the id), "noret" (no `return`: Ok value null),
           "showres" (Ok value also carries resource.spec.tag, which is the id); rf optional: "kind", "apiVersion", "noplural"
           "rf": None | {"prefix", "nameKey": None|key, "mode", "calls": [...], "pre": bool}}

`to_req(case)` is the request for lean/Driver/WorkflowWire.lean; `koreo_specs(case)` are the real
ValueFunction / ResourceFunction / Workflow specs (offered in that order) and the objects the cluster
must hold beforehand.  Nothing here imports koreo.

Reference sites, hence Functions, hence resource names, are unique: every API request in a cluster log
is attributable to one top-level step by its name prefix (`site_owner`).  Mutating ResourceFunctions
(create / patch) only occur where the site is evaluated at most once per distinct resource name in a pass
(never inside a sub-workflow that runs under a forEach, and forEach items over them are distinct), so that
the outcome of a pass does not depend on the order of API calls *by construction of the workflow*.
"""
from __future__ import annotations

import copy

from common import to_wire

CLASSES = ["ok", "skip", "depSkip", "retry", "permFail"]
ITEMS = ["i0", "i1", "i2", "i3", "i4", "i5"]            # forEach items over ResourceFunctions (names)
SCALARS = [None, True, False, 0, 1, -3, 7, 2**40, "k", "a", "zz", "c0", "c1"]
NS = "ns"
API_VERSION = "verif.dev/v1"
KIND = "Thing"
PLURAL = "things"
LOAD_RETRY = 30       # koreo.constants.DEFAULT_LOAD_RETRY_DELAY (checked against the source in wf_run)
RF_MODES = {          # mode -> (class, calls, needs object: None absent / "match" / "differ" / "any")
    "get-ok": ("ok", ["GET"], "any"),
    "get-retry": ("retry", ["GET"], None),
    "match-ok": ("ok", ["GET"], "match"),
    "create": ("retry", ["GET", "POST"], None),
    "patch": ("retry", ["GET", "PATCH"], "differ"),
    "recreate": ("retry", ["GET", "DELETE"], "differ"),     # update policy `recreate` (only C09 assigns it)
    "delete": ("retry", ["GET", "DELETE"], "any"),          # apiConfig.deleteIfExists (only C09 assigns it)
}
READONLY_MODES = ("get-ok", "get-retry")
MUTATING = ("create", "patch", "recreate", "delete")


# --------------------------------------------------------------------------- expressions

def lit(v):
    return {"lit": v}


def path(*ks):
    return {"path": list(ks)}


def expr_steps(e, out=None):
    """labels X of every `steps.X…` mentioned (what prepare's `needed_steps` must find)"""
    out = set() if out is None else out
    if e is None:
        return out
    if "path" in e:
        p = e["path"]
        if p[0] == "steps" and len(p) > 1:
            out.add(p[1])
    elif "map" in e:
        for _, x in e["map"]:
            expr_steps(x, out)
    elif "list" in e:
        for x in e["list"]:
            expr_steps(x, out)
    elif "call" in e:
        for x in e["args"]:
            expr_steps(x, out)
    return out


def step_deps(step) -> list[str]:
    out = set()
    for e in (step.get("inputs"), step.get("skipIf"), step.get("state")):
        expr_steps(e, out)
    if step.get("forEach"):
        expr_steps(step["forEach"]["itemIn"], out)
    if "switch" in step["logic"]:
        expr_steps(step["logic"]["switch"]["on"], out)
    return sorted(out)


def gen_json(r, depth=2):
    k = r.random()
    if depth <= 0 or k < 0.6:
        return r.choice(SCALARS)
    if k < 0.8:
        return [gen_json(r, depth - 1) for _ in range(r.randint(0, 3))]
    return {r.choice(["a", "b", "c", "d"]) + str(i): gen_json(r, depth - 1) for i in range(r.randint(0, 3))}


class _Ctx:
    """what the expressions of one workflow may refer to"""

    def __init__(self, r, parent_keys, err=1.0):
        self.r = r
        self.err = err                      # multiplier on every injected evaluation/type error (0 = clean)
        self.parent_keys = parent_keys      # key -> kind ("bool", "str", "list", "rflist", "any")
        self.steps = []                     # (label, {key: kind} of what `steps.label.got` has, or None if opaque)

    def sources(self, kind):
        """paths expected to hold a value of `kind` when everything upstream is Ok"""
        out = [path("parent", k) for k, kd in self.parent_keys.items() if kd == kind or kind == "any"]
        for label, keys in self.steps:
            if keys is None:
                if kind == "any":
                    out.append(path("steps", label))
                continue
            for k, kd in keys.items():
                if kd == kind or kind == "any":
                    out.append(path("steps", label, "got", k))
            if kind == "any":
                out.append(path("steps", label))
                out.append(path("steps", label, "got"))
        return out

    def any_step_path(self):
        label, keys = self.r.choice(self.steps)
        if keys is None or self.r.random() < 0.3:
            return path("steps", label)
        if keys and self.r.random() < 0.8:
            return path("steps", label, "got", self.r.choice(sorted(keys)))
        return path("steps", label, "got")


def gen_value_expr(r, ctx: _Ctx, kind="any", p_bad=0.012, p_missing=0.012, p_step=0.5):
    """an expression meant to yield a `kind` value (mostly), from a literal, the parent or an earlier step"""
    x = r.random()
    p_bad, p_missing = p_bad * ctx.err, p_missing * ctx.err
    if x < p_bad:
        return {"bad": True}
    if x < p_bad + p_missing:
        root = r.choice(["parent"] + (["steps"] if ctx.steps else []))
        if root == "steps":
            return path("steps", r.choice(ctx.steps)[0], "nope")
        return path("parent", "nope")
    srcs = ctx.sources(kind)
    step_srcs = [s for s in srcs if s["path"][0] == "steps"]
    if step_srcs and r.random() < p_step:
        return r.choice(step_srcs)
    if srcs and r.random() < 0.4:
        return r.choice(srcs)
    if kind == "bool":
        return lit(r.choice([True, False, False]))
    if kind == "str":
        return lit(r.choice(["c0", "c1", "c2", "zz"]))
    if kind == "list":
        return lit([gen_json(r, 1) for _ in range(r.randint(0, 4))])
    if kind == "rflist":
        return lit(r.sample(ITEMS, r.randint(0, 4)))
    return lit(gen_json(r))


# --------------------------------------------------------------------------- functions

def gen_fn(r, site, p_ok, rf_prob, name_key=None, readonly_only=False, allow_eval_error=True):
    """outcome class for one reference site, realised as a ValueFunction or a ResourceFunction"""
    is_rf = r.random() < rf_prob
    c = "ok" if r.random() < p_ok else r.choice(["skip", "depSkip", "retry", "retry", "permFail", "evalError"])
    if is_rf:
        if c == "ok":
            mode = r.choice(["get-ok"] if readonly_only else ["get-ok", "match-ok"])
        elif c == "retry":
            mode = r.choice(["get-retry"] if readonly_only else ["get-retry", "create", "patch", "create", "patch"])
        else:
            mode = None
        if mode is None:  # class forced by a precondition, before any API call
            cc = "permFail" if c == "evalError" else c
            return {"c": cc, "d": r.choice([0, 5, 17, 60]), "how": "pre", "by": None,
                    "rf": {"prefix": site, "nameKey": name_key, "mode": "pre", "calls": [], "pre": True}}
        cls, calls, _ = RF_MODES[mode]
        d = LOAD_RETRY if mode == "get-retry" else r.choice([3, 11, 45])
        return {"c": cls, "d": d, "how": None, "by": None,
                "rf": {"prefix": site, "nameKey": name_key, "mode": mode, "calls": list(calls), "pre": False}}
    if c == "evalError":
        if not allow_eval_error:
            c = "permFail"
        else:
            return {"c": "permFail", "d": 0, "how": "eval", "by": None, "rf": None}
    return {"c": c, "d": r.choice([0, 5, 17, 60]) if c == "retry" else 0, "how": "pre" if c != "ok" else None,
            "by": None, "rf": None}


# --------------------------------------------------------------------------- workflows

def _gen_inputs(r, ctx: _Ctx, extra=None):
    """a map expression; returns (expr|None, {key: kind}) — kinds only for keys that are planted typed values"""
    n = r.choice([0, 1, 1, 2, 2, 3, 4])
    kinds = {}
    kvs = []
    used = set()
    for _ in range(n):
        k = r.choice(["x", "y", "z", "flag", "sel", "lst", "names", "w"])
        if k in used:
            continue
        used.add(k)
        kind = {"flag": "bool", "sel": "str", "lst": "list", "names": "rflist"}.get(k, "any")
        if kind == "any" and r.random() < 0.12:
            e = {"map": [["p", gen_value_expr(r, ctx)], ["q", lit(gen_json(r, 1))]]}
        else:
            e = gen_value_expr(r, ctx, kind)
        kvs.append([k, e])
        kinds[k] = kind
    for k, e in (extra or []):
        if k not in used:
            kvs.append([k, e])
            kinds[k] = "any"
    if not kvs and r.random() < 0.6:
        return None, {}
    return {"map": kvs}, kinds


def gen_workflow(r, name, parent_keys, fns, defs, *, n=None, p_ok=0.8, rf_prob=0.3, depth=0, shared=False,
                 mode="mixed", p_sub=0.12, p_switch=0.2, p_foreach=0.22, p_skipif=0.25, err=1.0):
    """appends the workflow (and the sub-workflows it needs) to `defs`, its Functions to `fns`"""
    wf = {"name": name, "steps": []}
    defs.append(wf)
    n = n or r.choice([1, 2, 3, 3, 4, 5, 6, 8])
    ctx = _Ctx(r, parent_keys, err)
    state_pool = ["k0", "k1", "k2"]
    prefix = "st" if depth == 0 else "in"
    for i in range(n):
        label = f"{prefix}{i}"
        site = f"{name}.{label}"
        step = {"label": label, "deps": [], "inputs": None, "skipIf": None, "forEach": None,
                "logic": None, "state": None, "cond": None}
        p_step = 0.75 if ctx.steps else 0.0
        inputs, kinds = _gen_inputs(r, ctx)
        if inputs is not None and ctx.steps and r.random() < 0.5 and not any(
                expr_steps(e) for _, e in inputs["map"]):
            inputs["map"].append(["u", ctx.any_step_path()])
            kinds["u"] = "any"
        step["inputs"] = inputs
        if r.random() < p_skipif:
            x = r.random()
            step["skipIf"] = (gen_value_expr(r, ctx, "bool", p_step=p_step) if x >= 0.07 * err
                              else lit(r.choice([0, 1, "true", None, [True]])))
        # what the Logic is
        is_foreach = r.random() < p_foreach
        item_key = None
        rf_iter = False
        if is_foreach:
            item_key = r.choice(["item", "item", "x"])
            rf_iter = r.random() < 0.6
            src_kind = "rflist" if rf_iter else "list"
            x = r.random()
            if x < 0.04 * err:
                item_in = lit(r.choice([5, "str", None, {"a": 1}]))     # not a list
            else:
                item_in = gen_value_expr(r, ctx, src_kind, p_step=p_step)
            step["forEach"] = {"itemIn": item_in, "inputKey": item_key}
        name_key = item_key if rf_iter else None
        ro = shared or (is_foreach and not rf_iter)   # under an iteration without distinct names: GET only
        sub_shared = shared or is_foreach

        def target(site_id, allow_sub=True):
            if allow_sub and depth < 2 and r.random() < p_sub:
                sub_name = f"sub-{site_id}"
                pk = {k: kd for k, kd in kinds.items()}
                if item_key:
                    pk[item_key] = "any"
                gen_workflow(r, sub_name, pk, fns, defs, n=r.choice([1, 2, 2, 3, 4]), p_ok=max(p_ok, 0.7),
                             rf_prob=rf_prob, depth=depth + 1, shared=sub_shared, mode=mode, err=err)
                return {"wf": sub_name}
            fns[site_id] = gen_fn(r, site_id, p_ok, rf_prob if (not is_foreach or rf_iter) else rf_prob * 0.5,
                                  name_key=name_key, readonly_only=ro)
            return {"fn": site_id}

        if r.random() < p_switch:
            ncase = r.randint(1, 3)
            cases = [[f"c{j}", target(f"{site}.c{j}")] for j in range(ncase)]
            dflt = None
            if r.random() < (0.5 if err else 1.0):
                dflt = r.choice(cases)[1]
            x = r.random()
            if x < 0.05 * err:
                on = lit(r.choice([True, None, [1], {"a": 1}]))         # bad type
            elif x < 0.05 * err + 0.07:
                on = lit(r.choice([0, 1, 7]))                           # int: never a key
            elif x < 0.4 and "sel" in kinds:
                on = path("inputs", "sel")
            elif x < 0.7:
                on = lit(r.choice(cases)[0])
            else:
                on = gen_value_expr(r, ctx, "str", p_step=p_step)
            step["logic"] = {"switch": {"on": on, "cases": cases, "default": dflt}}
            got_keys = None
        else:
            t = target(site)
            step["logic"] = {"ref": t}
            got_keys = dict(kinds) if "fn" in t and not is_foreach else None
        # condition and state
        if mode == "obs":
            step["cond"] = ["C" + label, f"step {label}"]
            step["state"] = {"map": [[label, path("value")]]}
        else:
            if r.random() < 0.8:
                step["cond"] = ["C" + label, f"step {label}"]
            x = r.random()
            if x < 0.55:
                kvs = []
                for k in r.sample(state_pool + [label], r.randint(1, 2)):
                    y = r.random()
                    if y < 0.6:
                        kvs.append([k, path("value")])
                    elif y < 0.75 and got_keys is not None:
                        kvs.append([k, path("value", "site")])
                    elif y < 0.9:
                        kvs.append([k, lit(r.choice([label, 1, True, [label]]))])
                    elif y < 0.95:
                        kvs.append([k, {"bad": True}])
                    else:
                        kvs.append([k, path("value", "nope")])
                step["state"] = {"map": kvs}
        step["deps"] = step_deps(step)
        wf["steps"].append(step)
        ctx.steps.append((label, got_keys))
    return wf


def gen_trigger(r):
    return {"flag": r.choice([True, False]), "sel": r.choice(["c0", "c1", "c2", "zz"]),
            "lst": [gen_json(r, 1) for _ in range(r.randint(0, 3))], "names": r.sample(ITEMS, r.randint(0, 3)),
            "v": gen_json(r, 1), "n": r.randint(-2, 9)}


TRIG_KINDS = {"flag": "bool", "sel": "str", "lst": "list", "names": "rflist", "v": "any", "n": "any"}


def gen_case(r, *, n=None, mode="mixed", rf_prob=None, p_ok=None, subs=True, **kw):
    """one random case; `mode="obs"` gives every step a condition and publishes its value as state[label]"""
    fns, defs = {}, []
    if "err" not in kw:
        kw["err"] = r.choice([0.0, 0.0, 0.5, 1.0, 1.0])      # 0.0: no injected evaluation / type errors
    if p_ok is None:
        p_ok = 1.0 if kw["err"] == 0.0 and r.random() < 0.7 else r.choice([0.7, 0.85, 0.95, 1.0])
    rf_prob = r.choice([0.0, 0.25, 0.5, 0.8]) if rf_prob is None else rf_prob
    n = n or r.choice([1, 2, 3, 3, 4, 5, 6, 8, 10, 13, 16, 20])
    if not subs:
        kw["p_sub"] = 0.0
    gen_workflow(r, "main", dict(TRIG_KINDS), fns, defs, n=n, p_ok=p_ok, rf_prob=rf_prob, mode=mode, **kw)
    return {"trig": gen_trigger(r), "main": "main", "defs": defs, "fns": fns}


# --------------------------------------------------------------------------- targeted generators (own RNG use;
# `gen_case`'s stream is untouched)

def _step(label, logic, inputs=None, skip_if=None, for_each=None, state="obs", cond=True):
    st = {"label": label, "deps": [], "inputs": inputs, "skipIf": skip_if, "forEach": for_each, "logic": logic,
          "state": {"map": [[label, path("value")]]} if state == "obs" else state,
          "cond": ["C" + label, f"step {label}"] if cond else None}
    st["deps"] = step_deps(st)
    return st


def _vf(c="ok", d=0):
    return {"c": c, "d": d, "how": None if c == "ok" else "pre", "by": None, "rf": None}


def _rf(site, mode, d=None, name_key=None):
    cls, calls, _ = RF_MODES[mode]
    return {"c": cls, "d": LOAD_RETRY if mode == "get-retry" else (d if d is not None else 11), "how": None, "by": None,
            "rf": {"prefix": site, "nameKey": name_key, "mode": mode, "calls": list(calls), "pre": False}}


def gen_skipped_sub_case(r):
    """a step whose Logic is a sub-workflow in which EVERY inner step ends Skip / DepSkip for the trigger (so the
    sub-workflow's overall outcome is a skip, not Ok), followed by steps that reference it — and, as a control,
    the same shape with one inner step that does run (`control=True`: the sub-workflow is Ok)"""
    fns, steps = {}, []
    control = r.random() < 0.25
    trig = gen_trigger(r)
    trig["flag"] = True
    if r.random() < 0.6:
        fns["main.st0"] = _vf() if r.random() < 0.6 else _rf("main.st0", "get-ok")
        steps.append(_step("st0", {"ref": {"fn": "main.st0"}},
                           inputs={"map": [["flag", lit(True)], ["x", lit(gen_json(r, 1))]]}))
    k = len(steps)
    lbl = f"st{k}"
    via_switch = r.random() < 0.3
    sub_name = f"sub-main.{lbl}.c0" if via_switch else f"sub-main.{lbl}"
    inner = []
    n_inner = r.randint(1, 3)
    runner = r.randrange(n_inner) if control else None
    for j in range(n_inner):
        il = f"in{j}"
        site = f"{sub_name}.{il}"
        how = r.choice(["skipIf-lit", "skipIf-parent", "fn-skip", "fn-depSkip", "dep"]) if j else \
            r.choice(["skipIf-lit", "skipIf-parent", "fn-skip", "fn-depSkip"])
        if j == runner:
            how = "run"
        ins = [["p", path("parent", "flag")]]
        skip_if = None
        fn = _vf() if r.random() < 0.5 else _rf(site, "get-ok")
        if how == "skipIf-lit":
            skip_if = lit(True)
        elif how == "skipIf-parent":
            skip_if = path("parent", "flag")
        elif how == "fn-skip":
            fn = _vf("skip")
        elif how == "fn-depSkip":
            fn = _vf("depSkip")
        elif how == "dep":
            ins.append(["prev", path("steps", f"in{j - 1}")])
        fns[site] = fn
        inner.append(_step(il, {"ref": {"fn": site}}, inputs={"map": ins}))
    sub_inputs = {"map": [["flag", path("parent", "flag") if r.random() < 0.5 else lit(True)]] +
                  ([["u", path("steps", "st0", "got", "x")]] if steps and r.random() < 0.5 else [])}
    if via_switch:
        other = f"main.{lbl}.c1"
        fns[other] = _vf()
        logic = {"switch": {"on": lit("c0"), "cases": [["c0", {"wf": sub_name}], ["c1", {"fn": other}]],
                            "default": None if r.random() < 0.5 else {"fn": other}}}
    else:
        logic = {"ref": {"wf": sub_name}}
    steps.append(_step(lbl, logic, inputs=sub_inputs))
    # the step that references the sub-workflow step, and one downstream of it
    d1, d2 = f"st{k + 1}", f"st{k + 2}"
    fns[f"main.{d1}"] = _vf() if r.random() < 0.4 else _rf(f"main.{d1}", r.choice(["get-ok", "match-ok", "create"]))
    steps.append(_step(d1, {"ref": {"fn": f"main.{d1}"}},
                       inputs={"map": [["from", path("steps", lbl)], ["y", lit(r.choice(SCALARS))]]}))
    if r.random() < 0.7:
        fns[f"main.{d2}"] = _vf() if r.random() < 0.5 else _rf(f"main.{d2}", "get-ok")
        steps.append(_step(d2, {"ref": {"fn": f"main.{d2}"}}, inputs={"map": [["z", path("steps", d1, "got", "y")]]}))
    defs = [{"name": "main", "steps": steps}, {"name": sub_name, "steps": inner}]
    return {"trig": trig, "main": "main", "defs": defs, "fns": fns, "control": control}


def gen_item_error_case(r):
    """a forEach step whose itemIn is a LIST of map expressions one member of which cannot be evaluated for one item
    (the list as a whole is then unevaluable: PermFail, Logic never evaluated), its Logic observable either through
    API calls or through not echoing its inputs; plus a step referencing it.  25 % controls without the bad member."""
    fns, steps = {}, []
    control = r.random() < 0.25
    n = r.randint(1, 3)
    bad_at = None if control else r.randrange(n)
    items = []
    for i in range(n):
        kvs = [["a", lit(f"k{i}")], ["b", path("parent", "n") if r.random() < 0.5 else lit(i)]]
        if i == bad_at:
            kvs.append(["c", path("parent", "nope") if r.random() < 0.6 else {"bad": True}])
        items.append({"map": kvs})
    site = "main.st0"
    how = r.choice(["rf", "skip", "echo", "retry"])
    fns[site] = {"rf": _rf(site, "get-ok"), "skip": _vf("skip"), "echo": _vf(), "retry": _vf("retry", 5)}[how]
    steps.append(_step("st0", {"ref": {"fn": site}}, inputs={"map": [["x", lit(gen_json(r, 1))]]},
                       for_each={"itemIn": {"list": items}, "inputKey": "item"}))
    fns["main.st1"] = _vf() if r.random() < 0.5 else _rf("main.st1", "get-ok")
    steps.append(_step("st1", {"ref": {"fn": "main.st1"}}, inputs={"map": [["from", path("steps", "st0")]]}))
    return {"trig": gen_trigger(r), "main": "main", "defs": [{"name": "main", "steps": steps}], "fns": fns,
            "control": control}


def gen_falsy_state_case(r):
    """steps with a `state` block whose Logic succeeds with a FALSY value: a ValueFunction / ResourceFunction without
    `return` (null), a forEach over an empty list ([]), a sub-workflow that publishes no state ({}); plus ordinary
    steps publishing state around them (shared keys included)"""
    fns, steps, defs = {}, [], []
    n = r.randint(2, 5)
    for i in range(n):
        l = f"st{i}"
        site = f"main.{l}"
        kind = r.choice(["vf-noret", "rf-noret", "empty-foreach", "empty-sub", "plain", "plain", "skip"])
        fe = None
        logic = {"ref": {"fn": site}}
        if kind == "vf-noret":
            fns[site] = {**_vf(), "noret": True}
        elif kind == "rf-noret":
            fns[site] = {**_rf(site, r.choice(["get-ok", "match-ok"])), "noret": True}
        elif kind == "empty-foreach":
            fns[site] = _vf()
            fe = {"itemIn": lit([]) if r.random() < 0.5 else path("parent", "none"), "inputKey": "item"}
        elif kind == "empty-sub":
            sub = f"sub-main.{l}"
            fns[f"{sub}.in0"] = _vf()
            defs.append({"name": sub, "steps": [_step("in0", {"ref": {"fn": f"{sub}.in0"}}, state=None, cond=False)]})
            logic = {"ref": {"wf": sub}}
        elif kind == "skip":
            fns[site] = _vf("skip")
        else:
            fns[site] = _vf() if r.random() < 0.6 else _rf(site, "get-ok")
        kvs = [[k, lit(r.choice([l, 1, True, [l], {"by": l}]))]
               for k in r.sample(["k0", "k1", l], r.randint(1, 2))]
        if r.random() < 0.3:
            kvs.append([l + "v", path("value")])
        steps.append(_step(l, logic, inputs={"map": [["x", lit(i)]]} if r.random() < 0.7 else None, for_each=fe,
                           state={"map": kvs}))
    trig = gen_trigger(r)
    trig["none"] = []
    return {"trig": trig, "main": "main", "defs": [{"name": "main", "steps": steps}] + defs, "fns": fns}


def gen_shared_name_switch_case(r):
    """a refSwitch whose cases name Logic of DIFFERENT KINDS under ONE Koreo name (ValueFunction X / ResourceFunction X /
    Workflow X are separate caches); every case is selected by some generated case; each kind answers differently"""
    fns, steps, defs = {}, [], []
    shared = "shared-x"
    kinds = r.sample(["vf", "rf", "wf"], r.choice([2, 3]))
    sel = r.randrange(len(kinds))
    fns["main.st0"] = _vf()
    steps.append(_step("st0", {"ref": {"fn": "main.st0"}}, inputs={"map": [["sel", lit(f"c{sel}")], ["x", lit(gen_json(r, 1))]]}))
    cases = []
    for j, kd in enumerate(kinds):
        site = f"main.st1.c{j}"
        if kd == "vf":
            fns[site] = {**_vf(), "name": shared}
            cases.append([f"c{j}", {"fn": site}])
        elif kd == "rf":
            fns[site] = {**_rf(site, r.choice(["get-ok", "match-ok"])), "name": shared}
            cases.append([f"c{j}", {"fn": site}])
        else:
            fns[f"{shared}.in0"] = _vf()
            defs.append({"name": shared, "steps": [_step("in0", {"ref": {"fn": f"{shared}.in0"}},
                                                          inputs={"map": [["p", path("parent", "sel")]]})]})
            cases.append([f"c{j}", {"wf": shared}])
    on = r.choice([path("steps", "st0", "got", "sel"), path("inputs", "sel"), lit(f"c{sel}")])
    dflt = None if r.random() < 0.6 else cases[0][1]
    steps.append(_step("st1", {"switch": {"on": on, "cases": cases, "default": dflt}},
                       inputs={"map": [["sel", path("steps", "st0", "got", "sel")], ["y", lit(r.choice(SCALARS))]]}))
    fns["main.st2"] = _vf()
    steps.append(_step("st2", {"ref": {"fn": "main.st2"}}, inputs={"map": [["from", path("steps", "st1")]]}))
    return {"trig": gen_trigger(r), "main": "main", "defs": [{"name": "main", "steps": steps}] + defs, "fns": fns}


def gen_foreach_switch_steps_case(r):
    """a forEach step whose Logic is a refSwitch with a `switchOn` that reads `steps.*` (evaluated later, inside the
    item tasks), with other steps of DIFFERENT dependency sets listed around it whose gates open at the same time"""
    fns, steps = {}, []
    heavy = r.random() < 0.5        # dependencies finish on API calls (so their completion order can be permuted)
    for i, sel in enumerate([f"c{r.randrange(2)}", "zz"]):
        site = f"main.st{i}"
        fns[site] = _rf(site, "get-ok") if heavy else _vf()
        steps.append(_step(f"st{i}", {"ref": {"fn": site}}, inputs={"map": [["sel", lit(sel)], ["lst", lit(["a", "b", "c"][:r.randint(1, 3)])]]}))
    other_first = r.random() < 0.3

    def other(label):
        fns[f"main.{label}"] = _vf()
        return _step(label, {"ref": {"fn": f"main.{label}"}}, inputs={"map": [["o", path("steps", "st1", "got", "sel")]]})

    if other_first:
        steps.append(other("st2"))
    lbl = f"st{len(steps)}"
    cases = []
    for j in range(2):
        site = f"main.{lbl}.c{j}"
        fns[site] = _vf() if r.random() < 0.6 else _rf(site, "get-ok")
        cases.append([f"c{j}", {"fn": site}])
    items = lit(["p", "q", "r"][:r.randint(1, 3)]) if r.random() < 0.5 else path("steps", "st0", "got", "lst")
    steps.append(_step(lbl, {"switch": {"on": path("steps", "st0", "got", "sel"), "cases": cases,
                                       "default": None if r.random() < 0.5 else cases[1][1]}},
                       inputs={"map": [["k", lit(7)]]}, for_each={"itemIn": items, "inputKey": "item"}))
    for _ in range(r.randint(1, 2)):
        steps.append(other(f"st{len(steps)}"))
    return {"trig": gen_trigger(r), "main": "main", "defs": [{"name": "main", "steps": steps}], "fns": fns}


def gen_lookup_case(r):
    """ResourceFunctions prepared WITHOUT `plural` (kind Gadget): the first use in a pass must discover it through
    `api.lookup_kind`; several steps / forEach iterations wait on the same discovery"""
    fns, steps = {}, []
    n = r.randint(1, 3)
    for i in range(n):
        l = f"st{i}"
        site = f"main.{l}"
        f = _rf(site, r.choice(["get-ok", "match-ok", "get-ok", "create"]), name_key="item" if r.random() < 0.35 else None)
        f["rf"].update({"kind": "Gadget", "noplural": True})
        fns[site] = f
        fe = {"itemIn": lit(r.sample(ITEMS, r.randint(1, 3))), "inputKey": "item"} if f["rf"]["nameKey"] else None
        ins = [["x", lit(i)]]
        if i and r.random() < 0.4:
            ins.append(["prev", path("steps", f"st{i - 1}")])
        steps.append(_step(l, {"ref": {"fn": site}}, inputs={"map": ins}, for_each=fe))
    l = f"st{n}"
    fns[f"main.{l}"] = _vf() if r.random() < 0.5 else _rf(f"main.{l}", "get-ok")
    steps.append(_step(l, {"ref": {"fn": f"main.{l}"}}, inputs={"map": [["from", path("steps", "st0")]]}))
    return {"trig": gen_trigger(r), "main": "main", "defs": [{"name": "main", "steps": steps}], "fns": fns}


def gen_group_collision_case(r):
    """two ResourceFunctions of one pass read objects with the SAME kind word, namespace and name in two DIFFERENT API
    groups; each answers with a tag stored in its own object.  Variants: both start at once (their GETs overlap when the
    calls take time) or the second waits for a third step (overlap depends on the completion order)"""
    fns, steps = {}, []
    name = "same-name"
    groups = ["verif.dev/v1", "other.verif.dev/v1"]
    r.shuffle(groups)
    chained = r.random() < 0.5
    if chained:
        fns["main.st0"] = _rf("main.st0", "get-ok")
        steps.append(_step("st0", {"ref": {"fn": "main.st0"}}, inputs={"map": [["x", lit(0)]]}))
    for j, g in enumerate(groups):
        l = f"st{len(steps)}"
        site = f"main.{l}"
        f = _rf(name, r.choice(["get-ok", "match-ok"]))
        f["rf"].update({"kind": "Widget", "apiVersion": g})
        f["showres"] = True
        fns[site] = f
        ins = [["g", lit(j)]]
        if chained and j == 1:
            ins.append(["after", path("steps", "st0", "got", "x")])
        steps.append(_step(l, {"ref": {"fn": site}}, inputs={"map": ins}))
    l = f"st{len(steps)}"
    fns[f"main.{l}"] = _vf()
    steps.append(_step(l, {"ref": {"fn": f"main.{l}"}},
                       inputs={"map": [["a", path("steps", steps[-1]["label"], "res")], ["b", path("steps", steps[-2]["label"], "res")]]}))
    return {"trig": gen_trigger(r), "main": "main", "defs": [{"name": "main", "steps": steps}], "fns": fns}


def gen_group_discovery_case(r):
    """2-3 ResourceFunctions whose kinds share the kind WORD but live in DIFFERENT API groups, every one prepared
    WITHOUT `plural`: each group's plural must be discovered (`api.lookup_kind`) on first use, and the discoveries of one
    pass overlap or not depending on when the functions start.  Each function starts at once or behind a gate step (a
    ResourceFunction with a given plural) — so whether its discovery begins while another group's discovery call is
    in flight depends on the completion order of the gates' GETs and on how long a discovery takes.  Optionally a
    second function of one of the groups (legitimately shares that group's discovery).  Every object carries its own
    tag which the function returns; a ValueFunction joins them."""
    fns, steps = {}, []
    word = "Sprocket"
    groups = ["verif.dev/v1", "other.verif.dev/v1", "third.verif.dev/v1"]
    r.shuffle(groups)
    groups = groups[:r.choice([2, 2, 3])]
    if r.random() < 0.3:
        groups.append(r.choice(groups))
    shape = r.choice(["together", "gated", "gated", "two-gates"])
    gates = []
    for _ in range({"together": 0, "gated": 1, "two-gates": 2}[shape]):
        l = f"st{len(steps)}"
        fns[f"main.{l}"] = _rf(f"main.{l}", "get-ok")
        steps.append(_step(l, {"ref": {"fn": f"main.{l}"}}, inputs={"map": [["x", lit(len(steps))]]}))
        gates.append(l)
    readers = []
    for j, g in enumerate(groups):
        l = f"st{len(steps)}"
        site = f"main.{l}"
        f = _rf(site, r.choice(["get-ok", "get-ok", "match-ok"]))
        f["rf"].update({"kind": word, "apiVersion": g, "noplural": True})
        f["showres"] = True
        fns[site] = f
        ins = [["g", lit(j)]]
        behind = None            # the gate this reader waits for (None: it starts at once)
        if shape == "gated" and j >= 1:
            behind = gates[0]
        elif shape == "two-gates" and (j >= 1 or r.random() < 0.5):
            behind = gates[j % 2]
        if behind:
            ins.append(["after", path("steps", behind, "got", "x")])
        steps.append(_step(l, {"ref": {"fn": site}}, inputs={"map": ins}))
        readers.append(l)
    l = f"st{len(steps)}"
    fns[f"main.{l}"] = _vf()
    steps.append(_step(l, {"ref": {"fn": f"main.{l}"}}, inputs={"map": [[f"r{k}", path("steps", x, "res")] for k, x in enumerate(readers)]}))
    return {"trig": gen_trigger(r), "main": "main", "defs": [{"name": "main", "steps": steps}], "fns": fns}


def call(f, *args):
    return {"call": f, "args": list(args)}


def gen_alias_case(r):
    """≥ 2 consumers of ONE dependency value, some of them applying koreo's list/map functions (`flatten()`,
    `overlay()`) to parts of it; the value's nested lists / maps come from literals (or from the trigger), so what the
    dependency returned is known exactly"""
    fns, steps = {}, []
    lsts = [[r.choice(SCALARS[3:]) for _ in range(r.randint(1, 3))] for _ in range(r.randint(2, 4))]
    m = {"a": {"b": 1, "c": [1]}, "d": r.choice(SCALARS), "e": {"f": {"g": 2}}}
    trig = gen_trigger(r)
    trig["lol"] = [[1, 2], [3], [4, 5]]
    fns["main.st0"] = _vf() if r.random() < 0.7 else _rf("main.st0", "get-ok")
    steps.append(_step("st0", {"ref": {"fn": "main.st0"}}, inputs={"map": [["lst", lit(lsts)], ["m", lit(m)]]}))
    src_l = lambda: r.choice([path("steps", "st0", "got", "lst"), path("steps", "st0", "got", "lst"), path("parent", "lol")])
    src_m = path("steps", "st0", "got", "m")
    ov = lit(r.choice([{"a": {"z": 9}}, {"d": {"n": 1}}, {"e": {"f": {"h": 3}}, "new": [1]}]))
    for i in range(1, r.randint(3, 5)):
        l = f"st{i}"
        kind = r.choice(["flatten", "flatten", "raw", "overlay", "mix"])
        ins = [["dep", path("steps", "st0", "site")]]
        if kind in ("flatten", "mix"):
            ins.append(["fl", call("flatten", src_l())])
        if kind in ("raw", "mix") or r.random() < 0.4:
            ins.append(["raw", src_l()])
        if kind in ("overlay", "mix"):
            ins.append(["ov", call("overlay", src_m, ov)])
        if r.random() < 0.4:
            ins.append(["m", src_m])
        if r.random() < 0.3:
            ins.append(["n", call("size", call("flatten", path("steps", "st0", "got", "lst")))])
        if i > 1 and r.random() < 0.3:
            ins.append(["prev", path("steps", f"st{i - 1}", "got", "dep")])
        fns[f"main.{l}"] = _vf() if r.random() < 0.7 else _rf(f"main.{l}", "get-ok")
        fe = None
        if r.random() < 0.2:
            fe = {"itemIn": call("flatten", path("steps", "st0", "got", "lst")), "inputKey": "item"}
        steps.append(_step(l, {"ref": {"fn": f"main.{l}"}}, inputs={"map": ins}, for_each=fe))
    return {"trig": trig, "main": "main", "defs": [{"name": "main", "steps": steps}], "fns": fns}


def gen_whole_steps_case(r):
    """a step with a declared dependency whose inputs ALSO use `steps` as a whole (`size(steps)`, `"x" in steps`, `steps`
    itself), listed after non-dependency steps whose API calls may finish before or after the dependency's"""
    fns, steps = {}, []
    n_other = r.randint(1, 2)
    roles = ["gate"] + ["other"] * n_other
    r.shuffle(roles)
    gate = None
    others = []
    for i, role in enumerate(roles):
        l = f"st{i}"
        fns[f"main.{l}"] = _rf(f"main.{l}", r.choice(["get-ok", "match-ok"]))
        steps.append(_step(l, {"ref": {"fn": f"main.{l}"}}, inputs={"map": [["x", lit(i)]]}))
        if role == "gate":
            gate = l
        else:
            others.append(l)
    k = len(steps)
    probe = f"st{k}"
    ins = [["g", path("steps", gate, "got", "x")]]
    for kind in r.sample(["size", "in", "whole"], r.randint(1, 3)):
        if kind == "size":
            ins.append(["n", call("size", path("steps"))])
        elif kind == "in":
            ins.append(["has", call("in", lit(r.choice(others)), path("steps"))])
        else:
            ins.append(["all", path("steps")])
    fns[f"main.{probe}"] = _vf() if r.random() < 0.6 else _rf(f"main.{probe}", "get-ok")
    steps.append(_step(probe, {"ref": {"fn": f"main.{probe}"}}, inputs={"map": ins}))
    l = f"st{k + 1}"
    fns[f"main.{l}"] = _vf()
    steps.append(_step(l, {"ref": {"fn": f"main.{l}"}}, inputs={"map": [["p", path("steps", probe, "got")]]}))
    return {"trig": gen_trigger(r), "main": "main", "defs": [{"name": "main", "steps": steps}], "fns": fns}


WIDE_ITEMS = [f"w{i}" for i in range(12)]


def gen_fanout_case(r):
    """wide fan-out: 5-12 ResourceFunction evaluations that all start at once (independent steps and / or one forEach),
    one level deep, then a join"""
    fns, steps = {}, []
    shape = r.choice(["steps", "foreach", "both"])
    if shape in ("steps", "both"):
        for i in range(r.randint(5, 8) if shape == "steps" else r.randint(2, 4)):
            l = f"st{i}"
            fns[f"main.{l}"] = _rf(f"main.{l}", r.choice(["get-ok", "match-ok", "get-ok", "create", "patch"]), d=7)
            steps.append(_step(l, {"ref": {"fn": f"main.{l}"}}, inputs={"map": [["x", lit(i)]]}))
    if shape in ("foreach", "both"):
        l = f"st{len(steps)}"
        items = WIDE_ITEMS[:r.randint(5, 12)]
        f = _rf(f"main.{l}", r.choice(["get-ok", "match-ok"]), name_key="item")
        f["rf"]["items"] = list(WIDE_ITEMS)
        fns[f"main.{l}"] = f
        steps.append(_step(l, {"ref": {"fn": f"main.{l}"}}, inputs={"map": [["k", lit(1)]]},
                           for_each={"itemIn": lit(items), "inputKey": "item"}))
    l = f"st{len(steps)}"
    fns[f"main.{l}"] = _vf()
    refs = r.sample([s["label"] for s in steps], min(len(steps), 2))
    steps.append(_step(l, {"ref": {"fn": f"main.{l}"}}, inputs={"map": [[f"d{j}", path("steps", x)] for j, x in enumerate(refs)]}))
    return {"trig": gen_trigger(r), "main": "main", "defs": [{"name": "main", "steps": steps}], "fns": fns}


def gen_digit_label_case(r):
    """steps whose (schema-valid) labels START WITH A DIGIT, referenced by later steps — only possible through index
    syntax (`steps["1st"].got.x`); the referenced steps are Ok, skipped, failing …"""
    fns, steps = {}, []
    labels = r.sample(["1st", "2nd", "3rd0", "123", "9x_"], r.randint(1, 2)) + ["base"]
    r.shuffle(labels)
    for i, l in enumerate(labels):
        c = r.choice(["ok", "ok", "ok", "skip", "retry", "permFail"])
        fns[f"main.{l}"] = _vf(c, 5) if r.random() < 0.7 or c != "ok" else _rf(f"main.{l}", "get-ok")
        skip_if = lit(True) if r.random() < 0.15 else None
        steps.append(_step(l, {"ref": {"fn": f"main.{l}"}}, inputs={"map": [["x", lit(i)], ["flag", lit(r.random() < 0.5)]]},
                           skip_if=skip_if))
    digit = [l for l in labels if l[0].isdigit()]
    for j in range(r.randint(1, 3)):
        l = f"use{j}"
        target = r.choice(digit)
        ins = [["v", path("steps", target, "got", "x")]]
        if r.random() < 0.4:
            ins.append(["b", path("steps", "base", "got", "x")])
        if r.random() < 0.3 and j:
            ins.append(["p", path("steps", f"use{j - 1}", "got", "v")])
        sk = path("steps", r.choice(digit), "got", "flag") if r.random() < 0.25 else None
        fe = {"itemIn": lit(["a", "b"]), "inputKey": "item"} if r.random() < 0.15 else None
        fns[f"main.{l}"] = _vf() if r.random() < 0.6 else _rf(f"main.{l}", "get-ok")
        steps.append(_step(l, {"ref": {"fn": f"main.{l}"}}, inputs={"map": ins}, skip_if=sk, for_each=fe))
    return {"trig": gen_trigger(r), "main": "main", "defs": [{"name": "main", "steps": steps}], "fns": fns}


TYPED = [["issued", {"$ts": "2024-01-02T03:04:05Z"}], ["ttl", {"$dur": 5400}], ["token", {"$bytes": "73336372"}],
         ["generation", {"$uint": 7}]]


def gen_typed_value_case(r):
    """a step whose return value carries CEL values WITHOUT a JSON counterpart (timestamp, duration, bytes, uint) next to
    ordinary ones, and later steps that reference them (whole value, single members, nested in maps / lists)"""
    fns, steps = {}, []
    extra = r.sample(TYPED, r.randint(1, 4))
    fns["main.st0"] = {**_vf(), "extra": extra}
    steps.append(_step("st0", {"ref": {"fn": "main.st0"}}, inputs={"map": [["name", lit("lease")], ["n", lit(3)]]}))
    for i in range(1, r.randint(2, 4)):
        l = f"st{i}"
        ins = []
        for k, _ in r.sample(extra, r.randint(1, len(extra))):
            ins.append([k, path("steps", "st0", k)])
        if r.random() < 0.5:
            ins.append(["all", path("steps", "st0")])
        if r.random() < 0.4:
            ins.append(["nest", {"map": [["in", {"list": [path("steps", "st0", extra[0][0]), lit(1)]}]]}])
        if i > 1 and r.random() < 0.5:
            ins.append(["prev", path("steps", f"st{i - 1}", "got")])
        fns[f"main.{l}"] = _vf() if r.random() < 0.7 else _rf(f"main.{l}", "get-ok")
        steps.append(_step(l, {"ref": {"fn": f"main.{l}"}}, inputs={"map": ins}))
    return {"trig": gen_trigger(r), "main": "main", "defs": [{"name": "main", "steps": steps}], "fns": fns}


def gen_gated_lookup_case(r):
    """a step whose ResourceFunction has a kind of its own and NO `plural` (its first API request is the discovery call
    `lookup_kind`), behind a dependency that is not Ok / behind a true skipIf / behind unevaluable inputs — and, as
    controls, behind an Ok dependency (then the discovery call, the GET … are expected)"""
    fns, steps = {}, []
    gate_c = r.choice(["skip", "retry", "permFail", "depSkip", "ok", "ok"])
    fns["main.st0"] = _vf(gate_c, 5)
    steps.append(_step("st0", {"ref": {"fn": "main.st0"}}, inputs={"map": [["x", lit(1)], ["flag", lit(True)]]}))
    for i in range(1, r.randint(2, 3)):
        l = f"st{i}"
        site = f"main.{l}"
        f = _rf(site, r.choice(["get-ok", "match-ok", "create", "get-retry"]), d=7)
        f["rf"].update({"kind": f"Gz{l.capitalize()}", "noplural": True, "lookup": True})
        fns[site] = f
        ins = [["v", path("steps", f"st{i - 1}" if r.random() < 0.5 else "st0", "got", "x")]]
        how = r.choice(["plain", "plain", "skipIf", "bad-inputs"])
        sk = None
        if how == "skipIf":
            sk = path("steps", "st0", "got", "flag")
        elif how == "bad-inputs":
            ins.append(["boom", path("steps", "st0", "got", "nope")])
        steps.append(_step(l, {"ref": {"fn": site}}, inputs={"map": ins}, skip_if=sk))
    return {"trig": gen_trigger(r), "main": "main", "defs": [{"name": "main", "steps": steps}], "fns": fns}


def gen_unnameable_case(r):
    """step expressions that mix an access the structure extractor cannot name (an index on a list literal,
    `[a, b][0]`) with references to earlier steps — before it, after it, nested inside it, deeper and shallower"""
    fns, steps = {}, []
    for i in range(2):
        l = f"st{i}"
        c = r.choice(["ok", "ok", "ok", "skip", "retry", "permFail"])
        fns[f"main.{l}"] = _vf(c, 5)
        steps.append(_step(l, {"ref": {"fn": f"main.{l}"}}, inputs={"map": [["x", lit(i + 1)], ["flag", lit(False)]]}))
    for j in range(r.randint(1, 2)):
        l = f"st{2 + j}"
        a, b = r.sample(["st0", "st1"], 2)
        un_plain = call("at0", {"list": [lit(r.choice(["k", 7])), lit(1)]})
        un_steps = call("at0", {"list": [path("steps", b, "got", "x"), lit(1)]})
        entries = [["r", path("steps", a, "got", "x")],
                   ["s", r.choice([un_plain, un_steps])],
                   ["t", {"map": [["deep", {"map": [["u", r.choice([un_plain, un_steps])]]}], ["v", path("steps", b, "got", "x")]]}]]
        if r.random() < 0.5:
            entries.append(["w", {"list": [un_plain, path("steps", a, "site")]}])
        r.shuffle(entries)
        entries = entries[:r.randint(2, len(entries))]
        sk = None
        if r.random() < 0.3:
            sk = call("at0", {"list": [path("steps", a, "got", "flag"), lit(True)]})
        fns[f"main.{l}"] = _vf() if r.random() < 0.6 else _rf(f"main.{l}", "get-ok")
        steps.append(_step(l, {"ref": {"fn": f"main.{l}"}}, inputs={"map": entries}, skip_if=sk))
    return {"trig": gen_trigger(r), "main": "main", "defs": [{"name": "main", "steps": steps}], "fns": fns}


def gen_cluster_scoped_case(r):
    """cluster-scoped ResourceFunctions (`apiConfig.namespaced: false`, no namespace) among namespaced ones: one that
    starts after another step, plus independent steps whose API calls finish before or after it"""
    fns, steps = {}, []
    fns["main.st0"] = _rf("main.st0", r.choice(["get-ok", "match-ok"]))
    steps.append(_step("st0", {"ref": {"fn": "main.st0"}}, inputs={"map": [["x", lit(0)]]}))
    f = _rf("main.st1", r.choice(["get-ok", "match-ok", "create", "get-retry"]), d=7)
    f["rf"].update({"kind": "Cthing", "cluster": True})
    fns["main.st1"] = f
    ins = [["y", lit(1)]]
    if r.random() < 0.8:
        ins.append(["after", path("steps", "st0", "got", "x")])
    steps.append(_step("st1", {"ref": {"fn": "main.st1"}}, inputs={"map": ins}))
    for i in range(2, r.randint(3, 5)):
        l = f"st{i}"
        g = _rf(f"main.{l}", r.choice(["get-ok", "match-ok", "create"]), d=7)
        if r.random() < 0.3:
            g["rf"].update({"kind": "Cthing", "cluster": True})
        fns[f"main.{l}"] = g
        steps.append(_step(l, {"ref": {"fn": f"main.{l}"}}, inputs={"map": [["x", lit(i)]]}))
    l = f"st{len(steps)}"
    fns[f"main.{l}"] = _vf()
    steps.append(_step(l, {"ref": {"fn": f"main.{l}"}}, inputs={"map": [["a", path("steps", "st1")], ["b", path("steps", "st2")]]}))
    return {"trig": gen_trigger(r), "main": "main", "defs": [{"name": "main", "steps": steps}], "fns": fns}


def gen_not_ready_sub_case(r):
    """a ready workflow with a step whose Logic is a sub-workflow that is NOT ready (one of its steps references a
    Function that was never offered): the sub-workflow answers with its `steps_ready` outcome.  `no_model`: compared
    between repeated passes / completion orders of the implementation only"""
    fns, steps = {}, []
    fns["main.st0"] = _rf("main.st0", "get-ok") if r.random() < 0.5 else _vf()
    steps.append(_step("st0", {"ref": {"fn": "main.st0"}}, inputs={"map": [["x", lit(1)]]}))
    sub = "sub-main.st1"
    inner = []
    n = r.randint(1, 3)
    missing = r.randrange(n)
    for j in range(n):
        site = f"{sub}.in{j}"
        fns[site] = {**_vf("retry", 15), "absent": True} if j == missing else _vf()
        inner.append(_step(f"in{j}", {"ref": {"fn": site}}, inputs={"map": [["p", path("parent", "p")]]}))
    steps.append(_step("st1", {"ref": {"wf": sub}}, inputs={"map": [["p", path("steps", "st0", "got", "x")]]}))
    fns["main.st2"] = _vf()
    steps.append(_step("st2", {"ref": {"fn": "main.st2"}}, inputs={"map": [["q", path("steps", "st1")]]}))
    return {"trig": gen_trigger(r), "main": "main", "defs": [{"name": "main", "steps": steps}, {"name": sub, "steps": inner}],
            "fns": fns, "no_model": True}


def gen_race_case(r):
    """a step with ≥ 2 dependencies that are NOT Ok and each finish on an API call (so that their completion order
    can be permuted), `condition` declared on the dependent and on the steps downstream of it"""
    fns, steps = {}, []
    n_bad = r.choice([2, 2, 3])
    n_ok = r.choice([0, 1, 1])
    kinds = ["bad"] * n_bad + ["ok"] * n_ok
    r.shuffle(kinds)
    firsts = []
    for i, kd in enumerate(kinds):
        l = f"st{i}"
        site = f"main.{l}"
        if kd == "ok":
            fns[site] = _rf(site, r.choice(["get-ok", "match-ok"]))
        else:
            fns[site] = _rf(site, r.choice(["get-retry", "create", "patch"]), d=r.choice([3, 11, 45]))
        steps.append(_step(l, {"ref": {"fn": site}}, inputs={"map": [["x", lit(i)]]},
                           state="obs" if r.random() < 0.5 else None, cond=r.random() < 0.7))
        firsts.append(l)
    k = len(steps)
    dep = f"st{k}"
    refs = [l for l, kd in zip(firsts, kinds) if kd == "bad"]
    refs += [l for l, kd in zip(firsts, kinds) if kd == "ok" and r.random() < 0.7]
    r.shuffle(refs)
    fns[f"main.{dep}"] = _vf() if r.random() < 0.5 else _rf(f"main.{dep}", "get-ok")
    steps.append(_step(dep, {"ref": {"fn": f"main.{dep}"}},
                       inputs={"map": [[f"d{j}", path("steps", l)] for j, l in enumerate(refs)]}))
    prev = dep
    for j in range(r.choice([1, 1, 2])):
        l = f"st{k + 1 + j}"
        fns[f"main.{l}"] = _vf()
        ins = [["p", path("steps", prev)]]
        if j and r.random() < 0.5:
            ins.append(["q", path("steps", r.choice(firsts))])
        steps.append(_step(l, {"ref": {"fn": f"main.{l}"}}, inputs={"map": ins}))
        prev = l
    return {"trig": gen_trigger(r), "main": "main", "defs": [{"name": "main", "steps": steps}], "fns": fns}


# --------------------------------------------------------------------------- exhaustive small DAGs

CHAMELEON = "chameleon"
CHAMELEON_CLASSES = ["ok", "skip", "depSkip", "retry", "permFail", "evalError"]


def dag_shapes(n):
    """every dependency relation on n listed steps (deps ⊆ earlier steps)"""
    pairs = [(j, i) for i in range(n) for j in range(i)]
    for mask in range(1 << len(pairs)):
        deps = {i: [] for i in range(n)}
        for b, (j, i) in enumerate(pairs):
            if mask >> b & 1:
                deps[i].append(j)
        yield deps


def shape_case(deps: dict[int, list[int]]):
    """a workflow with that shape whose steps all run one ValueFunction that takes its class from
    `inputs.cls`, itself taken from `parent.cls.<label>` — one prepared workflow serves every assignment"""
    steps = []
    for i in sorted(deps):
        label = f"st{i}"
        kvs = [["cls", path("parent", "cls", label)]] + [[f"d{j}", path("steps", f"st{j}")] for j in deps[i]]
        st = {"label": label, "deps": [], "inputs": {"map": kvs}, "skipIf": None, "forEach": None,
              "logic": {"ref": {"fn": CHAMELEON}}, "state": {"map": [[label, path("value")]]},
              "cond": ["C" + label, f"step {label}"]}
        st["deps"] = step_deps(st)
        steps.append(st)
    fns = {CHAMELEON: {"c": "ok", "d": 5, "how": None, "by": "cls", "rf": None}}
    return {"trig": {"cls": {}}, "main": "main", "defs": [{"name": "main", "steps": steps}], "fns": fns}


def with_assignment(case, classes):
    c = dict(case)
    c["trig"] = {"cls": {f"st{i}": cl for i, cl in enumerate(classes)}}
    return c


# --------------------------------------------------------------------------- to the Lean driver

def _wire_expr(e):
    if e is None:
        return None
    if "lit" in e:
        return {"lit": to_wire(e["lit"])}
    if "path" in e:
        return {"path": list(e["path"])}
    if "map" in e:
        return {"map": [[k, _wire_expr(x)] for k, x in e["map"]]}
    if "list" in e:
        return {"list": [_wire_expr(x) for x in e["list"]]}
    if "call" in e:
        return {"call": e["call"], "args": [_wire_expr(x) for x in e["args"]]}
    return {"bad": True}


def _wire_step(s):
    lg = s["logic"]
    if "switch" in lg:
        sw = lg["switch"]
        logic = {"switch": {"on": _wire_expr(sw["on"]), "cases": sw["cases"], "default": sw["default"]}}
    else:
        logic = lg
    fe = s.get("forEach")
    return {"label": s["label"], "deps": s["deps"], "inputs": _wire_expr(s.get("inputs")),
            "skipIf": _wire_expr(s.get("skipIf")),
            "forEach": {"itemIn": _wire_expr(fe["itemIn"]), "inputKey": fe["inputKey"]} if fe else None,
            "logic": logic, "state": _wire_expr(s.get("state")), "cond": s.get("cond")}


def _wire_fn(f):
    w = {"c": f["c"], "d": f.get("d", 0)}
    if f.get("by"):
        w["by"] = f["by"]
    if f.get("extra"):
        w["extra"] = [[k, to_wire(t)] for k, t in f["extra"]]
    if f.get("name"):
        w["kname"] = f["name"]
    if f.get("noret"):
        w["noret"] = True
    if f.get("showres"):
        w["res"] = True
    if f.get("rf"):
        rf = f["rf"]
        w["rf"] = {"prefix": rf["prefix"], "nameKey": rf["nameKey"], "calls": rf["calls"], "pre": rf["pre"]}
        if rf.get("lookup"):     # the first API request of the (single) evaluation is the discovery of the plural
            w["rf"]["lookup"] = f'{rf["kind"]}.{rf.get("apiVersion", API_VERSION)}'

    return w


def to_req(case, schedule=None, nschedule=None):
    req = {"op": "reconcile", "trig": to_wire(case["trig"]), "main": case["main"],
           "defs": [{"name": w["name"], "steps": [_wire_step(s) for s in w["steps"]]} for w in case["defs"]],
           "fns": [[k, _wire_fn(f)] for k, f in case["fns"].items()]}
    if schedule is not None:
        req["schedule"] = schedule
    if nschedule is not None:        # path-addressed events (inner steps of sub-workflows included)
        req["nschedule"] = nschedule
    return req


# --------------------------------------------------------------------------- to real Koreo specs

def cel_lit(v):
    if v is None:
        return "null"
    if v is True:
        return "true"
    if v is False:
        return "false"
    if isinstance(v, int):
        return str(v)
    if isinstance(v, str):
        assert all(ch.isalnum() or ch in "-_. " for ch in v), v
        return '"' + v + '"'
    if isinstance(v, list):
        return "[" + ", ".join(cel_lit(x) for x in v) + "]"
    if isinstance(v, dict):
        return "{" + ", ".join(cel_lit(k) + ": " + cel_lit(x) for k, x in v.items()) + "}"
    raise ValueError(v)


_IDENT = __import__("re").compile(r"[A-Za-z_][A-Za-z0-9_]*$")


def cel_path(p):
    """member access; a key that is not an identifier (a step label starting with a digit) needs index syntax"""
    out = p[0]
    for k in p[1:]:
        out += f".{k}" if _IDENT.match(k) else f'["{k}"]'
    return out


def cel_typed(t):
    """CEL source of a tagged non-JSON value (see wf_run.plain_typed)"""
    if "$ts" in t:
        return f'=timestamp("{t["$ts"]}")'
    if "$dur" in t:
        return f'=duration("{t["$dur"]}s")'
    if "$bytes" in t:
        return '=b"' + bytes.fromhex(t["$bytes"]).decode("ascii") + '"'
    return f'=uint({t["$uint"]})'


def cel_expr(e):
    """a standalone Koreo expression (leading `=`)"""
    if "lit" in e:
        return "=" + cel_lit(e["lit"])
    if "path" in e:
        return "=" + cel_path(e["path"])
    if "bad" in e:
        return "=1/0"
    if "list" in e:
        return "=[" + ", ".join(cel_expr(x)[1:] for x in e["list"]) + "]"
    if "call" in e:
        a = [cel_expr(x)[1:] for x in e["args"]]
        if e["call"] == "in":
            return f"={a[0]} in {a[1]}"
        if e["call"] == "size":
            return f"=size({a[0]})"
        if e["call"] == "at0":          # index on a list literal: an access the structure extractor cannot name
            return f"={a[0]}[0]"
        return f"={a[0]}.{e['call']}({', '.join(a[1:])})"       # flatten / overlay: method style
    return "={" + ", ".join(cel_lit(k) + ": " + cel_expr(x)[1:] for k, x in e["map"]) + "}"


def spec_value(e):
    """a value inside an `inputs:` / `state:` map: static JSON, nested map, or an `=` expression"""
    if "lit" in e:
        return copy.deepcopy(e["lit"])
    if "map" in e:
        return {k: spec_value(x) for k, x in e["map"]}
    if "list" in e:
        return [spec_value(x) for x in e["list"]]
    return cel_expr(e)


def _pre(c, d):
    body = {"skip": {"message": "forced"}, "depSkip": {"message": "forced"},
            "retry": {"message": "forced", "delay": d}, "permFail": {"message": "forced"}}[c]
    return [{"assert": "=false", c: body}]


def _chameleon_spec(fid, key):
    pre = []
    for c in ("skip", "depSkip", "permFail"):
        pre.append({"assert": f'=inputs.{key} != "{c}"', c: {"message": "forced"}})
    pre.append({"assert": f'=inputs.{key} != "retry"', "retry": {"message": "forced", "delay": 5}})
    return {"preconditions": pre, "locals": {"boom": f'=inputs.{key} == "ok" ? 0 : 1/0'},
            "return": {"site": fid, "got": "=inputs"}}


def fn_spec(fid, f):
    """('ValueFunction'|'ResourceFunction', spec)"""
    ret = {"site": fid, "got": "=inputs"}
    if f.get("by"):
        return "ValueFunction", _chameleon_spec(fid, f["by"])
    rf = f.get("rf")
    if f.get("showres") and rf:
        ret["res"] = "=resource.spec.tag"
    if not rf:
        if f["c"] == "ok" and f.get("noret"):       # validation-only: Ok with the value null
            return "ValueFunction", {"preconditions": [{"assert": "=true", "permFail": {"message": "never"}}]}
        if f["c"] == "ok":
            for k, t in f.get("extra") or []:      # values that have no JSON counterpart, next to the echo
                ret[k] = cel_typed(t)
            return "ValueFunction", {"return": ret}
        if f.get("how") == "eval":
            return "ValueFunction", {"return": {"site": fid, "boom": "=1/0"}}
        return "ValueFunction", {"preconditions": _pre(f["c"], f["d"]), "return": ret}
    name = rf["prefix"] if not rf["nameKey"] else f'="{rf["prefix"]}." + inputs.{rf["nameKey"]}'
    kind = rf.get("kind", KIND)
    spec = {"apiConfig": {"apiVersion": rf.get("apiVersion", API_VERSION), "kind": kind, "plural": kind.lower() + "s",
                          "name": name, "namespace": NS, "readonly": rf["mode"] in READONLY_MODES,
                          **({"deleteIfExists": True} if rf["mode"] == "delete" else {})},
            "resource": {"spec": {"want": 1}},
            "create": {"delay": f["d"]},
            "update": {"recreate" if rf["mode"] == "recreate" else "patch": {"delay": f["d"]}},
            "return": ret}
    if rf.get("cluster"):           # cluster-scoped kind: no namespace anywhere
        spec["apiConfig"]["namespaced"] = False
        del spec["apiConfig"]["namespace"]
    if rf.get("noplural"):          # the plural must be discovered (`api.lookup_kind`) on first use
        del spec["apiConfig"]["plural"]
    if f.get("noret"):
        del spec["return"]
    if rf["pre"]:
        spec["preconditions"] = _pre(f["c"], f["d"]) if f["c"] != "ok" else []
        if not spec["preconditions"]:
            del spec["preconditions"]
    return "ResourceFunction", spec


def resource_names(f):
    rf = f["rf"]
    return [rf["prefix"]] if not rf["nameKey"] else [f'{rf["prefix"]}.{it}' for it in rf.get("items", ITEMS)]


def initial_objects(case, owner_ref):
    """objects the cluster must hold so that every ResourceFunction site shows its assigned behaviour"""
    objs = {}
    for fid, f in case["fns"].items():
        rf = f.get("rf")
        if not rf or rf["pre"]:
            continue
        need = RF_MODES[rf["mode"]][2]
        if need is None:
            continue
        kind, api_version = rf.get("kind", KIND), rf.get("apiVersion", API_VERSION)
        ns = None if rf.get("cluster") else NS
        for name in resource_names(f):
            objs[(api_version, kind.lower() + "s", ns, name)] = {
                "apiVersion": api_version, "kind": kind,
                "metadata": {"name": name, **({"namespace": ns} if ns else {}), "ownerReferences": [dict(owner_ref)]},
                "spec": {"want": 2 if need == "differ" else 1, **({"tag": fid} if f.get("showres") else {})}}
    return objs


def workflow_spec(wf):
    steps = []
    for s in wf["steps"]:
        st = {"label": s["label"]}
        lg = s["logic"]
        if "ref" in lg:
            st["ref"] = _ref(lg["ref"])
        else:
            sw = lg["switch"]
            cases = []
            for k, t in sw["cases"]:
                c = {"case": k, **_ref(t)}
                if sw["default"] is not None and t == sw["default"]:
                    c["default"] = True
                cases.append(c)
            st["refSwitch"] = {"switchOn": cel_expr(sw["on"]), "cases": cases}
        if s.get("inputs") is not None:
            st["inputs"] = spec_value(s["inputs"])
        if s.get("skipIf") is not None:
            st["skipIf"] = cel_expr(s["skipIf"])
        if s.get("forEach"):
            st["forEach"] = {"itemIn": cel_expr(s["forEach"]["itemIn"]), "inputKey": s["forEach"]["inputKey"]}
        if s.get("state") is not None:
            st["state"] = spec_value(s["state"])
        if s.get("cond"):
            st["condition"] = {"type": s["cond"][0], "name": s["cond"][1]}
        steps.append(st)
    return {"steps": steps}


def _ref(t):
    if "wf" in t:
        return {"kind": "Workflow", "name": t["wf"]}
    return {"kind": None, "name": t["fn"]}   # kind filled in by koreo_specs


def koreo_specs(case):
    """[(kind, name, spec)] in an order in which every reference resolves at first prepare"""
    out = []
    kinds = {}
    for fid, f in case["fns"].items():
        kind, spec = fn_spec(fid, f)
        kinds[fid] = kind
        if f.get("absent"):      # referenced but never offered: whoever references it is not ready
            continue
        out.append((kind, f.get("name", fid), spec))     # `name`: the Koreo resource name when it is not the id
    for wf in reversed(case["defs"]):       # sub-workflows are appended after their user
        spec = workflow_spec(wf)
        for st in spec["steps"]:
            for ref in ([st["ref"]] if "ref" in st else st["refSwitch"]["cases"]):
                if ref["kind"] is None:
                    ref["kind"] = kinds[ref["name"]]
                    ref["name"] = case["fns"][ref["name"]].get("name", ref["name"])
        out.append(("Workflow", wf["name"], spec))
    return out


# --------------------------------------------------------------------------- attribution / structure helpers

def site_owner(case, name: str):
    """top-level step label on whose behalf an API request for resource `name` is made
    (site ids are `main.<label>[.<case>]`, sub-workflow sites `sub-…-sub-main.<label>[.<case>].<inner>…`)"""
    while name.startswith("sub-"):
        name = name[4:]
    for s in case["defs"][0]["steps"]:
        pfx = f"main.{s['label']}"
        if name == pfx or name.startswith(pfx + "."):
            return s["label"]
    return None


def main_steps(case):
    return case["defs"][0]["steps"]


def prune(case):
    """drop Functions and sub-workflows no longer referenced from the main workflow"""
    c = copy.deepcopy(case)
    by_name = {w["name"]: w for w in c["defs"]}
    used_wf, used_fn, todo = set(), set(), [c["main"]]
    while todo:
        name = todo.pop()
        if name in used_wf or name not in by_name:
            continue
        used_wf.add(name)
        for s in by_name[name]["steps"]:
            lg = s["logic"]
            targets = [lg["ref"]] if "ref" in lg else [t for _, t in lg["switch"]["cases"]]
            for t in targets:
                if "fn" in t:
                    used_fn.add(t["fn"])
                else:
                    todo.append(t["wf"])
    c["defs"] = [w for w in c["defs"] if w["name"] in used_wf]
    c["fns"] = {k: f for k, f in c["fns"].items() if k in used_fn}
    return c


def drop_step(case, i):
    c = copy.deepcopy(case)
    del c["defs"][0]["steps"][i]
    return c


def shrink_candidates(case):
    """smaller cases: drop a suffix of the main workflow's steps (keeps it well-formed)"""
    steps = main_steps(case)
    for k in range(1, len(steps)):
        c = copy.deepcopy(case)
        c["defs"][0]["steps"] = c["defs"][0]["steps"][:k]
        yield c
