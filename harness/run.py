"""entry point:  python harness/run.py <Cxx> <quick|thorough> [--replay file]"""
import importlib
import os
import sys
import traceback

sys.path.insert(0, os.path.dirname(os.path.abspath(__file__)))

import common  # noqa: E402


def main(argv):
    if len(argv) < 2:
        print("usage: run.py <Cxx> <quick|thorough> [--replay file]")
        return 2
    prop = argv[0].upper()
    tier = argv[1] if argv[1] in ("quick", "thorough") else os.environ.get("VERIF_TIER", "quick")
    replay = argv[argv.index("--replay") + 1] if "--replay" in argv else None
    try:
        mod = importlib.import_module(prop.lower())
    except ModuleNotFoundError:
        print(f"no check for {prop}")
        return 2
    try:
        if replay:
            return mod.replay(replay)
        return mod.run(tier)
    except common.Infra as e:
        print(f"INFRA: {e}")
        return 2
    except Exception:
        traceback.print_exc()
        print("INFRA: the check itself crashed")
        return 2


if __name__ == "__main__":
    sys.exit(main(sys.argv[1:]))
