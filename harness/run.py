"""entry point:  python harness/run.py <Cxx> <quick|thorough> [--replay file]"""
import importlib
import os
import sys
import traceback

sys.path.insert(0, os.path.dirname(os.path.abspath(__file__)))

import common  # noqa: E402


def main(argv):
    if len(argv) < 2:
        print("usage: run.py <Cxx> <quick|thorough> [--replay file]")
        return 2
    prop = argv[0].upper()
    tier = argv[1] if argv[1] in ("quick", "thorough") else os.environ.get("VERIF_TIER", "quick")
    replay = argv[argv.index("--replay") + 1] if "--replay" in argv else None
    try:
        mod = importlib.import_module(prop.lower())
    except ModuleNotFoundError:
        print(f"no check for {prop}")
        return 2
    try:
        if replay:
            return mod.replay(replay)
        return mod.run(tier)
    except common.Infra as e:
        # "a generated, well-formed definition does not prepare / is rejected / is not re-prepared" and "the
        # code no longer has the shape the harness hooks into" say something about the tree under test, not
        # about the infrastructure: on the tree the check was built against they cannot happen. The
        # correspondence no longer checks; no failing input was established.
        import re
        if not replay and re.search(r"rejected by prepare|did not prepare|does not prepare|did not re-prepare|"
                                    r"prepare failed|workflow rejected|no longer calls|out of date with", str(e)):
            import json
            rp = common.VERIF / "replay" / f"{prop}-{os.environ.get('VERIF_SEED', '0')}.json"
            rp.parent.mkdir(exist_ok=True)
            rp.write_text(json.dumps({
                "property": prop, "kind": "unproved",
                "no_longer_checks": [{"kind": "correspondence-setup",
                                      "what": "a definition the harness generates as well-formed is not accepted / "
                                              "not handled by the tree under test as by the code the check was built against",
                                      "detail": str(e)}]}, indent=1))
            print(f"VIOLATION property={prop} replay={rp} no-failing-input-found")
            return 1
        print(f"INFRA: {e}")
        return 2
    except Exception as e:
        traceback.print_exc()
        # An exception that was raised INSIDE the tree under test and that the harness does not treat as an
        # observation cannot happen on the tree the check was built for; on another tree it means the code
        # now raises where it did not, so the correspondence no longer checks.  That is not infrastructure
        # trouble: report it (no failing input was established, the traceback is the replay).
        koreo_src = os.path.join(str(common.REPO), "src", "koreo")
        frames = traceback.extract_tb(e.__traceback__)
        if not replay and frames and any(f.filename.startswith(koreo_src) for f in frames[-3:]):
            rp = common.VERIF / "replay" / f"{prop}-{os.environ.get('VERIF_SEED', '0')}.json"
            rp.parent.mkdir(exist_ok=True)
            import json
            rp.write_text(json.dumps({
                "property": prop, "kind": "unproved",
                "no_longer_checks": [{"kind": "correspondence-crash",
                                      "what": "the tree under test raised an exception the harness has never seen "
                                              "from the code it was built against",
                                      "exception": f"{type(e).__name__}: {e}",
                                      "traceback": traceback.format_exception(type(e), e, e.__traceback__)[-12:]}]},
                indent=1))
            print(f"VIOLATION property={prop} replay={rp} no-failing-input-found")
            return 1
        print("INFRA: the check itself crashed")
        return 2


if __name__ == "__main__":
    sys.exit(main(sys.argv[1:]))
