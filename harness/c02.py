"""C02 — workflow result is independent of step completion order.   (partial: aliasing / asyncio)

proof:   lean/Koreo/Props/C02.lean: for EVERY valid complete completion schedule the asynchronous semantics returns
         the sequential reference result (`schedule_independent`), forEach in source order, state merged in listed
         order, overall outcome combined in listed order
tie:     gen_wf workflows with ResourceFunction / forEach steps; the virtual-time loop realises chosen completion
         orders of the API-calling units (wf_run.run_prepared(order=…)); the implementation's full Result under each
         order is compared with the sequential pass, with every other order and with the model's single answer; the
         completion schedule the real loop produced is replayed through the Lean `runAsync` (trace inclusion)
oracle:  the Result must be the same under every order (and C01's clauses — each forEach iteration saw exactly its own
         item, in source order — must hold under every order)
NOT in the model: aliasing between forEach iterations (the per-iteration deepcopy) and collecting inside the asyncio
         tasks — only the schedule sweep can catch those.
"""
from __future__ import annotations

import itertools
import json

import c01
import gen_wf
import wf_run
from common import Check, Infra, LeanDriver, VERIF, rng

MAX_EXHAUSTIVE_UNITS = 5


def gen_case(r):
    """workflows biased towards concurrency: many ResourceFunction steps, few injected errors, shared state keys"""
    return gen_wf.gen_case(
        r, n=r.choice([2, 3, 3, 4, 4, 5, 6, 8, 10, 14]), mode=r.choice(["mixed", "mixed", "obs"]),
        rf_prob=r.choice([0.6, 0.8, 1.0]), err=r.choice([0.0, 0.0, 0.4]), p_ok=r.choice([0.85, 1.0, 1.0]),
        p_foreach=r.choice([0.22, 0.4]))


def orders_for(r, units, tier):
    """completion orders of the API-calling units to realise"""
    n = len(units)
    if n <= 1:
        return ([list(units)] if n else []), True
    if tier == "thorough" and n <= MAX_EXHAUSTIVE_UNITS:
        return [list(p) for p in itertools.permutations(units)], True
    k = 6 if tier == "quick" else 50
    if n <= 3 and tier == "quick":
        return [list(p) for p in itertools.permutations(units)], True
    out = [list(reversed(units)), list(units)]
    seen = {tuple(o) for o in out}
    tries = 0
    while len(out) < k and tries < 10 * k:
        tries += 1
        p = r.sample(units, n)
        if tuple(p) not in seen:
            seen.add(tuple(p))
            out.append(p)
    return out, False


def gap_of(n_units):
    """the slot width wf_run.run_prepared uses for an order of `n_units` units"""
    return 0.9 * wf_run.step_timeout() / (n_units + 1)


def expand_extra(extra, units, orders):
    """the extra passes of a case.  `order`: None, "reversed", or "all" (one pass per realised unit order);
    `lookup_gaps`: the discovery call takes that many slot widths (so that it ends between two slots — every call
    and the whole pass stay below the step time-out) — written as concrete `lookup_latency` seconds"""
    out = []
    for x in extra:
        x = dict(x)
        if "lookup_gaps" in x:
            x["lookup_latency"] = round(x.pop("lookup_gaps") * gap_of(len(units)), 4)
        if x.get("order") == "all":
            out += [dict(x, order=list(o)) for o in orders if not isinstance(o, dict)]
        else:
            out.append(dict(x, order=(list(reversed(units)) if x.get("order") == "reversed" else None)))
    return out


def retarget(o, units, cap=24):
    """passes equivalent to `o` for a (smaller) case whose units are `units`: a pass that names a unit order which is
    not an order of these units is tried under every order of them, the discovery keeping its length in slot widths"""
    if not o:
        return []
    if isinstance(o, dict):
        if isinstance(o.get("order"), list) and set(o["order"]) != set(units):
            lat = o.get("lookup_latency")
            if lat is not None:
                lat = round(lat / gap_of(len(o["order"])) * gap_of(len(units)), 4)
            return [dict(o, order=list(p), **({"lookup_latency": lat} if lat is not None else {}))
                    for p in itertools.islice(itertools.permutations(units), cap)]
        return [o]
    return [o] if set(o) == set(units) else []


def do_run(prep, o=None):
    """one pass; `o` is None (sequential), a completion order of the units, {"lookup_latency": seconds, "order": …}
    (the kind-discovery call takes that long) or {"uniform_latency": seconds} (every GET takes that long).  Plural discovery is made cold before every pass."""
    wf_run.cool_lookups(prep)
    if isinstance(o, dict) and "uniform_latency" in o:       # every read takes that long, whatever the order
        lat = float(o["uniform_latency"])
        return wf_run.run_prepared(prep, order=None, extra_latency=lambda i, method, key: lat if method == "GET" else 0.0)
    if isinstance(o, dict) and "repeat" in o:                # the same sequential pass once more
        return wf_run.run_prepared(prep)
    if isinstance(o, dict):
        return wf_run.run_prepared(prep, order=o.get("order"), lookup_latency=o["lookup_latency"])
    return wf_run.run_prepared(prep, order=o)


def sweep(case, prep, orders):
    """[(order, obs)] — the sequential pass first (order None)"""
    runs = [(None, wf_run.run_prepared(prep))]
    for o in orders:
        runs.append((o, do_run(prep, o)))
    return runs


def first_difference(runs):
    """(order, field) of the first pass whose Result differs from the sequential one"""
    base = wf_run.result_view_full(runs[0][1])
    for o, obs in runs[1:]:
        v = wf_run.result_view_full(obs)
        if v != base:
            keys = [k for k in v if v[k] != base[k]]
            if keys == ["texts"]:       # say which text
                a, b = base["texts"] or {}, v["texts"] or {}
                for k in ("overall", "stateErrors"):
                    if a.get(k) != b.get(k):
                        keys.append(f"{k}: {a.get(k)!r} vs {b.get(k)!r}")
                for x, y in zip(a.get("conditions") or [], b.get("conditions") or []):
                    if x != y:
                        keys.append(f"condition {x[0]}: {x[1:]!r} vs {y[1:]!r}")
                        break
            return o, keys
    return None


def order_oracle(case, runs, limit, prep=None):
    """C02's clauses on the implementation; list of (order, what)"""
    bad = []
    d = None if runs[0][1].get("rejected") else first_difference(runs)
    if d:
        bad.append((d[0], f"Result differs from the sequential pass in {d[1]} under completion order {d[0]}"))
    for o, obs in runs:
        if obs.get("rejected"):
            bad.append((o, c01.REJECTED + "; ".join(obs["rejected"])))
        elif obs.get("raised"):
            bad.append((o, f"reconcile_workflow raised {obs['raised']}"))
        elif obs["elapsed"] >= limit:
            bad.append((o, f"pass took {obs['elapsed']} virtual seconds (≥ step time-out) although every call answers in time"))
        else:
            for l, what in c01.oracle(case, obs, prep):
                bad.append((o, f"step {l}: {what}"))
        if bad:
            break
    return bad


def prepare_and_base(case):
    prep = wf_run.prepare_case(case)
    if prep.problems:       # the tree's behaviour on a well-formed definition, not infrastructure trouble
        return prep, {"rejected": [str(x)[:300] for x in prep.problems[:3]], "units": []}
    return prep, do_run(prep)


def check_case(ck, drv, r, case, tier, tag, prep=None, base=None, extra=()):
    if prep is None:
        prep, base = prepare_and_base(case)
    if base.get("rejected"):
        ck.evaluated()
        small = c01.shrink(case, lambda c: bool(wf_run.prepare_case(c).problems)) if len(ck.violations) < 3 else case
        ck.violate({"case": c01.compact(small), "order": None}, c01.REJECTED + "; ".join(base["rejected"]))
        return
    units = base["units"]
    orders, full = orders_for(r, units, tier)
    orders = list(orders) + expand_extra(extra, units, orders)
    runs = [(None, base)] + [(o, do_run(prep, o)) for o in orders]
    ck.evaluated(len(runs))
    ck.count(f"units:{min(len(units), 9)}")
    ck.count(f"src:{tag}")
    ck.count("orders", len(orders))
    if full and len(units) >= 2:
        ck.count("workflows-all-orders")
    ck.count(f"overall:{base['overall']['c']}" if not base.get("raised") else "overall:raised")
    schedules = {json.dumps(o["events"]) for _, o in runs}
    ck.count("distinct-completion-schedules", len(schedules))
    if len(schedules) >= 2:
        ck.nontriv(json.dumps(gen_wf.to_req(case), sort_keys=True))
    steps = gen_wf.main_steps(case)
    if any(s.get("forEach") for s in steps):
        ck.count("has:forEach")
    keys = [k for s in steps if s.get("state") for k, _ in s["state"]["map"]]
    if len(keys) != len(set(keys)):
        ck.count("has:shared-state-key")
    ck.sample({"case": c01.compact(case), "units": units, "orders": orders[:3],
               "schedules": sorted(schedules)[:3]}, limit=3)
    limit = wf_run.step_timeout()
    bad = order_oracle(case, runs, limit, prep)
    if bad:
        o, what = bad[0]

        def fails(c):
            p = wf_run.prepare_case(c)
            if p.problems:
                return False
            b = do_run(p)
            os_ = retarget(o, b["units"]) or orders_for(rng("shrink"), b["units"], "quick")[0]
            return bool(order_oracle(c, [(None, b)] + [(x, do_run(p, x)) for x in os_], limit, p))
        small = c01.shrink(case, fails) if len(ck.violations) < 3 else case
        if small is not case:       # name an order of the *small* case under which it fails
            try:
                p2, b2 = prepare_and_base(small)
                os2 = retarget(o, b2["units"]) + orders_for(rng("shrink"), b2["units"], "thorough")[0][:120]
                bad2 = order_oracle(small, [(None, b2)] + [(x, do_run(p2, x)) for x in os2], limit, p2)
                if bad2:
                    o, what = bad2[0]
            except Infra:
                pass
        ck.violate({"case": c01.compact(small), "order": o}, what)
    if case.get("no_model"):     # behaviour outside the model (a not-ready sub-workflow): implementation against itself only
        return
    # correspondence: every realised schedule through the model's asynchronous semantics
    reqs = [gen_wf.to_req(case, schedule=obs["events"], nschedule=obs["nevents"]) for _, obs in runs]
    answers = drv.ask(reqs)
    for (o, obs), ans in zip(runs, answers):
        if "error" in ans:
            raise Infra(f"driver: {ans['error']}")
        if obs.get("raised"):
            continue
        seq = wf_run.model_view(ans)
        diff = wf_run.compare(obs, seq)
        rel = None
        if diff:
            rel = "sequential-model-vs-implementation:" + ",".join(diff)
        elif ans.get("async") is None:
            rel = "trace-inclusion: the completion schedule of the real loop is not executable in the model"
        elif not ans["async"].get("complete"):
            rel = "trace-inclusion: the real loop's schedule leaves steps unfinished in the model"
        else:
            am = wf_run.model_view({**ans["async"], "api": []})
            adiff = wf_run.compare(obs, am)
            if adiff:
                rel = "async-model-vs-implementation:" + ",".join(adiff)
        if rel is None:      # the FULL schedule (inner steps of sub-workflows interleaved) through the nested model
            if len(obs["nevents"]) > len(obs["events"]):
                ck.count("nested-traces-with-inner-events")
            na = ans.get("nasync")
            if na is None:
                rel = "nested trace-inclusion: the full completion schedule of the real loop is not executable in the nested model"
            elif not na.get("complete"):
                rel = "nested trace-inclusion: the real loop's full schedule leaves steps unfinished in the nested model"
            else:
                ndiff = wf_run.compare(obs, wf_run.model_view({**na, "api": []}))
                if ndiff:
                    rel = "nested-async-model-vs-implementation:" + ",".join(ndiff)
        ck.count("traces_validated_against_impl")
        if rel:
            ck.disagree({"case": c01.compact(case), "order": o, "events": obs["events"], "nevents": obs["nevents"]},
                        {k: seq.get(k) for k in ("overall", "state", "conditions", "classes")},
                        {k: obs.get(k) for k in ("overall", "state", "conditions", "classes")}, rel)
            break


def run(tier: str) -> int:
    ck = Check("C02", tier)
    ck.trusted = [
        "Lean 4.33.0 kernel; axioms of every theorem ⊆ {propext, Classical.choice, Quot.sound}",
        "model lean/Koreo/Workflow.lean (sequential + asynchronous semantics) hand-transcribed from "
        "src/koreo/workflow/reconcile.py; condition reasons / status regenerated from _condition_helper "
        "(theorem condition_reasons_match_source)",
        "asyncio (task groups, wait, time-outs) is NOT modelled beyond 'a completion schedule': that the real loop's "
        "schedules are among the model's is checked by replaying each observed schedule (trace inclusion), not proved",
        "harness/vloop.py virtual-time loop, harness/cluster.py in-memory API, harness/wf_run.py, gen_wf.py, c02.py",
        "object aliasing (per-iteration deepcopy of inputs) and the place where results are collected inside asyncio "
        "are outside the functional model: covered by the completion-order sweep only",
    ]
    ck.assumptions = [
        "API calls — reads, mutations and the kind-discovery call — succeed and answer below STEP_TIMEOUT (fault-free "
        "pass); latencies are virtual",
        "the outcome of every Function depends only on its inputs and on cluster objects no other unit of the pass "
        "mutates (each reference site owns its resource names; forEach items over mutating Functions are distinct)",
        "expressions range over the generator's shapes; workflows are those prepare_workflow accepts",
    ]
    wf_run.check_constants()
    ck.prove(extractors=["WorkflowConsts"])
    drv = LeanDriver("C02")
    r = rng("c02")
    for f in sorted((VERIF / "corpus" / "C02").glob("*.json")):
        data = json.load(open(f))
        for case in data.get("cases", [data.get("case")] if data.get("case") else []):
            check_case(ck, drv, r, case, "thorough", "corpus", extra=data.get("extra") or ())
    n = 100 if tier == "quick" else 450
    try:
        for i in range(n):
            for attempt in range(4):        # prefer workflows with at least two concurrent API-calling units
                case = gen_case(r)
                prep, base = prepare_and_base(case)
                if len(base["units"]) >= 2 or (attempt == 0 and r.random() < 0.1):
                    break
            check_case(ck, drv, r, case, tier, "random", prep, base)
        # targeted: ≥ 2 non-Ok dependencies finishing on API calls in every order; conditions on the dependents
        rr = rng("c02-race")
        for i in range(25 if tier == "quick" else 250):
            check_case(ck, drv, rr, gen_wf.gen_race_case(rr), tier, "racing-non-ok-dependencies")
        # targeted (second round): slow kind discovery (below the step time-out), one kind word / namespace / name in
        # two API groups, a forEach refSwitch whose switchOn reads steps.*
        rl = rng("c02-lookup")
        slow = [{"lookup_latency": 3.5}, {"lookup_latency": 6.0}, {"lookup_latency": 9.0},
                {"lookup_latency": 4.0, "order": "reversed"}]
        for i in range(15 if tier == "quick" else 150):
            check_case(ck, drv, rl, gen_wf.gen_lookup_case(rl), tier, "slow-kind-discovery", extra=slow)
        rg = rng("c02-groups")
        for i in range(20 if tier == "quick" else 200):
            check_case(ck, drv, rg, gen_wf.gen_group_collision_case(rg), tier, "same-kind-word-two-groups")
        # sixth round: one kind word in several API groups, every plural to be discovered; the discoveries overlap or
        # not depending on the unit order and on how long a discovery takes (0.5 / 1.2 slot widths)
        rd = rng("c02-group-discovery")
        disc = [{"lookup_gaps": 1.2, "order": "all"}, {"lookup_gaps": 0.5, "order": "all"}]
        for i in range(15 if tier == "quick" else 150):
            check_case(ck, drv, rd, gen_wf.gen_group_discovery_case(rd), tier, "same-kind-word-groups-discovered", extra=disc)
        # third round: `steps` used as a whole next to a declared dependency; wide fan-outs whose every read is slow
        # (but below the step time-out); consumers applying list/map functions to one dependency value
        rc_ = rng("c02-cluster-scoped")
        for i in range(20 if tier == "quick" else 200):
            check_case(ck, drv, rc_, gen_wf.gen_cluster_scoped_case(rc_), tier, "cluster-scoped")
        rn = rng("c02-not-ready-sub")
        for i in range(12 if tier == "quick" else 120):
            check_case(ck, drv, rn, gen_wf.gen_not_ready_sub_case(rn), tier, "not-ready-sub-workflow",
                       extra=[{"repeat": 1}, {"repeat": 2}])
        rw = rng("c02-whole-steps")
        for i in range(20 if tier == "quick" else 200):
            check_case(ck, drv, rw, gen_wf.gen_whole_steps_case(rw), tier, "steps-as-a-whole")
        rf_ = rng("c02-fanout")
        slow_reads = [{"uniform_latency": 3.0}, {"uniform_latency": 4.5}, {"uniform_latency": 9.0}]
        for i in range(12 if tier == "quick" else 120):
            check_case(ck, drv, rf_, gen_wf.gen_fanout_case(rf_), "quick", "wide-fan-out-slow-reads", extra=slow_reads)
        ra = rng("c02-alias")
        for i in range(10 if tier == "quick" else 100):
            check_case(ck, drv, ra, gen_wf.gen_alias_case(ra), tier, "shared-dependency-value")
        rs = rng("c02-fe-switch")
        for i in range(15 if tier == "quick" else 150):
            check_case(ck, drv, rs, gen_wf.gen_foreach_switch_steps_case(rs), tier, "forEach-switch-on-steps")
    except Infra as e:
        if "driver" not in str(e):
            raise
        ck.notes.append(f"model driver unavailable: {e}")
        ck.build_ok = False
    ck.cov["traces_validated_against_impl"] = ck.cov["distribution"].get("traces_validated_against_impl", 0)
    if tier == "thorough":
        ck.cov["exhaustive"] = True
        ck.cov["exhaustive_space"] = (f"all completion orders of the API-calling units for every generated workflow with "
                                      f"≤ {MAX_EXHAUSTIVE_UNITS} units "
                                      f"({ck.cov['distribution'].get('workflows-all-orders', 0)} workflows); 50 random orders above")
        ck.leanchecker()

    def widen(ck):
        rr = rng("c02-widen")
        limit = wf_run.step_timeout()
        for i in range(120):
            c = gen_case(rr)
            p, b = prepare_and_base(c)
            if b.get("rejected"):
                ck.violate({"case": c01.compact(c), "order": None}, c01.REJECTED + "; ".join(b["rejected"]))
                return
            orders = orders_for(rr, b["units"], "thorough")[0]
            runs = [(None, b)] + [(o, do_run(p, o)) for o in orders[:60]]
            ck.evaluated(len(runs))
            bad = order_oracle(c, runs, limit, p)
            if bad:
                ck.violate({"case": c01.compact(c), "order": bad[0][0]}, bad[0][1])
                return

    return ck.finish(
        widen=widen,
        rule="gen_wf workflows (2-14 steps, ResourceFunction-heavy, forEach, shared state keys) each reconciled "
             "sequentially and under permuted completion orders of its API-calling units on the virtual-time loop; "
             "non-trivial = at least two different top-level completion schedules were actually realised; "
             "distinct by the whole workflow-as-data",
    )


def replay(path: str) -> int:
    data = json.load(open(path))
    rc = 0
    limit = wf_run.step_timeout()
    items = data.get("violations") or [{"case": d.get("case")} for d in data.get("no_longer_checks", []) if d.get("case")]
    for v in items:
        case, order = v["case"]["case"], v["case"].get("order")
        prep, base = prepare_and_base(case)
        orders = retarget(order, base["units"], cap=120)
        orders += orders_for(rng("replay"), base["units"], "thorough")[0][:120]
        runs = [(None, base)] + [(o, do_run(prep, o)) for o in orders]
        bad = order_oracle(case, runs, limit, prep)
        print("replay:", json.dumps({"steps": [s["label"] for s in gen_wf.main_steps(case)], "units": base["units"]}),
              "::", bad[:1])
        rc = rc or (1 if bad else 0)
    return rc
