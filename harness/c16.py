"""C16 — hot reload is coherent: dependents are re-prepared after every change.

proof:   lean/Koreo/Props/C16.lean over lean/Koreo/HotReload.lean (transition system of
         cache.py + registry.py; inductive invariant => coherent when idle, for every
         interleaving of offers, deletes and monitor steps, unbounded universe)
tie:     trace inclusion — the real prepare_and_cache / delete_from_cache are driven from one
         task on a virtual loop with 0..3 loop turns between operations; after every operation
         and every turn the public view is dumped, and the Lean driver keeps the set of model
         states consistent with the observations (closure under monitor steps)
oracle:  run to idle, then coherence / no watcher left / watched again on the implementation,
         then a probe phase that changes every dependency once more
"""
from __future__ import annotations

import asyncio
import itertools
import json

import common
from common import Check, LeanDriver, ddmin, rng
from vloop import VirtualLoop

MAX_IDLE_TURNS = 400


class Res:  # the resource class the harness caches
    pass


class Res2:  # a second kind: resources of different kinds may carry the same name
    pass


class Prepared:
    def __init__(self, name, seen, deps):
        self.name, self.seen, self.deps = name, seen, deps   # deps: what this (re)preparation declared, in order


class FakeTime:
    """strictly increasing logical clock installed as cache.time / registry.time"""

    def __init__(self):
        self.t = 0

    def monotonic(self):
        v = self.t
        self.t += 1
        return v


def rname(i):
    return f"r{i}"


class World:
    """one fresh instance of the real cache + registry with recording preparers"""

    def __init__(self, n, twin=False):
        from koreo import cache, registry
        import koreo_util

        self.cache, self.registry = cache, registry
        koreo_util.reset()
        self.n = n
        # twin: resources 2k and 2k+1 are of DIFFERENT kinds and share the name r<k> (nothing in the cache or the
        # registry may be keyed by the name alone)
        self.twin = twin
        self.G = {i: 0 for i in range(n)}          # ghost generations
        self.prepares = []                          # (resource, what it saw)
        self.offered = {}                           # resource -> tag of the spec offered last
        self.offered_version = {}
        self.spec_problems = []
        self.clock = FakeTime()
        self._saved = (cache.time, registry.time)
        cache.time = self.clock
        registry.time = self.clock

    def close(self):
        self.cache.time, self.registry.time = self._saved

    def kind(self, i):
        return Res2 if (self.twin and i % 2) else Res

    def name(self, i):
        return rname(i // 2) if self.twin else rname(i)

    def res(self, i):
        return self.registry.Resource(resource_type=self.kind(i), name=self.name(i))

    def sysdata(self, i):
        return self.cache.get_resource_system_data_from_cache(self.kind(i), self.name(i))

    async def preparer(self, cache_key, spec):
        i = spec.get("i")
        if not isinstance(i, int) or self.name(i) != cache_key:
            self.spec_problems.append(f"preparation under key {cache_key!r} was handed the spec {spec!r}")
            i = int(cache_key[1:])
        # a preparer may consume its spec (real prepare_* functions pop keys); the cache must hand every
        # (re)preparation the spec as it was offered, so this one scribbles on what it is given
        if "__scribble__" in spec or spec.get("deps") is None or spec.get("tag") != self.offered.get(i):
            self.spec_problems.append(
                f"preparation of r{i} was handed a spec that is not the offered one: {spec!r}")
        deps = list(spec["deps"])
        # like the real FunctionTest preparer, this one looks other resources up in the cache and declares
        # some dependencies only while they are there: (c, d) = "follow d if c is cached right now"
        for c, d in (spec.get("cond") or []):
            if self.sysdata(c) is not None:
                deps.append(d)
        # ... and, like every real preparer, it can FAIL: it then returns a non-Ok outcome (no subscriptions),
        # which the cache keeps under the offered version like a result
        failed = any(self.sysdata(c) is not None for c in (spec.get("fail") or []))
        spec["__scribble__"] = True
        spec["deps"] = None
        spec["cond"] = None
        spec["fail"] = None
        if failed:
            from koreo.result import PermFail
            self.G[i] += 1
            self.prepares.append((i, {}))
            return PermFail(message=f"preparation of r{i} failed", location=f"r{i}")
        seen = {d: self.G[d] for d in deps}
        self.G[i] += 1
        self.prepares.append((i, dict(seen)))
        return (Prepared(cache_key, seen, list(deps)), [self.res(d) for d in deps])

    async def offer(self, i, v, deps, cond=(), fail=()):
        sd = self.sysdata(i)
        cond = [list(p) for p in cond]
        fail = list(fail)
        tag = f"r{i}@v{v}:{sorted(deps)}:{cond}:{fail}"
        if sd is None or sd.resource_version != f"v{v}":
            self.offered[i] = tag            # a same-version offer is a cache hit: the earlier spec stays
            self.offered_version[i] = f"v{v}"
        return await self.cache.prepare_and_cache(
            resource_class=self.kind(i), preparer=self.preparer,
            metadata={"name": self.name(i), "resourceVersion": f"v{v}"},
            spec={"i": i, "deps": list(deps), "cond": cond, "fail": fail, "tag": tag})

    async def delete(self, i, ver):
        before = self.sysdata(i)
        await self.cache.delete_from_cache(self.kind(i), self.name(i), version=(f"v{ver}" if ver is not None else None))
        after = self.sysdata(i)
        if before is not None and after is None:
            self.G[i] += 1

    def observe(self):
        out = []
        for i in range(self.n):
            sd = self.sysdata(i)
            if sd is None:
                version, seen = None, []
            else:
                version = int(sd.resource_version[1:])
                r = sd.resource
                seen = [[d, r.seen.get(d)] for d in r.deps] if isinstance(r, Prepared) else \
                    ([] if self.is_failure(r) else "bad")
            subs = sorted(self.index_of(x) for x in self.registry.get_subscriptions(self.res(i)))
            out.append({"version": version, "seen": seen, "subs": subs, "gen": self.G[i]})
        return out

    def is_failure(self, r):
        from koreo.result import PermFail
        return isinstance(r, PermFail)

    def declared(self, sd):
        """what the last (re)preparation of a cached entry declared (a failed one declares nothing)"""
        return list(sd.resource.deps) if isinstance(sd.resource, Prepared) else []

    def index_of(self, resource):
        k = int(resource.name[1:])
        if not self.twin:
            return k
        return 2 * k + (1 if resource.resource_type is Res2 else 0)

    # ---- oracle pieces (implementation only)
    def incoherent(self):
        """list of (r, d, seen, current) for cached entries built from a stale dependency"""
        bad = []
        for i in range(self.n):
            sd = self.sysdata(i)
            if sd is None:
                continue
            for d in self.declared(sd):
                if sd.resource.seen.get(d) != self.G[d]:
                    bad.append((i, d, sd.resource.seen.get(d), self.G[d]))
        return bad

    def watcher_problems(self):
        probs = []
        queues = getattr(self.registry, "_SUBSCRIPTION_QUEUES", {})
        tasks = getattr(self.cache, "_REPREPARE_TASKS", {})
        for i in range(self.n):
            sd = self.sysdata(i)
            subs = sorted(self.index_of(x) for x in self.registry.get_subscriptions(self.res(i)))
            subscribers_of_others = [j for j in range(self.n)
                                     if self.res(i) in self.registry.get_subscribers(self.res(j))]
            if sd is None:
                if subs or subscribers_of_others:
                    probs.append(f"deleted r{i} still subscribed to {subs or subscribers_of_others}")
                if self.res(i) in queues:
                    probs.append(f"deleted r{i} still has a registry queue")
                t = tasks.get(self.res(i))
                if t is not None and not t.done():
                    probs.append(f"deleted r{i} still has a live monitor")
            else:
                deps = sorted(set(self.declared(sd)))     # what the LAST (re)preparation declared
                if sd.spec.get("tag") != self.offered.get(i) or self.offered_version.get(i) != sd.resource_version:
                    probs.append(f"cached r{i} is {sd.resource_version} / {sd.spec.get('tag')} but the last effective "
                                 f"offer was {self.offered_version.get(i)} / {self.offered.get(i)}")
                if subs != deps:
                    probs.append(f"cached r{i} declared {deps} but is subscribed to {subs}")
                if deps:
                    t = tasks.get(self.res(i))
                    if t is None or t.done():
                        probs.append(f"cached r{i} watches {deps} but has no live monitor")
                    if self.res(i) not in queues:
                        probs.append(f"cached r{i} watches {deps} but has no registry queue")
        return probs


async def settle(loop, world, events=None):
    """yield until nothing else is runnable"""
    for _ in range(MAX_IDLE_TURNS):
        if not loop._ready:
            return True
        await asyncio.sleep(0)
        if events is not None:
            events.append({"op": "turn", "obs": world.observe()})
    return False


def run_history(n, history, probe=True, twin=False):
    """drive the real code; returns (events for the model, oracle findings, crash)"""
    world = World(n, twin=twin)
    loop = VirtualLoop()
    events, findings = [], []
    crash = None

    async def drive():
        nextv = max([op["v"] for op in history if op["op"] == "offer"] + [0]) + 1
        for op in history:
            if op["op"] == "offer":
                await world.offer(op["r"], op["v"], op["deps"], op.get("cond") or [], op.get("fail") or [])
                events.append({"op": "offer", "r": op["r"], "v": op["v"], "deps": op["deps"],
                               "cond": op.get("cond") or [], "fail": op.get("fail") or [], "obs": world.observe()})
            else:
                await world.delete(op["r"], op.get("ver"))
                events.append({"op": "delete", "r": op["r"], "ver": op.get("ver"), "obs": world.observe()})
            for _ in range(op.get("yields", 0)):
                await asyncio.sleep(0)
                events.append({"op": "turn", "obs": world.observe()})
        if not await settle(loop, world, events):
            findings.append("did not become idle")
            return
        for b in world.incoherent():
            findings.append(f"idle but r{b[0]} was built from generation {b[2]} of r{b[1]} (current {b[3]})")
        findings.extend(world.watcher_problems())
        findings.extend(world.spec_problems[:1])
        if probe and not findings:
            # change every resource once more, one at a time, and look again
            for d in range(n):
                sd = world.sysdata(d)
                deps = list((sd.spec.get("deps") or [])) if sd else []
                cond = list((sd.spec.get("cond") or [])) if sd else []
                fail = list((sd.spec.get("fail") or [])) if sd else []
                await world.offer(d, nextv, deps, cond, fail)
                nextv += 1
                if not await settle(loop, world):
                    findings.append("did not become idle (probe)")
                    return
                for b in world.incoherent():
                    findings.append(f"after changing r{d}: r{b[0]} still built from generation {b[2]} of "
                                    f"r{b[1]} (current {b[3]})")
                if findings:
                    return

    try:
        asyncio.set_event_loop(loop)
        loop.run_until_complete(drive())
    except Exception as e:  # SubscriptionCycle cannot happen (ranked deps); anything else is a finding
        crash = repr(e)
    finally:
        try:
            for t in asyncio.all_tasks(loop):
                t.cancel()
            loop.run_until_complete(asyncio.sleep(0))
            loop.run_until_complete(asyncio.sleep(0))
        except Exception:
            pass
        asyncio.set_event_loop(None)
        loop.close()
        world.close()
    return events, findings, crash


# --------------------------------------------------------------------------- generation

def gen_history(r, n, length):
    hist = []
    cur = {}          # resource -> current version (harness-side guess, only steers generation)
    used = {i: 0 for i in range(n)}
    for _ in range(length):
        i = r.randrange(n)
        yields = r.choice([0, 0, 0, 1, 1, 2, 3])
        if r.random() < 0.68 or i not in cur:
            lower = list(range(i))
            k = r.random()
            deps = [] if not lower or k < 0.2 else [d for d in lower if r.random() < 0.6] or [r.choice(lower)]
            mode = r.random()
            if i in cur and mode < 0.15:
                v = cur[i]                      # same version: must not re-prepare
            elif used[i] > 1 and mode < 0.3:
                v = r.randint(1, used[i])       # an older version again
            else:
                used[i] += 1
                v = used[i]
            cur[i] = v
            cond = []
            if lower and r.random() < 0.35:      # dependencies declared only while some other resource is cached
                for d in lower:
                    if d not in deps and r.random() < 0.6:
                        # mostly keyed on a resource it follows anyway (the FunctionTest shape: watch the
                        # template once the function under test is there), sometimes on any other one
                        pool = deps if deps and r.random() < 0.7 else [c for c in range(n) if c != i]
                        cond.append([r.choice(pool), d])
            fail = []
            if r.random() < 0.12:                # a preparation that fails while some other resource is cached
                fail = [r.choice([c for c in range(n) if c != i] or [i])]
            hist.append({"op": "offer", "r": i, "v": v, "deps": deps, "cond": cond, "fail": fail, "yields": yields})
        else:
            mode = r.random()
            if mode < 0.7:
                ver = None
            elif mode < 0.85:
                ver = cur[i]
            else:
                ver = cur[i] + 7                # stale version: must not delete
            if ver is None or ver == cur[i]:
                cur.pop(i, None)
            hist.append({"op": "delete", "r": i, "ver": ver, "yields": yields})
    return hist


def exhaustive_histories(n, length, yields=(0, 1, 2), dynamic=False):
    """all histories of `length` ops over n resources with fresh versions, full dependency sets
    on lower ranks, plain deletes, and 0..2 turns after each op; with `dynamic` every offer may
    also carry one cache-dependent dependency (c, d): d lower and not static, c any other resource"""
    alphabet = []
    for i in range(n):
        lower = list(range(i))
        for k in range(len(lower) + 1):
            for deps in itertools.combinations(lower, k):
                alphabet.append(("offer", i, (list(deps), [])))
                if dynamic:
                    for d in lower:
                        if d not in deps:
                            for c in range(n):
                                if c != i:
                                    alphabet.append(("offer", i, (list(deps), [[c, d]])))
        alphabet.append(("delete", i, None))
    for ops in itertools.product(alphabet, repeat=length):
        for ys in itertools.product(list(yields), repeat=length):
            used = {i: 0 for i in range(n)}
            hist = []
            for (kind, i, deps), y in zip(ops, ys):
                if kind == "offer":
                    used[i] += 1
                    hist.append({"op": "offer", "r": i, "v": used[i], "deps": deps[0], "cond": deps[1], "yields": y})
                else:
                    hist.append({"op": "delete", "r": i, "ver": None, "yields": y})
            yield hist


def nontrivial(hist):
    """a dependency exists, something is changed after a dependent was built, and a delete occurs"""
    has_dep = any(op["op"] == "offer" and (op["deps"] or op.get("cond")) for op in hist)
    return has_dep and len(hist) >= 3


def world_redeclared(events):
    """did a loop turn (i.e. a background re-preparation) change what some resource follows?"""
    prev = None
    for e in events:
        subs = [o["subs"] for o in e["obs"]]
        if e["op"] == "turn" and prev is not None and subs != prev:
            return True
        prev = subs
    return False


def failed_in_background(events):
    """did a loop turn (a background re-preparation) leave a resource cached under the same version but
    following nothing, although it followed something before the turn?"""
    prev = None
    for e in events:
        if e["op"] == "turn" and prev is not None:
            for o0, o1 in zip(prev, e["obs"]):
                if o0["version"] is not None and o1["version"] == o0["version"] and o0["subs"] and not o1["subs"]:
                    return True
        prev = e["obs"]
    return False


def strip_obs(events):
    return [{k: v for k, v in e.items() if k != "obs"} for e in events]


def check_history(ck, drv_batch, n, hist, twin=False):
    events, findings, crash = run_history(n, hist, twin=twin)
    if twin:
        ck.count("histories-with-same-name-resources-of-two-kinds")
    ck.count("ops:offer-whose-preparation-can-fail", sum(1 for o in hist if o["op"] == "offer" and o.get("fail")))
    if any(e["op"] == "turn" for e in events) and failed_in_background(events):
        ck.count("histories-where-a-background-re-preparation-failed")
    ck.evaluated()
    ck.count(f"len:{len(hist)}")
    ck.count("ops:offer", sum(1 for o in hist if o["op"] == "offer"))
    ck.count("ops:delete", sum(1 for o in hist if o["op"] == "delete"))
    ck.count("turn-events", sum(1 for e in events if e["op"] == "turn"))
    ck.count("ops:offer-with-cache-dependent-deps", sum(1 for o in hist if o["op"] == "offer" and o.get("cond")))
    if world_redeclared(events):
        ck.count("histories-where-a-background-re-preparation-changed-the-declared-dependencies")
    if any(o["op"] == "delete" and i + 1 < len(hist) and hist[i + 1]["op"] == "offer"
           and hist[i + 1]["r"] == o["r"] and o.get("yields", 0) == 0 for i, o in enumerate(hist)):
        ck.count("delete-then-offer-same-resource-no-turn")
    if nontrivial(hist):
        ck.nontriv(json.dumps(hist, sort_keys=True))
    if crash or findings:
        what = crash or findings[0]

        def fails(sub):
            _, f2, c2 = run_history(n, sub, twin=twin)
            return bool(f2 or c2)

        small = ddmin(hist, fails)
        _, f2, c2 = run_history(n, small, twin=twin)
        ck.violate({"n": n, "twin": twin, "history": small}, c2 or (f2[0] if f2 else what))
    else:
        drv_batch.append(({"n": n, "twin": twin, "history": hist}, {"n": n, "events": events}))
    ck.sample({"n": n, "history": hist, "events": len(events)}, limit=3)


def flush(ck, drv, batch):
    if not batch:
        return
    try:
        answers = drv.ask([req for _, req in batch])
    except common.Infra as e:
        ck.notes.append(f"model driver unavailable: {e}")
        ck.build_ok = False
        batch.clear()
        return
    for (case, req), ans in zip(batch, answers):
        if isinstance(ans, dict) and "error" in ans:
            ck.disagree(case, ans, None, "trace-inclusion(driver error)")
            continue
        for k, a in enumerate(ans):
            ck.cov["traces_validated_against_impl"] = ck.cov.get("traces_validated_against_impl", 0)
            if a["candidates"] == 0:
                ev = req["events"][k]
                ck.disagree(case, {"event_index": k, "event": {x: ev[x] for x in ev if x != "obs"}},
                            ev["obs"], "trace-inclusion: no model state explains the observed view")
                break
        else:
            ck.cov["traces_validated_against_impl"] += 1
    batch.clear()


def corpus_cases():
    d = common.VERIF / "corpus" / "C16"
    out = []
    if d.is_dir():
        for f in sorted(d.glob("*.json")):
            out.append(json.loads(f.read_text()))
    return out


def run(tier: str) -> int:
    ck = Check("C16", tier)
    ck.trusted = [
        "Lean 4.33.0 kernel; axioms of every theorem ⊆ {propext, Classical.choice, Quot.sound}",
        "model lean/Koreo/HotReload.lean hand-written from cache.py/registry.py (atomic offers/deletes, monitor steps); "
        "tied to the code by trace inclusion in this run only",
        "asyncio (task wake-ups, cancellation, LifoQueue) — not modelled; the harness drives the real loop turn by turn",
        "time.monotonic replaced by a strictly increasing logical clock in the harness",
    ]
    ck.assumptions = [
        "preparers never suspend and never raise (true of every real prepare_*; C20)",
        "declared dependencies are acyclic (ranked) so SubscriptionCycle never fires",
        "two reads of the clock never return the same value",
        "the dependencies a preparer declares are a function of the spec and of which resources are cached at that "
        "moment (what the real preparers look at)",
    ]
    ck.prove(extractors=["CacheFacts"])
    drv = LeanDriver("C16")
    batch: list = []
    r = rng("c16")

    for case in corpus_cases():
        ck.count("corpus")
        check_history(ck, batch, case["n"], case["history"], twin=bool(case.get("twin")))

    n_hist = 1500 if tier == "quick" else 20000
    for _ in range(n_hist):
        n = r.choice([3, 3, 4, 5])
        check_history(ck, batch, n, gen_history(r, n, r.randint(2, 12)), twin=r.random() < 0.3)
        if len(batch) >= 200:
            flush(ck, drv, batch)
    flush(ck, drv, batch)

    exhaustive = False
    if tier == "thorough":
        for L in (1, 2, 3, 4):
            for hist in exhaustive_histories(3, L, yields=(0, 1, 2) if L < 4 else (0, 1)):
                check_history(ck, batch, 3, hist)
                if len(batch) >= 500:
                    flush(ck, drv, batch)
        flush(ck, drv, batch)
        for L in (1, 2, 3):
            for hist in exhaustive_histories(3, L, yields=(0, 1, 2) if L < 3 else (0, 1), dynamic=True):
                if any(o.get("cond") for o in hist):
                    check_history(ck, batch, 3, hist)
                    if len(batch) >= 500:
                        flush(ck, drv, batch)
        flush(ck, drv, batch)
        exhaustive = True
        ck.cov["exhaustive_box"] = "all histories of <=3 operations over 3 resources (every dependency set on lower " \
                                   "ranks, plain deletes) x turn placements {0,1,2} after each operation, and all " \
                                   "histories of 4 operations x turn placements {0,1}; plus all histories of <=3 operations in which " \
                                   "offers may carry one cache-dependent dependency (turn placements {0,1,2}, {0,1} at 3)"
        ck.leanchecker()
    ck.cov["exhaustive"] = exhaustive
    def widen(ck2):
        """proof or correspondence broke without a failing input so far: search harder (oracle only)"""
        r2 = rng("c16-widen")
        for _ in range(6000):
            n = r2.choice([3, 4, 5])
            check_history(ck2, [], n, gen_history(r2, n, r2.randint(2, 14)), twin=r2.random() < 0.3)
            if ck2.violations:
                return

    return ck.finish(
        widen=widen,
        rule="random histories of 2-12 offer/delete operations over 3-5 resources with ranked dependency sets, "
             "dependencies declared only while another resource is cached (35% of offers), "
             "same/new/old versions, plain/versioned/stale deletes, 0-3 loop turns after each operation, then run to "
             "idle and a probe phase; non-trivial = at least 3 operations and some declared dependency; distinct by history",
    )


def replay(path: str) -> int:
    data = json.load(open(path))
    rc = 0
    for v in data.get("violations", []):
        case = v["case"]
        _, findings, crash = run_history(case["n"], case["history"], twin=bool(case.get("twin")))
        print("replay:", json.dumps(case), "->", crash or findings)
        rc = rc or (1 if (crash or findings) else 0)
    return rc
