"""In-memory, kr8s-compatible API object (DESIGN.md section 4).

It implements exactly what koreo and kr8s' APIObject need from an `api`:
`call_api` (async context manager), `async_get`, `lookup_kind`, `namespace`.

  * objects are stored by (apiVersion, plural, namespace-or-None, name);
  * POST stores (409 if present), PATCH applies RFC 7386 merge-patch (404 if absent),
    DELETE removes (404 if absent), GET reads;
  * every request is logged (`cluster.log`): method, plural, name, namespace argument, body;
  * `faults[i]` injects a fault at the i-th API call (0-based, GETs included):
      "raise-before" | "raise-after" | 404 | 409 | 500 | "hang" | any other HTTP status (403, 429, …) |
      "no-response" (kr8s.ServerError without a response);
  * `latency(i, method, key)` (seconds, virtual) is slept before the call takes effect;
  * `decorate(obj)` is applied to whatever the server stores (server-side bookkeeping);
  * `lookups` records every `lookup_kind` discovery call; with `log_lookups = True` they also appear
    in `log` as method "LOOKUP" entries (without a call index, so fault indices do not shift);
    kinds listed in `unknown_kinds` make the discovery raise ValueError (as kr8s does).
"""
from __future__ import annotations

import asyncio
import copy
import json
from contextlib import asynccontextmanager

import kr8s


class FakeResponse:
    def __init__(self, status_code: int, data=None):
        self.status_code = status_code
        self._data = data

    def json(self):
        return copy.deepcopy(self._data)

    @property
    def text(self):
        return json.dumps(self._data)


class InjectedFault(Exception):
    """an arbitrary exception raised by the API layer"""


def merge_patch(target, patch):
    """RFC 7386"""
    if not isinstance(patch, dict):
        return copy.deepcopy(patch)
    if not isinstance(target, dict):
        target = {}
    out = dict(target)
    for k, v in patch.items():
        if v is None:
            out.pop(k, None)
        else:
            out[k] = merge_patch(out.get(k), v)
    return out


class Cluster:
    def __init__(self, objects=None, faults=None, latency=None, decorate=None, namespace="default"):
        self.objects: dict[tuple, dict] = dict(objects or {})
        self.log: list[dict] = []
        self.faults: dict[int, object] = dict(faults or {})
        self.latency = latency
        self.decorate = decorate
        self._namespace = namespace
        self.calls = 0
        self.tag = None          # harness-set label (e.g. the step being run) copied into log entries
        self.lookups: list[str] = []   # every kind-to-plural discovery (`lookup_kind`) that reached the API
        self.log_lookups = False       # opt-in: also put them into `log` as method "LOOKUP" (no call index)
        self.unknown_kinds: set[str] = set()   # opt-in: base kind names the discovery does not know (ValueError)
        self.lookup_latency = None     # opt-in: seconds (or callable kind -> seconds) a discovery call takes

    # ---- what kr8s / koreo use
    @property
    def namespace(self):
        return self._namespace

    async def lookup_kind(self, kind: str):
        base = kind.split(".")[0]
        self.lookups.append(kind)
        if self.log_lookups:   # a discovery round-trip is an API call too; it does not consume a fault index
            self.log.append({"i": None, "method": "LOOKUP", "version": None, "plural": None, "namespace_arg": None,
                             "name": kind, "body": None, "fault": None, "tag": self.tag, "applied": True})
        if self.lookup_latency:
            lat = self.lookup_latency(kind) if callable(self.lookup_latency) else self.lookup_latency
            if lat:
                await asyncio.sleep(lat)
        if base in self.unknown_kinds:     # what kr8s raises for a kind the API server does not serve
            raise ValueError(f"Kind {kind} not found.")
        return (None, base.lower() + "s", True)

    async_lookup_kind = lookup_kind

    async def async_get(self, kind, *names, namespace=None, **kwargs):
        cls = kind
        name = names[0] if names else None
        key = (cls.version, cls.endpoint, namespace if cls.namespaced else None, name)
        entry = await self._begin("GET", key, namespace, None)
        fault = entry["fault"]
        if fault in (404,):
            raise kr8s.NotFoundError(f"{name} not found (injected)")
        if fault == "raise-after":      # the server answered, the client failed afterwards (C09)
            raise InjectedFault("injected after GET")
        obj = self.objects.get(key)
        if obj is None:
            return
        yield cls(api=self, resource=copy.deepcopy(obj), namespace=namespace if cls.namespaced else None)

    @asynccontextmanager
    async def call_api(self, method="GET", version="v1", base="", namespace=None, url="", raise_for_status=True,
                       stream=False, **kwargs):
        data = kwargs.get("data")
        body = json.loads(data) if data else None
        parts = url.split("/")
        plural = parts[0]
        if method == "POST":
            name = ((body or {}).get("metadata") or {}).get("name") if isinstance((body or {}).get("metadata"), dict) else None
        else:
            name = parts[1] if len(parts) > 1 else None
        key = (version, plural, namespace, name)
        entry = await self._begin(method, key, namespace, body)
        fault = entry["fault"]
        if fault == "raise-after":
            self._apply(method, key, body)
            raise InjectedFault(f"injected after {method}")
        status, result = self._apply(method, key, body)
        if status >= 400:
            raise kr8s.ServerError(f"injected/served {status}", status=str(status), response=FakeResponse(status, result))
        entry["applied"] = True
        yield FakeResponse(status, result)

    # ---- internals
    async def _begin(self, method, key, namespace, body):
        i = self.calls
        self.calls += 1
        fault = self.faults.get(i)
        entry = {"i": i, "method": method, "version": key[0], "plural": key[1], "namespace_arg": namespace,
                 "name": key[3], "body": copy.deepcopy(body), "fault": fault, "tag": self.tag, "applied": False}
        self.log.append(entry)
        if self.latency is not None:
            lat = self.latency(i, method, key)
            if lat:
                await asyncio.sleep(lat)
        if fault == "hang":
            await asyncio.Event().wait()
        if fault == "no-response":     # a ServerError that carries no HTTP response at all (C09)
            raise kr8s.ServerError("injected: no response", response=None)
        if fault == "raise-before":
            raise InjectedFault(f"injected before {method}")
        if isinstance(fault, int) and not (method == "GET" and fault == 404):
            raise kr8s.ServerError(f"injected {fault}", status=str(fault), response=FakeResponse(fault, {"code": fault}))
        return entry

    def _apply(self, method, key, body):
        if method == "GET":
            obj = self.objects.get(key)
            return (200, obj) if obj is not None else (404, {"code": 404})
        if method == "POST":
            if key in self.objects:
                return 409, {"code": 409}
            obj = copy.deepcopy(body)
            if self.decorate:
                obj = self.decorate(obj)
            self.objects[key] = obj
            return 201, obj
        if method == "PATCH":
            if key not in self.objects:
                return 404, {"code": 404}
            obj = merge_patch(self.objects[key], body)
            if self.decorate:
                obj = self.decorate(obj)
            self.objects[key] = obj
            return 200, obj
        if method == "DELETE":
            if key not in self.objects:
                return 404, {"code": 404}
            del self.objects[key]
            return 200, {"status": "Success"}
        return 405, {"code": 405}

    # ---- conveniences for harnesses
    def mutations(self, since: int = 0):
        return [e for e in self.log[since:] if e["method"] in ("POST", "PATCH", "DELETE")]

    def put(self, version, plural, namespace, name, obj):
        self.objects[(version, plural, namespace, name)] = copy.deepcopy(obj)

    def get(self, version, plural, namespace, name):
        return self.objects.get((version, plural, namespace, name))

    def snapshot(self):
        return copy.deepcopy(self.objects)


def run(coro):
    """run a coroutine on a fresh event loop"""
    loop = asyncio.new_event_loop()
    try:
        return loop.run_until_complete(coro)
    finally:
        loop.close()
