"""C04 — ResourceFunction reaches a fixpoint: no mutation once the target is met.

proof:   lean/Koreo/Props/C04.lean over Koreo/Compare.lean, Koreo/Reconcile45.lean, Koreo/MergePatch.lean
tie:     (a) constants regenerated from constants.py (Gen/Compare45.lean),
         (b) unit level: real `validate_match` vs `validateMatch` on generated (target, live, last-applied) triples,
         (c) end to end: generated ResourceFunctions reconciled 3x against the in-memory cluster with server-side
             decoration between passes, each pass compared with the model's `pass`
oracle:  live Meets target (+ owner reference) => no POST/PATCH/DELETE and the Ok path; any mutation => Retry with the
         configured delay; the pass right after a create/patch mutates nothing
"""
from __future__ import annotations

import copy
import json
from pathlib import Path

import gen_rf45 as g
import rf45
from common import VERIF, Check, LeanDriver, rng

PROP = "C04"


def input_change(r, p):
    """(program, stored, steps, per-pass programs) or None — the function's inputs change once between passes:
    create with inputs A, (a quiet pass,) the value of one input-driven leaf changes (inputs B: one correction under
    patch / recreate), then unchanged passes with inputs B, which have to be quiet.  Most of the time the leaf
    sits below a key listed in x-koreo-compare-last-applied (where the comparison reads the annotation koreo
    wrote, not the live value)."""
    if not p.get("createEnabled", True):
        return None
    if r.random() < 0.7 or not p.get("planted"):
        p = rf45.add_input_subtree(r, p, la=r.random() < 0.8)
    got = rf45.vary_inputs(r, p)
    if got is None:
        return None
    pb, _ = got
    t = rf45.target_of(p)
    tb = rf45.target_of(pb)

    def deco_a(cur):
        return None if cur is None else g.decorate_object(r, t, cur)

    def deco_b(cur):
        return None if cur is None else g.decorate_object(r, tb, cur)

    c = r.random()
    if c < 0.5:
        steps, progs = [None, None, None, None, None], [p, p, pb, pb, pb]
    elif c < 0.7:
        steps, progs = [None, None, None, None], [p, pb, pb, pb]
    elif c < 0.85:
        steps, progs = [None, None, None, deco_b, None], [p, p, pb, pb, pb]
    else:           # and back again: A -> B -> A
        steps, progs = [None, None, None, None, None], [p, pb, pb, p, p]
    if p["policy"] == "recreate":
        steps, progs = steps + [None], progs + [progs[-1]]
    return p, None, steps, progs


def scenarios(r, p):
    """(initial stored object, steps, faults) — create then decorate twice; co-owners; an error answer to the GET"""
    stored, steps = _scenarios(r, p)
    faults = None
    if r.random() < 0.2:
        # one pass whose GET is answered 4xx / 5xx / raises — over an object that meets the target or a drifted one
        t = rf45.target_of(p)
        i = r.randrange(1, len(steps)) if len(steps) > 1 else 0
        faults = {i: r.choice(rf45.GET_FAULTS)}
        if r.random() < 0.5:
            old = steps[i]

            def drifted(cur, old=old):
                cur = old(cur) if old is not None else cur
                if cur is None:
                    return None
                d = g.drift(r, t, cur, exclude=rf45.identity_path)
                return d[0] if d else cur
            steps = list(steps)
            steps[i] = drifted
        steps = list(steps) + [None]
    return stored, steps, faults


def _scenarios(r, p):
    t = rf45.target_of(p)

    def deco(cur):
        return None if cur is None else g.decorate_object(r, t, cur)

    def deco_drop_owner(cur):
        cur = deco(cur)
        if cur is not None and isinstance(cur.get("metadata"), dict):
            cur["metadata"].pop("ownerReferences", None)
        return cur

    def deco_co_owned(cur):
        """another actor adds its own owner reference next to the parent's (before / after / both)"""
        cur = deco(cur)
        if cur is not None and isinstance(cur.get("metadata"), dict):
            refs = cur["metadata"].get("ownerReferences")
            if isinstance(refs, list):
                refs = [x for x in refs if not str(x.get("uid", "")).startswith("uid-foreign")]
                other = lambda i: {"apiVersion": "v1", "kind": "Other", "name": f"o{i}", "uid": f"uid-foreign-{i}"}
                where = r.choice(["before", "after", "both"])
                if where in ("before", "both"):
                    refs = [other(1)] + refs
                if where in ("after", "both"):
                    refs = refs + [other(2)]
                cur["metadata"]["ownerReferences"] = refs
        return cur

    def deco_foreign_only(cur):
        """the parent's reference is gone, another actor's is there: the patch must add ours and keep theirs"""
        cur = deco(cur)
        if cur is not None and isinstance(cur.get("metadata"), dict) and "ownerReferences" in cur["metadata"]:
            cur["metadata"]["ownerReferences"] = [{"apiVersion": "v1", "kind": "Other", "name": "o9", "uid": "uid-foreign-9"}]
        return cur

    def deco_stale_parent(cur):
        """the parent was deleted and re-created under the same name: its old reference (same apiVersion / kind /
        name, another uid) is still listed; ours has to be added (the check is by uid)"""
        import koreo_util as ku

        cur = deco(cur)
        if cur is not None and isinstance(cur.get("metadata"), dict) and "ownerReferences" in cur["metadata"]:
            stale = dict(copy.deepcopy(ku.OWNER_REF), uid="uid-parent-before-recreation")
            cur["metadata"]["ownerReferences"] = [stale]
        return cur

    if not p.get("createEnabled", True):      # may not create: the object is provisioned elsewhere
        return rf45.synth_stored(p), [deco, deco_co_owned if r.random() < 0.3 else deco, None]
    c = r.random()
    if c < 0.5:
        return None, [None, deco, deco]
    if c < 0.6:
        return None, [None, None, deco]
    if c < 0.85:
        return None, [None, deco_co_owned, deco_co_owned, None]
    if c < 0.90:
        return None, [None, deco_foreign_only, None, None]
    if c < 0.95:
        return None, [None, deco_stale_parent, None, None]
    return None, [None, deco_drop_owner, None]


def check_scenario(ck, drv, p, stored, steps, faults=None, programs=None):
    got = rf45.run_scenario(ck, drv, p, stored, steps, faults=faults, programs=programs)
    if got is None:
        return
    obs, _ = got
    t = rf45.target_of(p)
    if rf45.in_c04_domain(p, t):
        ck.nontriv(("e", rf45.cn(p["T"]), p["policy"], rf45.cn([o["before"] for o in obs])))
    prev = None
    for o in obs:
        pp = o.get("p") or p                       # the program (inputs, target) this pass ran with
        chained = prev if prev is not None and rf45.cn(prev["after"]) == rf45.cn(o["before"]) else None
        if chained is not None and chained.get("fault") is not None:
            chained = None
        # "repeated reconciliation with unchanged inputs": the pass before ran with the same target
        if chained is not None and rf45.cn((chained.get("p") or p)["T"]) != rf45.cn(pp["T"]):
            chained = None
        if programs is not None and prev is not None and rf45.cn((prev.get("p") or p)["T"]) != rf45.cn(pp["T"]):
            ck.count(f"e2e:inputs-changed:{pp['policy']}:{'+'.join(q['m'] for q in o['reqs']) or 'none'}")
        bad = rf45.oracle_c04_pass(pp, o, chained)
        if bad:
            befores = ([chained["before"]] if chained is not None and "right after" in bad else []) + [o["before"]]
            case = {"kind": "e2e", "p": pp, "befores": befores}
            if o.get("fault") is not None:
                case["faults"] = {str(len(befores) - 1): o["fault"]}
            ck.violate(case, bad)
        prev = o


def replay_case(case, verbose=True) -> str | None:
    if case.get("kind") == "unit":
        iv = rf45.impl_vm(case["t"], case["live"], case["la"])
        bad = rf45.oracle_c04_unit(case, iv)
        if verbose:
            print("replay(unit):", json.dumps({k: case[k] for k in ("t", "live", "la")}), "->", iv, "::", bad)
        return bad
    p, befores = case["p"], case["befores"]
    steps = [(lambda cur, b=b: copy.deepcopy(b)) for b in befores]
    obs = rf45.Prepared(p).run_passes(None, [steps[0]] + [None] * (len(befores) - 1), case.get("faults"))
    if obs and "prepare" in obs[0]:
        return None
    bad, prev = None, None
    for o in obs:
        bad = bad or rf45.oracle_c04_pass(p, o, prev)
        prev = o if o.get("fault") is None else None
    if verbose:
        print("replay(e2e):", json.dumps(rf45.program_spec(p)[0])[:400], "->",
              [(o["o"], [q["m"] for q in o["reqs"]]) for o in obs], "::", bad)
    return bad


def run(tier: str) -> int:
    ck = Check(PROP, tier)
    ck.trusted = rf45.TRUSTED
    ck.assumptions = rf45.ASSUMPTIONS
    ck.prove(extractors=["Compare45"])
    drv = LeanDriver(PROP)

    for f in sorted((VERIF / "corpus" / PROP).glob("*.json")):
        for case in json.loads(f.read_text()).get("cases", []):
            ck.evaluated()
            ck.count("corpus")
            bad = replay_case(case, verbose=False)
            if bad:
                ck.violate({**case, "corpus": f.name}, bad)

    quick = tier == "quick"
    rf45.unit_phase(ck, drv, 20000 if quick else 300000,
                    {"decorated": 6, "drift": 3, "random": 1, "malformed": 1}, rf45.oracle_c04_unit, "c04-unit")
    rf45.update_phase(ck, drv)
    r = rng("c04-e2e")
    for _ in range(400 if quick else 4000):
        p = rf45.gen_program(r, nulls=r.random() < 0.05)
        stored, steps, faults = scenarios(r, p)
        check_scenario(ck, drv, p, stored, steps, faults)
    r = rng("c04-e2e-inputs")
    for _ in range(120 if quick else 1200):
        ic = input_change(r, rf45.gen_program(r))
        if ic is not None:
            check_scenario(ck, drv, ic[0], ic[1], ic[2], None, ic[3])
    if not quick:
        ck.leanchecker()

    def widen(ck):
        rf45.unit_phase(ck, drv, 60000, {"decorated": 8, "drift": 1}, rf45.oracle_c04_unit, "c04-widen")
        r2 = rng("c04-widen-e2e")
        for _ in range(300):
            p = rf45.gen_program(r2)
            stored, steps, faults = scenarios(r2, p)
            check_scenario(ck, drv, p, stored, steps, faults)
            ic = input_change(r2, rf45.gen_program(r2)) if r2.random() < 0.3 else None
            if ic is not None:
                check_scenario(ck, drv, ic[0], ic[1], ic[2], None, ic[3])

    return ck.finish(
        widen=widen,
        rule="unit: generated targets (nested set / keyed / last-applied directives, depth <= 3) x live objects built by "
             "decorating the payload (extra keys at any depth, status, metadata bookkeeping, shuffled / duplicated set "
             "members, shuffled keyed lists with extra members, 1 -> 1.0, anything under last-applied-directed keys), by one "
             "drift at a target-specified path, at random, or against a malformed target; non-trivial = well-formed target "
             "and (live meets it, or live has drift), distinct by (target, live, last-applied). end to end: generated "
             "ResourceFunctions (inline / template target, overlays, input-driven leaves, create overlay, each update "
             "policy, owned or not) x 3 passes with decoration between; non-trivial = target in the stated domain, "
             "distinct by (target, policy, stored objects)",
    )


def replay(path: str) -> int:
    data = json.load(open(path))
    cases = [v["case"] for v in data.get("violations", [])] or data.get("cases", [])
    rc = 0
    for case in cases:
        rc = max(rc, 1 if replay_case(case) else 0)
    return rc
