"""C15 — cache keyed by resourceVersion: prepare once per version, latest wins.

proof:   lean/Koreo/Props/C15.lean over lean/Koreo/Cache.lean
tie:     random offer / delete / lookup histories through koreo.cache and through the compiled model.
         Family A (sequential): counting preparers that may DECLARE subscriptions, including ones that
         close a subscription cycle (the offer then raises SubscriptionCycle after having cached); the
         event loop never turns between operations, so monitor tasks are created but never run.
         Observables after every op: returned / prepared object (identity as the serial of the preparer
         call that made it), preparer call count, both lookups of every key.
         The clock koreo.cache reads is the harness's (`Clock`): `elapse` ops let seconds pass between
         operations (the model: `Op.elapse`, the identity), failing preparers return Retry with delays
         0 / 1 / 5 / 60 (default) / 600.
         Family B (loop turns): small histories with acyclic subscriptions and `await sleep(0)` turns so
         that monitors re-prepare in the background — successfully or, for watchers whose preparation
         needs what they watch to be cached and Ok, failing; oracle only (C16 owns the model of monitors).
oracle:  the property's clauses against a plain dict kept by the harness, independent of the model
"""
from __future__ import annotations

import asyncio
import json

from common import Check, Infra, LeanDriver, VERIF, rng

CORPUS = VERIF / "corpus" / "C15"

NAMES = ["a", "b", "c"]
VERSIONS = ["1", "2", "3"]


class Kind0: ...


class Kind1: ...


KINDS = [Kind0, Kind1]


def metadata(op):
    """the Kubernetes `metadata` an op carries: name, resourceVersion (when given) and whatever else the
    object has — generation, uid, labels, annotations, managedFields, creationTimestamp"""
    m = {"name": op["name"]}
    if op.get("version") is not None:
        m["resourceVersion"] = op["version"]
    m.update(op.get("meta") or {})
    return m


def expand_spec(spec):
    """the spec dict handed to the real code.  `{"deep": n}` is a marker: only here does it become a value
    nested n levels (built iteratively); the harness never walks, copies, compares or prints that value."""
    out = {"id": spec["id"], "fail": spec["fail"]}
    if "subs" in spec:
        out["subs"] = spec["subs"]
    n = spec.get("deep") or 0
    if n:
        inner = {"leaf": 1}
        for i in range(n):
            inner = {"d": inner} if i % 3 else [inner]
        out["nest"] = inner
    return out


def realistic_meta(r, kind, name, generation):
    m = {"uid": f"uid-{kind}-{name}", "creationTimestamp": "2025-01-01T00:00:00Z"}
    if generation is not None:
        m["generation"] = generation
    y = r.random()
    if y < 0.5:
        m["labels"] = r.choice([{}, {"app": "x"}, {"koreo.dev/active": "false"}, {"koreo.dev/active": "True", "team": "t"}])
    if y > 0.3:
        m["annotations"] = r.choice([{}, {"note": str(r.randrange(100))}, {"kubectl.kubernetes.io/last-applied-configuration": "{}"}])
    if r.random() < 0.4:
        m["managedFields"] = [{"manager": r.choice(["kubectl", "koreo"]), "operation": "Update"}]
    return m


class Clock:
    """what koreo.cache and koreo.registry see as the `time` module while C15 runs: the real monotonic
    clock plus the seconds the histories let pass (`elapse` ops).  Strictly advancing like the real one,
    shared by both modules, never set back; everything else is the real `time` module."""

    def __init__(self):
        import time
        self._time = time
        self.offset = 0.0

    def monotonic(self):
        return self._time.monotonic() + self.offset

    def __getattr__(self, name):
        return getattr(self._time, name)


CLOCK = Clock()


def install_clock(cache):
    """True when the cache module's clock is under the harness's control"""
    import time
    from koreo import registry
    ok = False
    for mod in (cache, registry):
        if getattr(mod, "time", None) is time or isinstance(getattr(mod, "time", None), Clock):
            mod.time = CLOCK
            ok = ok or mod is cache
        if getattr(mod, "monotonic", None) is time.monotonic:
            mod.monotonic = CLOCK.monotonic
            ok = ok or mod is cache
    return ok


class Tok:
    """a prepared resource; some are falsy on purpose (truthiness must not matter to the cache)"""

    def __init__(self, truthy):
        self.truthy = truthy

    def __bool__(self):
        return self.truthy


class World:
    """one history against the real module"""

    def __init__(self, cache, result, kutil):
        from koreo import registry
        self.cache, self.result, self.registry = cache, result, registry
        kutil.reset()
        self.calls = 0
        self.made = []          # objects the preparers returned, index = serial
        self.desc = {}          # id(obj) -> (serial, descriptor)
        self.bad_args = None

    def preparer(self, kind_idx, offered_spec, subs=(), delay=None):
        declared = [self.registry.Resource(resource_type=KINDS[k], name=n) for k, n in subs]

        async def prepare(name, spec):
            serial = self.calls
            self.calls += 1
            if "nest" not in spec and (spec is offered_spec or spec != offered_spec):
                self.bad_args = "preparer did not get an equal deep copy of the offered spec"
            d = {"c": "failed" if spec.get("fail") else "ok", "kind": kind_idx, "name": name, "id": spec.get("id")}
            if spec.get("fail"):
                if serial % 2:
                    obj = self.result.PermFail(message=f"boom {serial}")
                elif delay is None:
                    obj = self.result.Retry(message=f"boom {serial}")          # the default delay (60 s)
                else:
                    obj = self.result.Retry(message=f"boom {serial}", delay=delay)
                out = obj
            else:
                obj = Tok(truthy=serial % 3 != 0)
                out = (obj, declared or None)
            spec["scribbled"] = True     # the preparer owns its copy
            self.made.append(obj)
            self.desc[id(obj)] = (serial, d)
            return out
        return prepare

    def obj(self, o):
        """(descriptor, serial) of an object that came out of the cache"""
        if id(o) in self.desc and self.made[self.desc[id(o)][0]] is o:
            serial, d = self.desc[id(o)]
            return d, serial
        return {"c": "unknown", "type": type(o).__name__}, -1

    def entry(self, e):
        if e is None:
            return None
        d, serial = self.obj(e.resource)
        sys = e.system_data
        spec = e.spec
        return {"spec": {"id": spec.get("id"), "fail": spec.get("fail"), "deep": "nest" in spec}
                if isinstance(spec, dict) and set(spec) - {"nest"} == {"id", "fail"} else {"odd": sorted(map(str, spec))[:5]},
                "resource": d, "serial": serial, "version": e.resource_version,
                "sys": sys["n"] if isinstance(sys, dict) and set(sys) == {"n"} else (None if sys is None else -1)}

    def view(self, keys):
        """both lookups of every key: the system-data entry and (as a serial) what the plain lookup returns"""
        out = []
        for k, n in keys:
            e = self.entry(self.cache.get_resource_system_data_from_cache(KINDS[k], n))
            got = self.cache.get_resource_from_cache(KINDS[k], n)
            out.append({"entry": e, "lookup": None if got is None else self.obj(got)[1]})
        return out

    async def apply(self, op):
        c = self.cache
        k = op["op"]
        if k == "elapse":
            CLOCK.offset += op["seconds"]        # time passes; nothing else happens
            return {"k": "unit"}, None
        kind, name = KINDS[op["kind"]], op["name"]
        if k == "offer":
            meta = metadata(op)
            spec = expand_spec(op["spec"])
            before = self.calls
            try:
                got = await c.prepare_and_cache(
                    resource_class=kind, preparer=self.preparer(op["kind"], spec, op.get("subs", ()), op.get("delay")),
                    metadata=meta, spec=spec, _system_data=None if op["sys"] is None else {"n": op["sys"]})
            except TypeError:
                return {"k": "typeError"}, None
            except self.registry.SubscriptionCycle:
                # wiring up the declared subscriptions was refused — after the preparation happened
                if self.calls == before:
                    return {"k": "raisedCycle", "resource": None, "serial": -1}, None
                made = self.made[before]
                d, serial = self.obj(made)
                return {"k": "raisedCycle", "resource": d, "serial": serial}, made
            if op["spec"].get("deep") and self.calls == before and id(got) not in self.desc \
                    and isinstance(got, self.result.PermFail):
                # the spec was too deep to copy: the cache itself produced the failed preparation (a fresh
                # PermFail) without reaching the preparer — it counts as the preparation of this version
                self.desc[id(got)] = (self.calls, {"c": "failed", "kind": op["kind"], "name": name, "id": op["spec"]["id"]})
                self.made.append(got)
                self.calls += 1
            d, serial = self.obj(got)
            return {"k": "returned", "resource": d, "serial": serial, "prepared": self.calls > before}, got
        if k == "delete":
            got = await c.delete_from_cache(kind, name, op["version"])
            return ({"k": "unit"} if got is None else {"k": "unit", "odd": repr(got)}), None
        if k == "deleteMeta":
            meta = metadata(op)
            try:
                got = await c.delete_resource_from_cache(kind, meta)
            except TypeError:
                return {"k": "typeError"}, None
            return ({"k": "unit"} if got is None else {"k": "unit", "odd": repr(got)}), None
        if k == "lookup":
            got = c.get_resource_from_cache(kind, name)
            if got is None:
                return {"k": "found", "v": None}, None
            d, serial = self.obj(got)
            return {"k": "found", "v": {"resource": d, "serial": serial}}, got
        if k == "systemData":
            got = c.get_resource_system_data_from_cache(kind, name)
            return {"k": "entry", "v": self.entry(got)}, got
        raise Infra(f"bad op {op}")


def keys_of(ops):
    ks = []
    for op in ops:
        if op["op"] == "elapse":
            continue
        k = (op["kind"], op["name"])
        if k not in ks:
            ks.append(k)
    for k in [(i, n) for i in range(2) for n in NAMES]:
        if k not in ks:
            ks.append(k)
    return ks


async def run_history(mods, ops, trace):
    """executes `ops` on the real cache, appends {"out","calls","view"} per op to `trace`, and checks the
    property's clauses against a plain dict; returns (index, description) of the first broken clause or None"""
    cache, result, kutil = mods
    w = World(cache, result, kutil)
    keys = keys_of(ops)
    ref = {}       # (kind, name) -> (version, object)   — the plain map of the property
    try:
        for i, op in enumerate(ops):
            calls_before = w.calls
            try:
                out, raw = await w.apply(op)
            except Infra:
                raise
            except Exception as e:
                trace.append({"out": {"k": "exception", "cls": type(e).__name__}, "calls": w.calls, "view": w.view(keys)})
                what = f"{op['op']} raised {type(e).__name__}: {e}"
                if op["op"] == "offer" and op["spec"].get("deep"):
                    what += (f" — the offer of version {op['version']!r} carries a spec nested {op['spec']['deep']} levels; "
                             "its (failed) preparation must be cached under that version, not escape as an exception")
                return i, what
            view = w.view(keys)
            trace.append({"out": out, "calls": w.calls, "view": view})
            k = op["op"]
            key = None if k == "elapse" else (op["kind"], op["name"])
            resync = False
            raised_after_preparing = False
            if k == "offer":
                valid = bool(op["name"]) and bool(op["version"])
                if not valid:
                    if out["k"] != "typeError":
                        return i, "an offer without name or resourceVersion was accepted"
                    if w.calls != calls_before:
                        return i, "a rejected offer called the preparer"
                elif out["k"] not in ("returned", "raisedCycle"):
                    return i, f"a well-formed offer gave {out['k']}"
                else:
                    cur = ref.get(key)
                    if cur is not None and cur[0] == op["version"]:
                        if w.calls != calls_before:
                            what = "offering the cached resourceVersion prepared again"
                            if isinstance(cur[1], result.Retry):
                                waited = sum(o["seconds"] for o in ops[:i] if o["op"] == "elapse")
                                what += (f" (the cached result is a Retry with delay {cur[1].delay!r}; {waited} s were let "
                                         "pass in this history — a failed preparation stays cached under its "
                                         "resourceVersion however much time has passed)")
                            return i, what
                        if out["k"] != "returned":
                            return i, "offering the cached resourceVersion raised SubscriptionCycle"
                        if raw is not cur[1]:
                            return i, "offering the cached resourceVersion did not return the cached result"
                    else:
                        if w.calls != calls_before + 1:
                            return i, f"offering a different resourceVersion called the preparer {w.calls - calls_before} times"
                        if raw is not w.made[calls_before]:
                            return i, "the offer did not return what its preparer produced"
                        raised_after_preparing = out["k"] == "raisedCycle"
                        d = w.desc[id(raw)][1]
                        if (d["kind"], d["name"], d["id"]) != (op["kind"], op["name"], op["spec"]["id"]):
                            return i, "the preparer was called with another name or spec than offered"
                        ref[key] = (op["version"], raw)
                if w.bad_args:
                    return i, w.bad_args
            elif k == "delete":
                if w.calls != calls_before:
                    return i, "delete called a preparer"
                cur = ref.get(key)
                if cur is not None:
                    if op["version"] is None or op["version"] == cur[0]:
                        del ref[key]
                    elif op["version"] == "":
                        resync = True      # an empty version string names nothing: the property is silent
            elif k == "deleteMeta":
                if w.calls != calls_before:
                    return i, "delete called a preparer"
                if bool(op["name"]) and bool(op["version"]):
                    if out["k"] != "unit":
                        return i, f"a well-formed delete-by-metadata gave {out['k']}"
                    ref.pop(key, None)       # deleting by name: the metadata's resourceVersion is irrelevant
                elif out["k"] != "typeError":
                    return i, "delete metadata without name or resourceVersion was accepted"
            elif k == "lookup":
                cur = ref.get(key)
                if (raw if cur is None else None) is not None or (cur is not None and raw is not cur[1]):
                    return i, "lookup did not return the result of the most recently offered version"
            elif k == "elapse":
                if w.calls != calls_before:
                    return i, "a preparer was called while nothing but time passed"
            elif k == "systemData":
                cur = ref.get(key)
                if (cur is None) != (raw is None) or (cur is not None and (raw.resource is not cur[1] or raw.resource_version != cur[0])):
                    return i, "system-data lookup did not return the entry of the most recently offered version"
            # after every op: both lookups of every key against the plain map
            for kk in keys:
                a = cache.get_resource_from_cache(KINDS[kk[0]], kk[1])
                b = cache.get_resource_system_data_from_cache(KINDS[kk[0]], kk[1])
                if resync and kk == key:
                    if b is None:
                        ref.pop(kk, None)
                    continue
                cur = ref.get(kk)
                if cur is None:
                    if a is not None or b is not None:
                        if k == "elapse":
                            what = "an entry appeared while nothing but time passed"
                        elif k == "deleteMeta" and kk == key:
                            what = ("deleting by name through delete_resource_from_cache left the entry cached "
                                    f"(metadata resourceVersion {op['version']!r}, cached {b.resource_version!r})")
                        elif k == "delete":
                            what = "a deleted / never offered name is still cached"
                        else:
                            what = "an entry appeared for a name that holds none"
                        return i, what
                else:
                    if b is None:
                        if k == "delete" and kk == key:
                            what = "a delete naming a stale version removed the newer entry"
                        elif k == "offer" and kk == key:
                            what = "the result of the offer (a failed preparation included) was not cached"
                            if raised_after_preparing:
                                what += (f": the offer of version {op['version']!r} prepared and then raised "
                                         "SubscriptionCycle, the lookups must still return that result")
                        elif k == "elapse":
                            what = f"an entry vanished while nothing but time passed ({op['seconds']} s)"
                        else:
                            what = "an entry vanished"
                        return i, what
                    if a is not cur[1] or b.resource is not cur[1] or b.resource_version != cur[0]:
                        what = "lookups do not return the result of the most recently offered version"
                        if k == "elapse":
                            what += f" after {op['seconds']} s in which nothing but time passed"
                        if b.resource_version != cur[0]:
                            what += f" (entry is stored under version {b.resource_version!r}, offered resourceVersion was {cur[0]!r})"
                        if raised_after_preparing and kk == key:
                            what += (f" (the offer of version {op['version']!r} prepared and then raised "
                                     f"SubscriptionCycle; cached version is {b.resource_version!r})")
                        return i, what
    finally:
        kutil.reset()
        for _ in range(3):       # never-started monitor tasks were cancelled by the reset: let them go
            await asyncio.sleep(0)
    return None


# --------------------------------------------------------------------------- generation

def gen_history(r):
    length = r.choice([1, 2, 3, 5, 8, 12, 20, 30, 45, 60]) if r.random() < 0.5 else r.randint(1, 60)
    ops = []
    current = {}      # generator's idea of the cached version per key
    nid = 0
    focus = r.random() < 0.4   # some histories hammer one or two keys
    subby = r.random() < 0.5   # half of the histories declare subscriptions (cycles included)
    allkeys = [(i, n) for i in range(2) for n in NAMES]

    deepish = r.random() < 0.35   # some histories offer specs nested too deeply to deep-copy

    timed = r.random() < 0.45     # some histories let time pass between operations (`elapse`)

    def delay():
        """the delay a failing preparer puts in its Retry (None = Retry's default, 60 s)"""
        return r.choice([None, None, 0, 0, 1, 5, 60, 600]) if timed or r.random() < 0.3 else None

    def spec(nid):
        d = {"id": nid, "fail": r.random() < 0.3}
        if deepish and r.random() < 0.2:
            d["deep"] = r.choice([1500, 2000, 4000])
        return d

    gens = {}                  # generation per key, moving independently of resourceVersion
    rich = r.random() < 0.7    # most histories carry full Kubernetes metadata

    def meta(kind, name):
        if not rich or r.random() < 0.15:
            return None
        g = gens.get((kind, name), 1)
        y = r.random()
        if y < 0.35:
            g += 1                                  # a spec change
        elif y < 0.42:
            g = None                                # objects without generation
        elif y < 0.47:
            g = 0
        if g:
            gens[(kind, name)] = g
        return realistic_meta(r, kind, name, g)

    def subs():
        if not subby or r.random() < 0.4:
            return []
        return [list(x) for x in r.sample(allkeys, r.choice([1, 1, 2, 3]))]

    def key():
        if focus:
            return r.choice([(0, "a"), (0, "a"), (1, "a"), (0, "b")])
        return r.randrange(2), r.choice(NAMES)

    while len(ops) < length:
        if timed and r.random() < 0.15:
            ops.append({"op": "elapse", "seconds": r.choice([1, 1, 2, 5, 59, 60, 61, 61, 300, 601, 3600, 86400])})
            if r.random() < 0.6 and current:
                # ... and then the very same name + resourceVersion is offered again (a re-sync)
                kind, name = r.choice(sorted(current))
                nid += 1
                ops.append({"op": "offer", "kind": kind, "name": name, "version": current[(kind, name)],
                            "spec": spec(nid), "sys": None, "subs": subs(), "meta": meta(kind, name), "delay": delay()})
            continue
        x = r.random()
        kind, name = key()
        if x < 0.5:
            nid += 1
            v = r.choice(VERSIONS)
            y = r.random()
            if y < 0.25:
                v = current.get((kind, name), v)           # duplicate offer of the cached version
            elif y < 0.30:
                v = r.choice([None, ""])                   # malformed
            nm = "" if r.random() < 0.02 else name
            ops.append({"op": "offer", "kind": kind, "name": nm, "version": v,
                        "spec": spec(nid),
                        "sys": r.choice([None, None, nid]), "subs": subs(), "meta": meta(kind, nm), "delay": delay()})
            if v and nm:
                current[(kind, nm)] = v
        elif x < 0.56:
            cur = current.get((kind, name))
            y = r.random()
            v = cur if (cur and y < 0.3) else r.choice(VERSIONS + ["7", "7", None, ""] if y > 0.9 else VERSIONS + ["7"])
            ops.append({"op": "deleteMeta", "kind": kind, "name": name, "version": v, "meta": meta(kind, name)})
            if v:
                current.pop((kind, name), None)
        elif x < 0.68:
            cur = current.get((kind, name))
            y = r.random()
            if y < 0.35:
                v = None
            elif y < 0.55:
                v = cur if cur else r.choice(VERSIONS)
            elif y < 0.9:
                v = r.choice([z for z in VERSIONS if z != cur])     # stale
            else:
                v = ""
            ops.append({"op": "delete", "kind": kind, "name": name, "version": v})
            if cur and (not v or v == cur):
                old = current.pop((kind, name))
                if r.random() < 0.5:                       # delete then re-offer of an old version
                    nid += 1
                    ops.append({"op": "offer", "kind": kind, "name": name, "version": r.choice([old, "1"]),
                                "spec": spec(nid), "sys": None, "subs": subs(),
                                "meta": meta(kind, name), "delay": delay()})
                    current[(kind, name)] = ops[-1]["version"]
        elif x < 0.86:
            ops.append({"op": "lookup", "kind": kind, "name": name})
        else:
            ops.append({"op": "systemData", "kind": kind, "name": name})
    return ops[:60]


# --------------------------------------------------------------------------- family B: loop turns

ORDER = [(0, "a"), (0, "b"), (1, "a"), (1, "b")]     # a key may only watch keys further right: no cycles


def gen_turn_history(r):
    """offers with (acyclic) subscriptions, new versions with new specs, deletes, and event-loop turns in
    between so that monitors start and re-prepare in the background"""
    ops = []
    nid = 0
    ver = {}
    watch = {i: [list(k) for k in ORDER[i + 1:] if r.random() < 0.6] for i in range(len(ORDER))}
    needy = r.random() < 0.6     # watchers whose preparation depends on the state of what they watch
    fail_p = 0.3 if needy else 0.15
    if needy and r.random() < 0.7:
        # everything is there and usable to begin with (dependencies first), monitors get started
        for i in reversed(range(len(ORDER))):
            nid += 1
            ver[i] = 1
            sp = {"id": nid, "fail": False, "subs": watch[i]}
            if watch[i]:
                sp["needs"] = True
            ops.append({"op": "offer", "kind": ORDER[i][0], "name": ORDER[i][1], "version": "1", "spec": sp,
                        "sys": None, "meta": None})
        ops.append({"op": "turn", "n": 2})
    for _ in range(r.randint(3, 14)):
        x = r.random()
        i = r.randrange(len(ORDER))
        kind, name = ORDER[i]
        if x < 0.55:
            nid += 1
            cur = ver.get(i, 0)
            v = cur if (cur and r.random() < 0.2) else r.choice([cur + 1, cur + 1, 1, 2, 3])
            ver[i] = v
            sp = {"id": nid, "fail": r.random() < fail_p, "subs": watch[i]}
            if watch[i] and needy:
                sp["needs"] = True      # this version can only be prepared while everything it watches is usable
            ops.append({"op": "offer", "kind": kind, "name": name, "version": str(v),
                        "spec": sp, "sys": None,
                        "meta": realistic_meta(r, kind, name, r.choice([None, 1, 1, 2])) if r.random() < 0.7 else None})
        elif x < 0.65:
            ops.append({"op": r.choice(["delete", "deleteMeta"]), "kind": kind, "name": name,
                        "version": r.choice([None, "9", str(ver[i])] if ver.get(i) else [None, "9"])})
            if ops[-1]["op"] == "deleteMeta" and ops[-1]["version"] is None:
                ops[-1]["version"] = "9"
            ver.pop(i, None)
        else:
            ops.append({"op": "turn", "n": r.choice([1, 1, 2, 3, 6])})
    ops.append({"op": "turn", "n": 8})
    return ops


async def run_turn_history(mods, ops, stats=None):
    """family B on the real cache; the oracle is C15's 'latest wins' evaluated after every operation and
    after every single loop turn: the entry of a key is at the most recently OFFERED version, built from
    ITS spec; an offer prepares iff the version differs.  Returns (index, description) or None."""
    cache, result, kutil = mods
    from koreo import registry
    kutil.reset()
    calls = 0
    offering = False           # True while a direct offer runs: any other preparer call is a background re-prepare
    background = {"ok": 0, "failed": 0}

    def make_preparer(kind_idx):
        async def prepare(name, spec):
            nonlocal calls
            calls += 1
            declared = [registry.Resource(resource_type=KINDS[k], name=n) for k, n in spec.get("subs", [])]
            unusable = None
            if spec.get("needs"):
                # like a workflow looking up its functions: whatever this resource watches must be cached and Ok
                for k, n in spec.get("subs", []):
                    dep = cache.get_resource_from_cache(KINDS[k], n)
                    if dep is None or not result.is_unwrapped_ok(dep):
                        unusable = (k, n)
                        break
            if not offering:
                background["failed" if spec.get("fail") or unusable else "ok"] += 1
            if unusable is not None and not spec.get("fail"):
                o = (result.PermFail if calls % 2 else result.Retry)(message=f"{unusable} is not usable")
                o.built_from = (kind_idx, name, spec.get("id"))
                return o
            if spec.get("fail"):
                o = result.PermFail(message="boom")
                o.built_from = (kind_idx, name, spec.get("id"))
                return o
            o = Tok(True)
            o.built_from = (kind_idx, name, spec.get("id"))
            return o, (declared or None)
        return prepare

    preparers = [make_preparer(0), make_preparer(1)]
    latest = {}      # key -> (version, spec id, fail, needs)

    def audit(i, when):
        for key in ORDER:
            e = cache.get_resource_system_data_from_cache(KINDS[key[0]], key[1])
            a = cache.get_resource_from_cache(KINDS[key[0]], key[1])
            want = latest.get(key)
            if want is None:
                if e is not None or a is not None:
                    return i, f"{when}: {key} is cached although it was deleted / never offered"
                continue
            if e is None:
                return i, f"{when}: the entry of {key} vanished"
            if e.resource_version != want[0]:
                return i, (f"{when}: {key} is cached at resourceVersion {e.resource_version!r}, the most recently "
                           f"offered version is {want[0]!r}")
            built = getattr(e.resource, "built_from", None)
            if e.spec.get("id") != want[1] or built != (key[0], key[1], want[1]):
                return i, (f"{when}: the result cached for {key} was built from spec {built and built[2]}, the most "
                           f"recently offered version's spec is {want[1]}")
            if want[3]:
                # the outcome of a "needs" spec also depends on what it watches: a failing spec must have failed
                if want[2] and not isinstance(e.resource, result.PermFail):
                    return i, f"{when}: outcome class of {key} does not match its spec"
            elif isinstance(e.resource, result.PermFail) != want[2]:
                return i, f"{when}: outcome class of {key} does not match its spec"
            if a is not e.resource:
                return i, f"{when}: the two lookups of {key} disagree"
        return None

    try:
        for i, op in enumerate(ops):
            k = op["op"]
            if k == "turn":
                for _ in range(op["n"]):
                    await asyncio.sleep(0)
                    bad = audit(i, "after a loop turn")
                    if bad:
                        return bad
                continue
            key = (op["kind"], op["name"])
            kind = KINDS[op["kind"]]
            before = calls
            if k == "offer":
                offering = True
                try:
                    await cache.prepare_and_cache(
                        resource_class=kind, preparer=preparers[op["kind"]], metadata=metadata(op), spec=dict(op["spec"]))
                finally:
                    offering = False
                cur = latest.get(key)
                if cur is not None and cur[0] == op["version"]:
                    if calls != before:
                        return i, f"offering the cached resourceVersion {op['version']!r} of {key} prepared again"
                else:
                    if calls != before + 1:
                        return i, f"offering a different resourceVersion called the preparer {calls - before} times"
                    latest[key] = (op["version"], op["spec"]["id"], op["spec"]["fail"], bool(op["spec"].get("needs")))
            elif k == "delete":
                await cache.delete_from_cache(kind, op["name"], op["version"])
                cur = latest.get(key)
                if cur is not None and (not op["version"] or op["version"] == cur[0]):
                    del latest[key]
            elif k == "deleteMeta":
                await cache.delete_resource_from_cache(kind, metadata(op))
                latest.pop(key, None)
            bad = audit(i, f"after {k}")
            if bad:
                return bad
    finally:
        if stats is not None:
            stats.update(background)
        kutil.reset()
        for _ in range(4):           # let cancelled monitors finish before the next history
            await asyncio.sleep(0)
    return None


async def ddmin_async(items, fails):
    """common.ddmin with an awaitable predicate"""
    items = list(items)
    n = 2
    while len(items) >= 2:
        chunk = max(1, len(items) // n)
        reduced = False
        for i in range(0, len(items), chunk):
            cand = items[:i] + items[i + chunk:]
            try:
                if cand and await fails(cand):
                    items, n, reduced = cand, max(n - 1, 2), True
                    break
            except Infra:
                raise
            except Exception:
                pass
        if not reduced:
            if chunk == 1:
                break
            n = min(len(items), n * 2)
    return items


# --------------------------------------------------------------------------- the check

def load_corpus():
    out = []
    if CORPUS.exists():
        for f in sorted(CORPUS.glob("*.json")):
            out.append((f.name, json.loads(f.read_text())))
    return out


SHRINK_FIRST = 5     # failing histories that get delta-debugged
STOP_AFTER = 40      # failing histories after which a run stops exploring (the verdict is settled)


def wire_ops(ops, got):
    """ops as the model driver wants them: the registry's answer to each offer (did wiring up the
    declared subscriptions raise SubscriptionCycle?) is an oracle input taken from the implementation"""
    out = []
    for j, op in enumerate(ops):
        w = {k: v for k, v in op.items() if k not in ("subs", "delay")}
        if op["op"] == "offer":
            w["cycle"] = j < len(got) and got[j]["out"]["k"] == "raisedCycle"
        out.append(w)
    return out


async def explore(ck, mods, drv, cases, what):
    """family A: implementation first (it supplies the registry oracle), then the model; False = stop"""
    runs = []
    for ops in cases:
        got = []
        bad = await run_history(mods, ops, got)
        runs.append((got, bad))
    reqs = [{"keys": [{"kind": k, "name": n} for k, n in keys_of(ops)], "ops": wire_ops(ops, got)}
            for ops, (got, _) in zip(cases, runs)]
    try:
        answers = drv.ask(reqs)
    except Infra as e:
        if ck.build_ok:
            ck.notes.append(f"model driver unavailable: {e}")
        ck.build_ok = False
        answers = [None] * len(cases)
    for ops, (got, bad), ans in zip(cases, runs, answers):
        ck.evaluated()
        if isinstance(ans, dict) and "error" in ans:
            ck.disagree({"ops": ops}, ans, None, "driver-error")
        elif ans is not None:
            for i, (g, m) in enumerate(zip(got, ans)):
                if g != m:
                    if len(ck.disagreements) < 50:
                        ck.disagree({"ops": ops[:i + 1], "at": i, "batch": what}, m, g,
                                    "cache-observables (returned object, preparer calls, both lookups of every key) after every op")
                    break
        if bad is not None:
            i, msg = bad
            if len(ck.violations) < SHRINK_FIRST:
                async def fails(sub):
                    return (await run_history(mods, sub, [])) is not None
                small = await ddmin_async(ops[:i + 1], fails)
                b2 = await run_history(mods, small, [])
                ck.violate({"family": "A", "ops": small}, b2[1] if b2 else msg)
            else:
                ck.violate({"family": "A", "ops": ops[:i + 1]}, msg)
            if len(ck.violations) >= STOP_AFTER:
                ck.notes.append(f"exploration stopped after {STOP_AFTER} failing histories")
                return False
            continue
        kinds = set()
        versions = {}
        lastgen = {}
        elapsed = 0
        retry_at = {}       # key -> (seconds elapsed when its cached Retry was prepared, its delay)
        for j, (op, g) in enumerate(zip(ops, got)):
            ck.count(f"op:{op['op']}")
            o = g["out"]
            if op["op"] == "elapse":
                elapsed += op["seconds"]
                continue
            if op["op"] == "offer" and o["k"] in ("returned", "raisedCycle"):
                kk = (op["kind"], op["name"])
                if o.get("prepared", True):
                    retry_at.pop(kk, None)
                    if o["resource"]["c"] == "failed" and o["serial"] % 2 == 0 and not op["spec"].get("deep"):
                        retry_at[kk] = (elapsed, 60 if op.get("delay") is None else op["delay"])
                elif kk in retry_at and elapsed - retry_at[kk][0] >= retry_at[kk][1]:
                    ck.count("offer:hit-on-Retry-older-than-its-delay")
                    kinds.add("retry-outlived-delay")
            elif op["op"] in ("delete", "deleteMeta"):
                retry_at.pop((op["kind"], op["name"]), None)
            if op["op"] == "offer" and (op.get("meta") or {}).get("generation"):
                prev = lastgen.get((op["kind"], op["name"]))
                if prev is not None and prev[0] == op["meta"]["generation"] and prev[1] != op["version"] \
                        and o["k"] == "returned" and o["prepared"]:
                    ck.count("offer:new-version-same-generation-prepared")
                    kinds.add("same-generation")
                lastgen[(op["kind"], op["name"])] = (op["meta"]["generation"], op["version"])
            if op["op"] == "offer" and op["spec"].get("deep") and o["k"] in ("returned", "raisedCycle"):
                t2 = "offer:too-deep-spec-" + ("prepared-as-failure" if o.get("prepared", True) else "hit")
                ck.count(t2)
                kinds.add(t2)
            if o["k"] == "returned":
                tag = ("prepared-" if o["prepared"] else "cached-") + o["resource"]["c"]
                ck.count(f"offer:{tag}")
                kinds.add(tag)
                versions.setdefault((op["kind"], op["name"]), []).append(op["version"])
            elif o["k"] == "raisedCycle":
                ck.count("offer:prepared-then-SubscriptionCycle")
                kinds.add("raisedCycle")
                versions.setdefault((op["kind"], op["name"]), []).append(op["version"])
            elif o["k"] == "typeError":
                ck.count(f"{op['op']}:typeError")
                kinds.add("typeError")
            elif op["op"] == "deleteMeta":
                before = got[j - 1]["view"] if j else [{"entry": None}] * len(g["view"])
                gone = [a["entry"]["version"] for a, b in zip(before, g["view"]) if a["entry"] is not None and b["entry"] is None]
                tag = ("deleteMeta-removed-other-version" if gone and gone[0] != op["version"]
                       else "deleteMeta-removed-same-version" if gone else "deleteMeta-absent")
                ck.count(tag)
                kinds.add(tag)
            elif op["op"] == "delete":
                before = got[j - 1]["view"] if j else [{"entry": None}] * len(g["view"])
                removed = sum(1 for a, b in zip(before, g["view"]) if a["entry"] is not None and b["entry"] is None)
                tag = "delete-removed" if removed else ("delete-stale-kept" if op["version"] else "delete-absent")
                ck.count(tag)
                kinds.add(tag)
        if any(len(v) >= 3 and v[-1] in v[:-2] and v[-1] != v[-2] for v in versions.values()):
            ck.count("version-went-back")
            kinds.add("back")
        ck.count(f"{what}:len:{min(len(ops) // 10 * 10, 60)}")
        if len(kinds) >= 3:
            ck.nontriv(json.dumps(ops, sort_keys=True))
            if 4 <= len(ops) <= 10:
                ck.sample({"ops": ops, "outs": [g["out"] for g in got]})
    return True


async def explore_turns(ck, mods, cases):
    """family B: oracle only; False = stop"""
    for ops in cases:
        ck.evaluated()
        ck.count("familyB:histories")
        stats = {}
        bad = await run_turn_history(mods, ops, stats)
        if bad is not None:
            i, msg = bad
            if len(ck.violations) < SHRINK_FIRST:
                async def fails(sub):
                    return (await run_turn_history(mods, sub)) is not None
                small = await ddmin_async(ops[:i + 1], fails)
                b2 = await run_turn_history(mods, small)
                ck.violate({"family": "B", "ops": small}, b2[1] if b2 else msg)
            else:
                ck.violate({"family": "B", "ops": ops[:i + 1]}, msg)
            if len(ck.violations) >= STOP_AFTER:
                return False
            continue
        turns = sum(op.get("n", 0) for op in ops if op["op"] == "turn")
        offers = [op for op in ops if op["op"] == "offer"]
        watchers = [op for op in offers if op["spec"]["subs"]]
        ck.count("familyB:turns", turns)
        ck.count("familyB:offers", len(offers))
        ck.count("familyB:background-re-prepare-ok", stats.get("ok", 0))
        ck.count("familyB:background-re-prepare-failed", stats.get("failed", 0))
        if stats.get("failed"):
            ck.nontriv("B" + json.dumps(ops, sort_keys=True))
        keys = {(op["kind"], op["name"]) for op in watchers}
        if len({(op["kind"], op["name"], op["version"]) for op in watchers}) > len(keys):
            ck.count("familyB:watcher-re-versioned")
            ck.nontriv("B" + json.dumps(ops, sort_keys=True))
            if len(ops) <= 8:
                ck.sample({"family": "B", "ops": ops})
    return True


def run(tier: str) -> int:
    import koreo_util as kutil
    from koreo import cache, result

    ck = Check("C15", tier)
    ck.trusted = [
        "Lean 4.33.0 kernel; axioms of every theorem ⊆ {propext, Classical.choice, Quot.sound}",
        "model lean/Koreo/Cache.lean hand-transcribed from src/koreo/cache.py (prepare_and_cache, "
        "delete_from_cache, get_resource_from_cache, get_resource_system_data_from_cache, _extract_meta)",
        "differential harness/c15.py: the same histories through koreo.cache and the compiled model, "
        "full observation after every operation",
        "Python dict / NamedTuple truthiness / str equality as modelled",
    ]
    ck.assumptions = [
        "sequential histories with preparers that never suspend and declare no subscriptions "
        "(background re-preparation is C16, DESIGN.md section 7)",
        "preparers do not raise (C20 is about that)",
        "resourceVersion and name are strings or absent",
    ]
    ck.prove(extractors=[])
    if tier == "thorough" and ck.build_ok:
        ck.leanchecker()
    drv = LeanDriver("C15")
    mods = (cache, result, kutil)
    if not install_clock(cache):
        ck.notes.append("koreo.cache does not read its clock through `time.monotonic`: `elapse` ops could not move it")

    async def main():
        go = True
        for name, case in load_corpus():
            ck.count("corpus")
            if case.get("family") == "B":
                go = go and await explore_turns(ck, mods, [case["ops"]])
            else:
                go = go and await explore(ck, mods, drv, [case["ops"]], "corpus")
        r = rng("c15")
        total = 2000 if tier == "quick" else 100000
        done = 0
        while go and done < total:
            batch = [gen_history(r) for _ in range(min(2000, total - done))]
            go = await explore(ck, mods, drv, batch, "random")
            done += len(batch)
        rb = rng("c15-turns")
        total_b = 600 if tier == "quick" else 30000
        done = 0
        while go and done < total_b:
            batch = [gen_turn_history(rb) for _ in range(min(1000, total_b - done))]
            go = await explore_turns(ck, mods, batch)
            done += len(batch)

    kutil.run(main())
    return ck.finish(
        rule="family A: random histories of 1-60 offer/delete/delete-by-metadata/lookup/system-data operations "
             "over 3 names × 2 kinds, versions '1'..'3' going back and forth, duplicate offers of the cached "
             "version, malformed offers and delete metadata (no/empty version, empty name), failing preparers "
             "(30 %), preparers declaring subscriptions incl. cycle-closing ones (offer raises SubscriptionCycle "
             "after caching), full Kubernetes metadata (generation moving independently of resourceVersion, uid, "
             "labels, annotations, managedFields, creationTimestamp), deletes by name / current version / stale "
             "version / empty version / metadata with any version, delete-then-re-offer of the old version; in 45 % "
             "of the histories time passes between operations (elapse 1 s .. 1 day on the clock the cache reads, "
             "often followed by a re-offer of a cached name+version) and failing preparers return Retry with delay "
             "0/1/5/60/600 s; "
             "family B: 3-18 ops with acyclic subscriptions and event-loop turns (background re-preparation, which "
             "fails when a watcher 'needs' a dependency that was deleted or offered in a failing version), deletes "
             "by name / stale / current version, oracle only. Non-trivial = at least three different kinds of event (prepared-ok, prepared-failed, "
             "cached-ok, cached-failed, raisedCycle, typeError, delete-removed, delete-stale-kept, delete-absent, "
             "deleteMeta-*, new version under the same generation, a version offered again after another one) "
             "in one family-A history (also: a hit on a Retry older than its delay), or a watcher offered at two "
             "versions / a failed background re-prepare in a family-B history; distinct by op list",
    )


def replay(path: str) -> int:
    import koreo_util as kutil
    from koreo import cache, result

    install_clock(cache)
    data = json.load(open(path))
    cases = [v["case"] for v in data.get("violations", [])] if "violations" in data else [data]
    rc = 0

    async def main():
        nonlocal rc
        for case in cases:
            got = []
            if case.get("family") == "B":
                bad = await run_turn_history((cache, result, kutil), case["ops"])
            else:
                bad = await run_history((cache, result, kutil), case["ops"], got)
            print("replay:", json.dumps(case), "->", json.dumps([g["out"] for g in got]), "::", bad)
            rc = rc or (1 if bad else 0)

    kutil.run(main())
    return rc
