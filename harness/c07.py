"""C07 — management modes bound the API calls a ResourceFunction may make.

proof:   lean/Koreo/Props/C07.lean over `Koreo.ResourceFn.decide` (finite table; every clause for the whole
         table) + `reconcile_follows_table` (the payload-level model refines the table)
tie:     (a) flag/delay defaults regenerated from prepare.py / constants.py / the CRD (extractors/RfDefaults.py),
         (b) EXHAUSTIVE on every run: every cell of the table (flags x policy x precondition x create.overlay written x
             plural given x situation incl. a lost creation race) as a real prepared ResourceFunction (flags
             written into the real spec, once explicitly and once with every default-valued key omitted)
             against a freshly seeded in-memory cluster; action (from the request log), outcome class and
             Retry delay compared with the model
oracle:  the property's clauses evaluated on what the implementation did, independent of the model
"""
from __future__ import annotations

import copy
import itertools
import json

from common import Check, Infra, LeanDriver
import gen_rf678 as g

PREFIX = "C7"
POLICIES = ("patch", "recreate", "never")
SITUATIONS = ("absent", "presentMatching", "presentDrifted", "presentNoOwnerRef", "absentConflict",
              "presentDriftedRejected", "presentVanished")
REJECTED = ("presentDriftedRejected", "presentVanished")
REJECT_CODES = (422, 409, 500)     # what the server answers the mutating call with in `presentDriftedRejected`
VF_SPECS = ({"return": {"spec": {"fromFunction": 1}}}, {"return": {"spec": {"fromFunction": 2}}})
ABSENT = ("absent", "absentConflict")     # absent as far as the load can tell
CREATE_OVERLAY = {"metadata": {"labels": {"created-by": "koreo"}}, "spec": {"onCreate": True}}
DEFAULTS = {"readonly": False, "owned": True, "namespaced": True, "createEnabled": True, "deleteIfExists": False,
            "update": "patch"}
CREATE_DELAY, PATCH_DELAY, RECREATE_DELAY, PRECOND_DELAY = 11, 13, 17, 7
PRECOND_KINDS = ("retry", "permFail", "skip", "depSkip")
# an assertion that does not evaluate to a boolean does not pass either (whatever its truthiness): PermFail, no call
NON_BOOLEAN_ASSERTS = ("false", 1, "yes", [1], {"a": 1}, 0, "", 2.5)
TARGET_SPEC = {"a": 1, "b": "x", "c": [1, 2], "d": {"e": True}}


def cells():
    for ro, ow, ns, ce, de in itertools.product((False, True), repeat=5):
        for pol in POLICIES:
            for pp in (True, False):
                for co, pg in itertools.product((False, True), repeat=2):
                    for sit in SITUATIONS:
                        yield {"readonly": ro, "owned": ow, "namespaced": ns, "createEnabled": ce,
                               "deleteIfExists": de, "update": pol, "precond": pp, "createOverlay": co,
                               "pluralGiven": pg, "sit": sit}


_RUN_TAG = [""]     # distinguishes several runs of one (cell, variant): set by `observe`


def kind_of(cell: dict, variant: str, idx: int) -> tuple[str, str]:
    """With the plural omitted the first reconcile of a kind discovers it and memoises it on the kr8s
    class (which kr8s finds again for every later function of that kind), so such runs get a kind of
    their own; with the plural given one kind per scope will do."""
    if cell["pluralGiven"]:
        return g.kind_for(PREFIX, cell["namespaced"])
    kind = f"C7x{idx}{variant[0]}{_RUN_TAG[0]}{'Ns' if cell['namespaced'] else 'Cl'}"
    return kind, kind.lower() + "s"


def build(cell: dict, variant: str, idx: int):
    """(real spec, what-was-written for the model, precondition kind)"""
    explicit = variant == "explicit"
    written = {}
    flags = {}
    for k in ("readonly", "owned", "namespaced", "deleteIfExists"):
        if explicit or cell[k] != DEFAULTS[k]:
            flags[k] = cell[k]
            written[k] = cell[k]
        else:
            written[k] = None
    kind, plural = kind_of(cell, variant, idx)
    api = {"apiVersion": g.API_VERSION, "kind": kind, "name": g.NAME}
    if cell["pluralGiven"]:
        api["plural"] = plural
    if cell["namespaced"]:
        api["namespace"] = g.NS
    api.update(flags)
    written["pluralGiven"] = cell["pluralGiven"]
    spec = {"apiConfig": api, "resource": {"spec": copy.deepcopy(TARGET_SPEC)}}
    # create
    if explicit:
        spec["create"] = {"enabled": cell["createEnabled"], "delay": CREATE_DELAY}
        written["createEnabled"], written["createDelay"] = cell["createEnabled"], str(CREATE_DELAY)
    elif not cell["createEnabled"]:
        spec["create"] = {"enabled": False}
        written["createEnabled"], written["createDelay"] = False, None
    else:
        written["createEnabled"], written["createDelay"] = None, None
    written["createOverlay"] = cell["createOverlay"]
    if cell["createOverlay"]:     # a create-only overlay left in the spec, whether or not create is enabled
        spec.setdefault("create", {})["overlay"] = copy.deepcopy(CREATE_OVERLAY)
    # update
    pol = cell["update"]
    if explicit:
        spec["update"] = {"patch": {"delay": PATCH_DELAY}} if pol == "patch" else \
            {"recreate": {"delay": RECREATE_DELAY}} if pol == "recreate" else {"never": {}}
        written["update"] = pol
        written["updateDelay"] = str(PATCH_DELAY) if pol == "patch" else str(RECREATE_DELAY) if pol == "recreate" else None
    elif pol != "patch":
        spec["update"] = {pol: {}}
        written["update"], written["updateDelay"] = pol, None
    else:
        written["update"], written["updateDelay"] = None, None
    kind = PRECOND_KINDS[idx % len(PRECOND_KINDS)]
    body = {"message": "not yet"}
    if kind == "retry":
        body["delay"] = PRECOND_DELAY
    spec["preconditions"] = [{"assert": "=inputs.go", kind: body}]
    if not cell["precond"] and (idx // len(PRECOND_KINDS)) % 2 == 1:
        kind = "permFail"      # the assertion will evaluate to a non-boolean: see `go_value`
    return spec, written, kind


def go_value(cell: dict, idx: int):
    """what `inputs.go` (the precondition's assertion) evaluates to: true / false, or — for half of the cells
    whose preconditions do not pass — something that is not a boolean at all (truthy or falsy)"""
    if cell["precond"]:
        return True
    if (idx // len(PRECOND_KINDS)) % 2 == 1:
        return copy.deepcopy(NON_BOOLEAN_ASSERTS[(idx // (2 * len(PRECOND_KINDS))) % len(NON_BOOLEAN_ASSERTS)])
    return False


def live_key(cell: dict, variant: str, idx: int) -> tuple:
    _, plural = kind_of(cell, variant, idx)
    return (g.API_VERSION, plural, g.NS if cell["namespaced"] else None, g.NAME)


def seed_objects(cell: dict, variant: str, idx: int, competitor: bool = False) -> dict:
    sit = cell["sit"]
    if sit in ABSENT and not competitor:
        return {}
    kind, _ = kind_of(cell, variant, idx)
    md = {"name": g.NAME, "uid": "uid-live", "resourceVersion": "7", "labels": {"seen": "yes"}}
    if cell["namespaced"]:
        md["namespace"] = g.NS
    refs = [copy.deepcopy(g.OWNER_REF)] if idx % 2 == 0 else [copy.deepcopy(g.OTHER_REF), copy.deepcopy(g.OWNER_REF)]
    if sit == "presentNoOwnerRef":
        shape = idx % 3
        refs = None if shape == 0 else [] if shape == 1 else [copy.deepcopy(g.OTHER_REF)]
    if refs is not None:
        md["ownerReferences"] = refs
    live = {"apiVersion": g.API_VERSION, "kind": kind, "metadata": md, "spec": copy.deepcopy(TARGET_SPEC),
            "status": {"phase": "Active"}}
    if sit in ("presentDrifted", "presentDriftedRejected", "presentVanished"):
        where = idx % 3
        if where == 0:
            live["spec"]["a"] = 2
        elif where == 1:
            live["spec"]["d"]["e"] = False
        else:
            del live["spec"]["b"]
    return {live_key(cell, variant, idx): live}


def observe(cell: dict, variant: str, idx: int, extra: dict | None = None) -> dict:
    extra = extra or {}
    _RUN_TAG[0] = f"c{extra['code']}" if "code" in extra else ""
    spec, written, pkind = build(cell, variant, idx)
    configure = None
    if cell["sit"] == "presentDriftedRejected":
        code = extra.get("code", 422)

        def configure(c):      # call 0 is the load, call 1 the one mutation the mode allows
            c.faults[1] = code
    if cell["sit"] == "presentVanished":
        # present (and drifted) at the load; another deleter removes it before our mutating call arrives: 404
        def configure(c):
            def gone(i, method, key):
                if method in ("PATCH", "DELETE"):
                    c.objects.pop(key, None)
                return 0
            c.latency = gone
    if cell["sit"] == "absentConflict":
        # a competitor creates the object after our load and before our POST arrives: the server answers 409
        theirs = seed_objects(cell, variant, idx, competitor=True)

        def configure(c):
            def arrive(i, method, key):
                if method == "POST":
                    c.objects.update(copy.deepcopy(theirs))
                return 0
            c.latency = arrive
    if extra.get("reprepare"):
        # the function depends on a ValueFunction (overlayRef); that one is updated, the cache re-prepares the
        # function in the background, and what is reconciled is what the cache then holds
        spec["overlays"] = [{"overlayRef": {"kind": "ValueFunction", "name": "c7-dependency"}}]
        obs = g.reconcile_reprepared(spec, "c7-dependency", VF_SPECS, objects=seed_objects(cell, variant, idx),
                                     inputs={"go": go_value(cell, idx)}, owner=(g.NS, g.OWNER_REF), configure=configure)
        if not obs["reprepared"]:
            raise Infra("the cache did not re-prepare the function after its ValueFunction changed")
    else:
        obs = g.reconcile(spec, objects=seed_objects(cell, variant, idx), inputs={"go": go_value(cell, idx)},
                          owner=(g.NS, g.OWNER_REF), configure=configure)
    if not obs["prepared"]:
        return {"written": written, "pkind": pkind, "action": "not-prepared", "outcome": obs["prepare"], "spec": spec,
                "lookups": 0}
    c = obs["cluster"]
    return {"written": written, "pkind": pkind, "assertion": go_value(cell, idx), "action": g.action_of(c),
            "outcome": g.outcome_view(obs), "spec": spec, "lookups": len(c.lookups),
            "statuses": [(e["method"], e["applied"]) for e in c.log if e["method"] not in ("GET", "LOOKUP")],
            "log": [(e["method"], e["plural"], e["name"], e["namespace_arg"]) for e in c.log]}


def oracle(cell: dict, got: dict) -> str | None:
    """the clauses of C07 on what the implementation did (no model involved)"""
    a, oc = got["action"], got["outcome"]["c"]
    dm = cell["deleteIfExists"]
    if a.startswith("multiple") or a == "not-prepared":
        return f"unexpected API traffic: {a}"
    rejected = cell["sit"] in REJECTED
    if oc == "raised" and not (rejected and a in ("patch", "delete") and
                               got["outcome"]["what"].startswith(("ServerError", "NotFoundError"))):
        return f"reconcile raised: {got['outcome']['what']}"
    if rejected and a in ("patch", "delete") and oc != "raised":
        return f"the server rejected the {a} but the reconcile reported {oc} (log {got.get('log')})"
    absent = cell["sit"] in ABSENT
    if not cell["precond"]:
        if a != "noApiAtAll" or got.get("lookups"):
            return f"preconditions did not pass but the API was used ({a}: {got.get('log')})"
        if oc != got["pkind"]:
            return f"preconditions did not pass ({got['pkind']}) but the outcome is {oc}"
        return None
    if cell["readonly"] and a in ("create", "patch"):
        return f"readonly function did {a}"
    if cell["readonly"] and not dm and a == "delete":
        return "readonly function outside delete-if-exists mode deleted"
    if not cell["createEnabled"] and a == "create":
        return "create disabled but the function created"
    if cell["update"] == "never" and not dm and a in ("patch", "delete"):
        return f"update policy never but the function did {a}"
    if cell["update"] == "patch" and not dm and a == "delete":
        return "update policy patch but the function deleted"
    if cell["update"] == "recreate" and a == "patch":
        return "update policy recreate but the function patched"
    if dm and a not in ("none", "delete"):
        return f"delete-if-exists mode did {a}"
    if dm and (a == "delete") != (not absent):
        return f"delete-if-exists mode: object {cell['sit']} but action {a}"
    if absent and not dm and (cell["readonly"] or not cell["createEnabled"]):
        if a != "none":
            return f"absent and unmanageable but action {a}"
        if oc != "retry":
            return f"absent and unmanageable but outcome {oc} instead of Retry"
    if absent and a in ("patch", "delete"):
        return f"object absent at the load but action {a}"
    if not absent and a == "create":
        return "object present but the function created"
    if cell["sit"] == "presentMatching" and not dm and a != "none":
        return f"object matches and is owner-reffed but action {a}"
    if cell["sit"] == "absentConflict" and a == "create" and oc != "retry":
        return f"lost creation race reported as {oc} instead of Retry"
    return None


def compare(ans: dict, got: dict):
    """(model's, implementation's) action / outcome class / Retry delay for one cell"""
    want_oc = got["pkind"] if ans["outcome"] == "precond" else ans["outcome"]
    want_delay = None
    if want_oc == "retry":
        want_delay = PRECOND_DELAY if ans["outcome"] == "precond" else int(ans["delay"])
    model = {"action": ans["action"], "outcome": want_oc, "delay": want_delay,
             "discovery-calls": 1 if ans.get("discovers") else 0}
    mine = {"action": got["action"], "outcome": got["outcome"]["c"], "delay": got["outcome"].get("delay"),
            "discovery-calls": got.get("lookups", 0)}
    return model, mine


def run(tier: str) -> int:
    ck = Check("C07", tier)
    ck.trusted = [
        "Lean 4.33.0 kernel; axioms of every theorem ⊆ {propext, Classical.choice, Quot.sound}",
        "model lean/Koreo/ResourceFn.lean (`decide`, `reconcile`) hand-transcribed from reconcile_resource_function / "
        "reconcile_krm_resource; flag and delay defaults regenerated by harness/extractors/RfDefaults.py",
        "exhaustive run of all 5376 cells (8448 runs, two spec variants where parsing matters) through the real prepare + reconcile against "
        "harness/cluster.py (in-memory API with merge-patch and a request log)",
        "kr8s 0.20.7 APIObject (create/patch/delete -> call_api), celpy for the precondition and apiConfig expressions, "
        "the comparator validate_match (its answer is an input of the table)",
    ]
    ck.assumptions = [
        "apiConfig evaluates (name and, for namespaced kinds, namespace are non-empty); materialising the target "
        "does not fail (failures stop after the load without mutation: theorem reconcile_follows_table)",
        "in the table the parent lives in the namespace apiConfig names, so should_own = owned and namespaced",
        "the load itself succeeds (API faults are C09's subject)",
    ]
    ck.prove(extractors=["RfDefaults"])
    if tier == "thorough":
        ck.leanchecker()

    all_cells = list(cells())
    work = []
    for idx, cell in enumerate(all_cells):
        if cell["sit"] == "presentVanished":
            work.append((idx, cell, ("explicit", "omitted")[idx % 2], {}))
            continue
        if cell["sit"] == "presentDriftedRejected":
            # every cell with 422 (spec variant alternating); 409 and 500 on the plural-given, no-create-overlay part
            v = ("explicit", "omitted")[idx % 2]
            work.append((idx, cell, v, {"code": 422}))
            if cell["pluralGiven"] and not cell["createOverlay"]:
                other = ("omitted", "explicit")[idx % 2]
                work += [(idx, cell, other, {"code": 409}), (idx, cell, v, {"code": 500})]
            continue
        # both spec variants where parsing matters most; one (alternating) for the two remaining situations
        variants = ("explicit", "omitted") if cell["sit"] in ("absent", "presentMatching", "presentDrifted") else \
            (("explicit", "omitted")[idx % 2],)
        for variant in variants:
            work.append((idx, cell, variant, {}))
        # the sub-table that is re-prepared by the cache before it is reconciled
        if cell["precond"] and cell["pluralGiven"] and cell["sit"] in ("absent", "presentDrifted"):
            work.append((idx, cell, ("explicit", "omitted")[idx % 2], {"reprepare": True}))
    drv = LeanDriver("C07")
    import gc

    got_all = []
    for n, (idx, cell, variant, extra) in enumerate(work):
        got_all.append(observe(cell, variant, idx, extra))
        if n % 400 == 399:
            gc.collect()      # the one-off kr8s classes of the plural-omitted runs
    reqs = [{"op": "cell", "flags": got["written"], "precond": cell["precond"], "sit": cell["sit"]}
            for (idx, cell, variant, extra), got in zip(work, got_all)]
    try:
        answers = drv.ask(reqs)
    except Exception as e:
        answers = [None] * len(reqs)
        ck.notes.append(f"model driver unavailable: {e}")
        ck.build_ok = False

    for (idx, cell, variant, extra), got, ans in zip(work, got_all, answers):
        ck.evaluated()
        if extra.get("reprepare"):
            ck.count("re-prepared-by-the-cache")
        if "code" in extra:
            ck.count(f"rejected-with:{extra['code']}")
        a, oc = got["action"], got["outcome"]["c"]
        ck.count(f"action:{a}")
        ck.count(f"outcome:{oc}")
        ck.count(f"situation:{cell['sit']}")
        ck.count(f"variant:{variant}")
        ck.count(f"policy:{cell['update']}")
        ck.count(f"discovery-calls:{got.get('lookups', 0)}")
        if not cell["precond"]:
            ck.count("assertion-evaluates-to:" + type(got.get("assertion")).__name__)
        if cell["createOverlay"]:
            ck.count("create-overlay-written")
        case = {"cell": cell, "variant": variant, "idx": idx, "extra": extra, "spec": got["spec"],
                "impl": {"action": a, "outcome": got["outcome"], "log": got.get("log")}}
        if a in ("create", "patch", "delete"):
            ck.nontriv(json.dumps([cell, variant, extra], sort_keys=True))
        if idx % 97 == 0 and variant == "explicit":
            ck.sample(case)
        bad = oracle(cell, got)
        if bad:
            ck.violate(case, bad)
        if ans is not None:
            model, mine = compare(ans, got)
            if model != mine:
                ck.disagree({"cell": cell, "variant": variant, "idx": idx, "extra": extra, "spec": got["spec"]}, model, mine,
                            "table-cell: action/outcome-class/retry-delay")
    ck.cov["exhaustive"] = True
    ck.cov["cells"] = len(all_cells)
    ck.cov["programs"] = len(work)
    return ck.finish(
        rule="exhaustive: all 2^5 flag combinations x 3 update policies x 2 precondition results x create.overlay "
             "written or not x apiConfig.plural given or to be discovered (cold cache, a kind of its own) x 5 cluster "
             "situations (absent, matching, drifted, no owner reference, absent at the load with a competitor creating "
             "the object before our POST: 409, drifted with the server rejecting the mutating call, present at the load "
             "but gone when the mutating call arrives: 404) = 5376 cells, each "
             "as a real prepared ResourceFunction (spec variants: every key explicit / every default-valued key "
             "omitted — both for absent, matching, drifted; alternating for the other situations), reconciled once "
             "against a freshly seeded cluster; the rejected-mutation cells run in one spec "
             "variant (alternating) with status 422, and with 409 and 500 on the plural-given / no-create-overlay part; additionally the sub-table {preconditions pass, "
             "plural given, absent | drifted} (768 cells) is run once more with the function depending on an overlayRef "
             "ValueFunction that is updated, so that the cache re-prepares the function in the background and the "
             "re-prepared function is what gets reconciled; a precondition that does not pass is a false assertion or "
             "(half of those cells) one that evaluates to a non-boolean — text, number, list, map, truthy and falsy; "
             "discovery (lookup_kind) calls are logged as API calls; "
             "non-trivial = the run made a mutating call; distinct by cell+variant",
    )


def replay(path: str) -> int:
    data = json.load(open(path))
    rc = 0
    for v in data.get("violations", []):
        case = v["case"]
        got = observe(case["cell"], case["variant"], case["idx"], case.get("extra"))
        bad = oracle(case["cell"], got)
        print("replay:", json.dumps(case["cell"]), case["variant"], "->", got["action"], got["outcome"], "::", bad)
        rc = rc or (1 if bad else 0)
    for d in data.get("no_longer_checks", []):
        if d.get("kind") == "correspondence":
            case = d["case"]
            got = observe(case["cell"], case["variant"], case["idx"], case.get("extra"))
            ans = LeanDriver("C07").ask([{"op": "cell", "flags": got["written"], "precond": case["cell"]["precond"],
                                          "sit": case["cell"]["sit"]}])[0]
            model, mine = compare(ans, got)
            print("replay (model/implementation):", json.dumps(case["cell"]), case["variant"], "impl ->", mine,
                  "model ->", model, "::", "agree" if model == mine else "DISAGREE")
            rc = rc or (0 if model == mine else 1)
        elif d.get("kind") in ("lean-build", "audit"):
            print("replay: the proof side did not check:", str(d)[:600])
            rc = 1
    return rc
