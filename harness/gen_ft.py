"""Generators and drivers shared by the C18 and C19 checks (FunctionTest runner).

* JSON value generators (floats in eighths, so every value survives the wire and celpy),
* an independent reference of "equal modulo compare directives" (`eqmod_ref`) written from the
  property text, used as the oracle for the comparator,
* one-step deviations of a JSON value (`deviations`),
* Value/ResourceFunction specs under test whose behaviour is steered by the inputs ("trip" keys)
  and which echo what they receive,
* `prepare_ft` / `run_ft` through the real `prepare_function_test` / `run_function_test`,
* `observe()`: records what each executed case handed to the Function and what came back,
* `snapshot()`: deep structural snapshot of prepared objects for the isolation check.
"""
from __future__ import annotations

import contextlib
import copy
import json

import common
from common import Infra, to_wire
import koreo_util as ku

SET = "x-koreo-compare-as-set"
MAP = "x-koreo-compare-as-map"
LAST = "x-koreo-compare-last-applied"
DIRECTIVES = {SET, MAP, LAST}
LAST_APPLIED = "koreo.dev/last-applied-configuration"

# --------------------------------------------------------------------------- module constants (invariant)

def constants_fingerprint() -> dict:
    """every module-level constant of koreo.constants, canonically (sets sorted)"""
    from koreo import constants

    out = {}
    for k in sorted(vars(constants)):
        if not k.isupper():
            continue
        v = getattr(constants, k)
        out[k] = sorted(map(repr, v)) if isinstance(v, (set, frozenset)) else repr(v)
    return out


_CONST_BASELINE = constants_fingerprint()      # taken when the harness is imported, before any koreo call


def constants_changed():
    """None, or a description of how koreo.constants differs from the last accepted state (reported once:
    the new state becomes the baseline, so one change does not flood the run)"""
    global _CONST_BASELINE
    now = constants_fingerprint()
    if now == _CONST_BASELINE:
        return None
    diff = {k: (_CONST_BASELINE.get(k), now.get(k)) for k in sorted(set(now) | set(_CONST_BASELINE))
            if now.get(k) != _CONST_BASELINE.get(k)}
    _CONST_BASELINE = now
    return "koreo.constants changed while running: " + "; ".join(f"{k}: {a} -> {b}" for k, (a, b) in diff.items())


# --------------------------------------------------------------------------- values

BIG = [10737418240.0, float(2 ** 40), -3.0e12, 2 ** 40, 123456789012]      # numbers whose neighbours are "close"
SCALARS = [None, True, False, 0, 1, 2, -1, 7, 2 ** 40, 0.5, 1.0, 2.0, 1.5, -0.125, "", "a", "b", "A", "ab",
           " a", "a ", "x$y", "1", "True", "None", "é", "0", 10737418240.0, float(2 ** 40), -3.0e12, 123456789012]
KEYS = ["a", "b", "c", "name", "key", "items", "spec", "tags", "ports", "meta", "k1", "k2"]
SAFE_STR = ["a", "b", "ab", "xyz", "Value", "two words", "é"]   # survive koreo's CEL encoder unchanged


def gen_scalar(r):
    return r.choice(SCALARS)


def gen_value(r, depth=3):
    if depth <= 0 or r.random() < 0.35:
        return gen_scalar(r)
    if r.random() < 0.45:
        return [gen_value(r, depth - 1) for _ in range(r.choice([0, 1, 2, 2, 3, 4]))]
    return gen_obj(r, depth - 1)


def gen_obj(r, depth=3, n=None):
    n = r.choice([0, 1, 2, 2, 3, 4]) if n is None else n
    return {k: gen_value(r, depth) for k in r.sample(KEYS, min(n, len(KEYS)))}


def small_value(r, depth=2):
    """celpy-safe values (ints within int64, floats in eighths)"""
    if depth <= 0 or r.random() < 0.45:
        return r.choice([None, True, False, 0, 1, 2, -3, 41, 0.5, 2.0, "", "a", "B", "two words", "1", " x",
                         10737418240.0, 2 ** 40, -3.0e12])
    if r.random() < 0.5:
        return [small_value(r, depth - 1) for _ in range(r.choice([0, 1, 2, 3]))]
    return {k: small_value(r, depth - 1) for k in r.sample(KEYS[:6], r.choice([0, 1, 2, 3]))}


# --------------------------------------------------------------------------- reference semantics

def is_scalar(v):
    return not isinstance(v, (list, tuple, dict))


def scalar_eq(x, y):
    """typed JSON equality on scalars: numbers by value, bool != number"""
    if not (is_scalar(x) and is_scalar(y)):
        return False
    if isinstance(x, bool) or isinstance(y, bool):
        return isinstance(x, bool) and isinstance(y, bool) and x == y
    if x is None or y is None:
        return x is None and y is None
    if isinstance(x, str) or isinstance(y, str):
        return isinstance(x, str) and isinstance(y, str) and x == y
    return x == y


def json_eq(x, y):
    """plain typed deep equality (dict order ignored)"""
    if isinstance(x, dict):
        return isinstance(y, dict) and set(x) == set(y) and all(json_eq(x[k], y[k]) for k in x)
    if isinstance(x, (list, tuple)):
        return isinstance(y, (list, tuple)) and len(x) == len(y) and all(json_eq(a, b) for a, b in zip(x, y))
    return scalar_eq(x, y)


def is_obj_list(v):
    return isinstance(v, (list, tuple)) and all(isinstance(i, dict) for i in v)


def member_key(fields, o):
    return "$".join(f"{o.get(f)}".strip() for f in fields)


def keyed_view(fields, xs):
    """the keyed collection of a list of objects: key -> LAST member carrying it; directive names are not keys"""
    out = {}
    for o in xs:
        out[member_key(fields, o)] = o
    return {k: v for k, v in out.items() if k not in DIRECTIVES}


def eqmod_ref(t, a):
    """`a` equals `t` modulo the compare directives written in `t` (the property's own reading)"""
    if isinstance(t, dict):
        if not isinstance(a, dict):
            return False
        tk = {k for k in t if k not in DIRECTIVES}
        ak = {k for k in a if k not in DIRECTIVES}
        if tk != ak:
            return False
        set_keys = {k for k in (t.get(SET) or []) if isinstance(k, str) and k}
        map_keys = {k: [f for f in fs if f] for k, fs in (t.get(MAP) or {}).items() if k}
        for k in tk:
            v, w = t[k], a[k]
            if k in map_keys and is_obj_list(v) and is_obj_list(w):
                kv, kw = keyed_view(map_keys[k], v), keyed_view(map_keys[k], w)
                if set(kv) != set(kw) or not all(eqmod_ref(kv[m], kw[m]) for m in kv):
                    return False
            elif k in set_keys and isinstance(v, list) and isinstance(w, list):
                if not (all(is_scalar(x) for x in v) and all(is_scalar(y) for y in w)):
                    return False
                if not (all(any(scalar_eq(x, y) for y in w) for x in v)
                        and all(any(scalar_eq(x, y) for x in v) for y in w)):
                    return False
            elif not eqmod_ref(v, w):
                return False
        return True
    if isinstance(t, (list, tuple)):
        return isinstance(a, (list, tuple)) and len(t) == len(a) and all(eqmod_ref(x, y) for x, y in zip(t, a))
    return scalar_eq(t, a)


def well_formed(t):
    """directive entries have the documented shape at every depth and no map-directed member is keyed
    by a directive name (the domain on which the model claims to follow the code)"""
    if isinstance(t, dict):
        if SET in t and not (isinstance(t[SET], list) and all(isinstance(k, str) for k in t[SET])):
            return False
        if MAP in t:
            m = t[MAP]
            if not (isinstance(m, dict) and all(isinstance(fs, list) and all(isinstance(f, str) for f in fs)
                                                for fs in m.values())):
                return False
            for k, fs in m.items():
                if k and is_obj_list(t.get(k)):
                    if any(member_key([f for f in fs if f], o) in DIRECTIVES for o in t[k]):
                        return False
        return all(well_formed(v) for v in t.values())
    if isinstance(t, (list, tuple)):
        return all(well_formed(v) for v in t)
    return True


# --------------------------------------------------------------------------- deviations

def paths(v, prefix=()):
    """every position of a JSON tree (directive entries are not descended into)"""
    yield prefix
    if isinstance(v, dict):
        for k, x in v.items():
            if k in DIRECTIVES:
                continue
            yield from paths(x, prefix + (k,))
    elif isinstance(v, list):
        for i, x in enumerate(v):
            yield from paths(x, prefix + (i,))


def get_at(v, path):
    for p in path:
        v = v[p]
    return v


def set_at(v, path, new):
    """copy of v with the value at path replaced"""
    if not path:
        return new
    c = copy.copy(v)
    c[path[0]] = set_at(v[path[0]], path[1:], new)
    return c


def other_scalar(r, s):
    for _ in range(20):
        c = r.choice([None, True, False, 0, 1, 2, 3, 0.5, "a", "b", "zz", "", "1", "true"])
        if not scalar_eq(c, s):
            return c
    return "other-value"


RETYPE = {True: 1, False: 0}


def nudged(r, n):
    """the number next to `n` in the generators' grid, as a float: a relatively tiny but real difference"""
    step = r.choice([1.0, -1.0, 0.125]) if abs(n) >= 1e9 else r.choice([1.0, 0.125, -0.5])
    return float(n) + step


def retyped(s):
    """a value of another JSON type that Python's `==` or `str()` would conflate with `s`"""
    if isinstance(s, bool):
        return 1 if s else 0
    if isinstance(s, (int, float)) and s in (0, 1):
        return bool(s)
    if isinstance(s, (int, float)):
        return f"{s}"
    if s is None:
        return "None"
    if isinstance(s, str):
        return [s] if s else None
    return None


def deviations(r, v, kinds=None, top_must_stay_object=True):
    """[(kind, v')] — each v' differs from v by exactly one step; only genuine differences are returned"""
    out = []
    ps = list(paths(v))
    leaves = [p for p in ps if is_scalar(get_at(v, p)) and p]
    dicts = [p for p in ps if isinstance(get_at(v, p), dict)]
    lists = [p for p in ps if isinstance(get_at(v, p), list)]

    def want(k):
        return kinds is None or k in kinds

    if leaves and want("changed-leaf"):
        p = r.choice(leaves)
        out.append(("changed-leaf", set_at(v, p, other_scalar(r, get_at(v, p)))))
    if leaves and want("retyped-leaf"):
        p = r.choice(leaves)
        out.append(("retyped-leaf", set_at(v, p, retyped(get_at(v, p)))))
    numbers = [p for p in leaves if isinstance(get_at(v, p), (int, float)) and not isinstance(get_at(v, p), bool)]
    if numbers and want("nudged-number"):
        big = [p for p in numbers if abs(get_at(v, p)) >= 1e9]
        p = r.choice(big or numbers)
        out.append(("nudged-number", set_at(v, p, nudged(r, get_at(v, p)))))
    nonempty = [p for p in dicts if [k for k in get_at(v, p) if k not in DIRECTIVES]]
    if nonempty and want("missing-key"):
        p = r.choice(nonempty)
        d = dict(get_at(v, p))
        del d[r.choice([k for k in d if k not in DIRECTIVES])]
        if p or d or not top_must_stay_object:
            out.append(("missing-key", set_at(v, p, d)))
    if dicts and want("extra-key"):
        p = r.choice(dicts)
        d = dict(get_at(v, p))
        k = next(k for k in ["extra", "extra2", "zz"] if k not in d)
        d[k] = r.choice([None, 0, "x", {}, []])
        out.append(("extra-key", set_at(v, p, d)))
    swappable = []
    for p in lists:
        xs = get_at(v, p)
        for i in range(len(xs) - 1):
            if not json_eq(xs[i], xs[i + 1]):
                swappable.append((p, i))
    if swappable and want("list-reorder"):
        p, i = r.choice(swappable)
        xs = list(get_at(v, p))
        xs[i], xs[i + 1] = xs[i + 1], xs[i]
        out.append(("list-reorder", set_at(v, p, xs)))
    if lists and want("list-length"):
        p = r.choice(lists)
        xs = list(get_at(v, p))
        if xs and r.random() < 0.5:
            xs.pop(r.randrange(len(xs)))
        else:
            xs.append(r.choice([None, 0, "x"]))
        out.append(("list-length", set_at(v, p, xs)))
    return [(k, x) for k, x in out if not json_eq(x, v)]


# --------------------------------------------------------------------------- (expected, actual) pairs

def gen_set_list(r):
    return [r.choice([None, True, False, 0, 1, 2, 7, 0.5, 1.0, "a", "b", "", "1"]) for _ in range(r.choice([0, 1, 2, 3, 4]))]


def gen_member(r, names):
    m = {"name": r.choice(names)}
    if r.random() < 0.6:
        m["port"] = r.choice([53, 80, 443, 8080])
    if r.random() < 0.3:
        m["ns"] = r.choice(["x", "y", "x$y", None, 1])
    if r.random() < 0.25:
        m["sub"] = gen_value(r, 1)
    return m


MEMBER_NAMES = ["http", "dns", " http", "x", "y", "x$y", 1, "1", True, None, 1.5, "None"]


def gen_map_list(r):
    return [gen_member(r, MEMBER_NAMES) for _ in range(r.choice([0, 1, 2, 2, 3]))]


def gen_directed_object(r):
    """an expectation (with directives somewhere) and the matching truth"""
    t = gen_obj(r, 2)
    mode = r.random()
    host = t
    if mode < 0.3:      # put the directed part one level down
        t["spec"] = host = gen_obj(r, 1)
    sets, maps = [], {}
    if r.random() < 0.7:
        k = r.choice(["tags", "items", "k1"])
        host[k] = gen_set_list(r)
        sets.append(k)
    if r.random() < 0.7:
        k = r.choice(["ports", "k2"])
        host[k] = gen_map_list(r)
        maps[k] = r.choice([["name"], ["name"], ["name", "ns"], ["name", ""], [], ["missing"]])
    if r.random() < 0.08 and maps:      # a key that is both set- and map-directed
        sets.append(next(iter(maps)))
    if r.random() < 0.1:                # directive naming a key whose value is not a list
        sets.append(r.choice(list(host) or ["a"]))
    if sets:
        host[SET] = sets + ([""] if r.random() < 0.1 else [])
    if maps:
        host[MAP] = maps
    if r.random() < 0.05:
        host[LAST] = True
    return t


def strip_dir(v):
    if isinstance(v, dict):
        return {k: strip_dir(x) for k, x in v.items() if k not in DIRECTIVES}
    if isinstance(v, list):
        return [strip_dir(x) for x in v]
    return v


def shuffle_keys(r, v):
    if isinstance(v, dict):
        ks = list(v)
        r.shuffle(ks)
        return {k: shuffle_keys(r, v[k]) for k in ks}
    if isinstance(v, list):
        return [shuffle_keys(r, x) for x in v]
    return v


def directed_positions(t, prefix=()):
    """[(path-to-list, 'set'|'map', fields)] for the directed lists of an expectation"""
    out = []
    if isinstance(t, dict):
        set_keys = [k for k in (t.get(SET) or []) if k]
        map_keys = {k: [f for f in fs if f] for k, fs in (t.get(MAP) or {}).items() if k}
        for k, v in t.items():
            if k in DIRECTIVES:
                continue
            if k in map_keys and is_obj_list(v):
                out.append((prefix + (k,), "map", map_keys[k]))
            elif k in set_keys and isinstance(v, list):
                out.append((prefix + (k,), "set", None))
            out.extend(directed_positions(v, prefix + (k,)))
    elif isinstance(t, list):
        for i, v in enumerate(t):
            out.extend(directed_positions(v, prefix + (i,)))
    return out


def gen_pair(r):
    """(kind, expected, actual): truth, a harmless variation of it, or truth + one perturbation"""
    if r.random() < 0.25:
        t = gen_value(r, 3)
        if not isinstance(t, dict) or r.random() < 0.5:
            a = copy.deepcopy(t)
            devs = deviations(r, a, top_must_stay_object=False) if r.random() < 0.7 else []
            if devs:
                k, a2 = r.choice(devs)
                return k, t, a2
            if is_scalar(t) and r.random() < 0.5:
                return "retyped-leaf", t, retyped(t)
            return "truth", t, a
    t = gen_directed_object(r)
    a = shuffle_keys(r, strip_dir(copy.deepcopy(t)))
    pos = directed_positions(t)
    choice = r.random()
    if choice < 0.15:
        return "truth", t, a
    if choice < 0.35 and pos:
        # harmless: reorder / duplicate inside a set-directed list, reorder a map-directed list
        p, kind, fields = r.choice(pos)
        xs = list(get_at(a, p))
        r.shuffle(xs)
        if kind == "set" and xs and r.random() < 0.5:
            xs.append(r.choice(xs))
        return f"{kind}-list-reorder", t, set_at(a, p, xs)
    if choice < 0.7 and pos:
        p, kind, fields = r.choice(pos)
        xs = list(get_at(a, p))
        if kind == "set":
            sub = r.random()
            if sub < 0.35 and xs:
                i = r.randrange(len(xs))
                xs[i] = retyped(xs[i]) if is_scalar(xs[i]) else 0
                return "set-list-retype", t, set_at(a, p, xs)
            if sub < 0.6 and xs:
                xs.pop(r.randrange(len(xs)))
                return "set-list-missing", t, set_at(a, p, xs)
            if sub < 0.85:
                xs.append(r.choice(["new", 99, None, True, [1], {"a": 1}]))
                return "set-list-extra", t, set_at(a, p, xs)
            return "set-list-type", t, set_at(a, p, r.choice(["", {}, None, 0, "abc"]))
        sub = r.random()
        if sub < 0.2 and xs:
            xs.pop(r.randrange(len(xs)))
            return "map-list-missing", t, set_at(a, p, xs)
        if sub < 0.4:
            xs.append(gen_member(r, ["new", "http", 1]))
            return "map-list-extra", t, set_at(a, p, xs)
        if sub < 0.6 and xs:
            i = r.randrange(len(xs))
            m = dict(xs[i])
            k = r.choice(list(m))
            m[k] = other_scalar(r, m[k]) if is_scalar(m[k]) else 0
            xs[i] = m
            return "map-list-member-changed", t, set_at(a, p, xs)
        if sub < 0.75 and xs:
            i = r.randrange(len(xs))
            m = dict(xs[i])
            m["name"] = retyped(m.get("name"))
            xs[i] = m
            return "map-list-key-retyped", t, set_at(a, p, xs)
        return "map-list-type", t, set_at(a, p, r.choice(["", {}, [], None, 0, 7, "x", [None], [[1]], {"a": 1}, True,
                                                            [1, 2]]))
    devs = deviations(r, a)
    if devs:
        k, a2 = r.choice(devs)
        return k, t, a2
    return "truth", t, a


# --------------------------------------------------------------------------- functions under test

TRIPS = {
    "permFail": ("permFail", {"message": "Tripped PermFail by input"}),
    "retry": ("retry", {"message": "Tripped Retry by input", "delay": 17}),
    "skip": ("skip", {"message": "Tripped Skip by input"}),
    "depSkip": ("depSkip", {"message": "Tripped DepSkip by input"}),
}


def trip_predicates(root: str):
    return [{"assert": f"=!has({root}.trip.{name})", kind: body} for name, (kind, body) in TRIPS.items()]


# koreo's own CEL functions and the list/map macros, applied to nested values that come from the inputs
# (`gen_inputs` always provides `nested`: ≥2 non-empty lists, `groups`: ≥2 maps with non-empty `members`,
# `labels`: a map).  A function that touches its arguments in place shows up in the echo of the next case.
DERIVED = {
    "flat": "=inputs.nested.flatten()",
    "members": "=inputs.groups.map(g, g.members).flatten()",
    "merged": "=inputs.labels.overlay({'added': 'x', 'tier': {'level': 2}})",
    "long": "=inputs.nested.filter(l, size(l) > 1)",
    "sizes": "=inputs.nested.map(l, size(l))",
    "names": "=inputs.groups.map(g, g.name.lower())",
    "json": "=to_json(inputs.nested)",
    "first": "=inputs.name.split_first('-')",
}


def derived_fields(r, p=0.75):
    """a few input-derived computed fields (each function evaluates them on the very inputs object it was handed)"""
    if r.random() > p:
        return {}
    ks = r.sample(sorted(DERIVED), r.choice([1, 2, 3, 4]))
    if r.random() < 0.7 and "flat" not in ks and "members" not in ks:
        ks.append(r.choice(["flat", "members"]))
    return {k: DERIVED[k] for k in ks}


def value_function_spec(r):
    """echoes its inputs (and, through the overlay base, the resource it was given)"""
    spec = {"preconditions": trip_predicates("inputs"),
            "return": {"echo": "=inputs", "fixed": {"n": r.choice([1, 2, 3]), "s": r.choice(SAFE_STR)}}}
    if r.random() < 0.3:
        spec["locals"] = {"l": r.choice(SAFE_STR)}
        spec["return"]["local"] = "=locals.l"
    d = derived_fields(r)
    if d:
        spec["return"]["derived"] = d
    return spec


def resource_function_spec(r):
    """target built from the inputs (so what is sent echoes them); outcome steered by `inputs.trip` /
    `resource.status.trip`; returns inputs and the resource once it matches"""
    meta = {}
    ann = r.random()
    if ann < 0.25:
        meta["annotations"] = {}
    elif ann < 0.4:
        meta["annotations"] = {"team": r.choice(SAFE_STR)}
    if r.random() < 0.3:
        meta["labels"] = {"app": r.choice(SAFE_STR)}
    if r.random() < 0.35:
        # the target names owners itself (the runner's own owner is never applied: namespaces differ)
        meta["ownerReferences"] = [{"apiVersion": "v1", "kind": "Owner", "name": f"owner{i}", "uid": f"uid-{i}"}
                                   for i in range(r.choice([1, 1, 2]))]
    spec_body = {"payload": "=inputs.payload", "fixed": {"n": r.choice([1, 2]), "flag": r.choice([True, False]),
                                                            "list": [1, 2, 3]}}
    if r.random() < 0.4:
        spec_body["tags"] = ["b", "a", "c"]
        spec_body[SET] = ["tags"]
    if r.random() < 0.4:
        spec_body["ports"] = [{"name": "http", "port": 80}, {"name": "dns", "port": 53}]
        spec_body[MAP] = {"ports": ["name"]}
    d = derived_fields(r, 0.6)
    if d:
        spec_body["derived"] = d
    resource = {"spec": spec_body}
    if meta:
        resource["metadata"] = meta
    api = {"apiVersion": "verif.koreo.dev/v1", "kind": "FtProbe", "name": "=inputs.name",
           "namespace": "ft-ns"}
    if r.random() < 0.85:
        api["plural"] = "ftprobes"
    mode = r.random()
    if mode < 0.1:
        api["readonly"] = True
    elif mode < 0.2:
        api["deleteIfExists"] = True
    spec = {
        "apiConfig": api,
        "preconditions": trip_predicates("inputs"),
        "resource": resource,
        "postconditions": [{"assert": f"=!has(resource.status.trip.{name})", kind: dict(body, message="Post " + body["message"])}
                           for name, (kind, body) in TRIPS.items()],
        "return": {"echo": "=inputs", "seen": "=resource"},
    }
    d = derived_fields(r, 0.5)
    if d:
        spec["return"]["derived"] = d
    if r.random() < 0.6:
        spec["create"] = {"delay": r.choice([5, 11, 30])}
        if r.random() < 0.5:
            spec["create"]["overlay"] = {"spec": {"createOnly": r.choice(SAFE_STR)}}
    upd = r.random()
    if upd < 0.4:
        spec["update"] = {"patch": {"delay": r.choice([7, 13, 30])}}
    elif upd < 0.6:
        spec["update"] = {"recreate": {"delay": r.choice([9, 19])}}
    elif upd < 0.7:
        spec["update"] = {"never": {}}
    return spec


def gen_nested(r):
    """≥2 non-empty lists of scalars"""
    return [[r.choice([1, 2, 3, "a", "b", True, 0.5]) for _ in range(r.choice([1, 2, 3]))]
            for _ in range(r.choice([2, 2, 3, 4]))]


def gen_groups(r):
    return [{"name": r.choice(["Core", "infra", "Ops-1"]),
             "members": [r.choice(["ann", "bob", "cy", "dee"]) for _ in range(r.choice([1, 2, 3]))]}
            for _ in range(r.choice([2, 2, 3]))]


def gen_inputs(r, trip=None):
    inputs = {"name": r.choice(["alpha", "beta", "gamma-1"]), "payload": small_value(r, 2),
              "nested": gen_nested(r), "groups": gen_groups(r),
              "labels": {"app": r.choice(SAFE_STR[:4]), "tier": r.choice([{"level": 1}, "gold"])}}
    if r.random() < 0.5:
        inputs["extra"] = small_value(r, 1)
    if trip:
        inputs["trip"] = {trip: True}
    return inputs


# --------------------------------------------------------------------------- driving the real code

async def _offer_function(kind: str, name: str, spec: dict):
    if kind == "ValueFunction":
        return await ku.offer_value_function(name, spec)
    return await ku.offer_resource_function(name, spec)


_FN_CACHE: dict = {}      # spec key -> (name in koreo's cache, prepared function); a handful at a time


async def prepare_ft_async(kind: str, fn_spec: dict, ft_spec: dict, fn_name="fut", reset=True):
    """prepare the Function through the real cache, then the FunctionTest; -> (function, function_test).
    A few prepared Functions are kept (each under its own name) so that probing the same scenario with two
    variants of a spec does not re-compile them every time."""
    from koreo import result
    from koreo.function_test.prepare import prepare_function_test

    key = json.dumps([kind, fn_name, fn_spec, str(common.REPO)], sort_keys=True, default=str)
    hit = _FN_CACHE.get(key)
    if hit is not None:
        fn_name, fn = hit
    else:
        if len(_FN_CACHE) >= 6:
            _FN_CACHE.clear()
            if reset:
                ku.reset()
        elif not _FN_CACHE and reset:
            ku.reset()
        fn_name = f"{fn_name}-{len(_FN_CACHE)}"
        fn = await _offer_function(kind, fn_name, fn_spec)
        if not result.is_unwrapped_ok(fn):
            raise Infra(f"generated {kind} did not prepare: {fn}")
        _FN_CACHE[key] = (fn_name, fn)
    spec = dict(copy.deepcopy(ft_spec), functionRef={"kind": kind, "name": fn_name})
    prepared = await prepare_function_test(cache_key="ft", spec=spec)
    if not result.is_unwrapped_ok(prepared):
        return fn, prepared
    return fn, prepared[0]


async def run_ft_async(function_test):
    """run_function_test; a crash inside the Function under test is re-raised as FunctionRaised"""
    from koreo.function_test.run import run_function_test

    try:
        return await run_function_test(location="verif", function_test=function_test)
    except Exception as e:
        if raised_in_runner(e):
            raise
        raise FunctionRaised(f"{type(e).__name__}: {e}") from e


def effect_of_requests(current, calls) -> dict:
    """what the Function did to the API, from the REQUESTS it made (recorded at the call boundary), never from
    what the mock says it holds: no mutating request -> none; last one a DELETE -> deleted; last one a
    POST/PATCH -> wrote, and 'the object sent' is the body, for a patch laid over the case's own resource with
    every top-level key the body names REPLACED (DESIGN section 7 / notes C19: nothing below the top level of
    the current resource survives unless the body says so)"""
    muts = [c for c in calls if c["c"] != "get"]
    if not muts:
        return {"e": "none"}
    last = muts[-1]
    if last["c"] == "delete":
        return {"e": "deleted"}
    body = copy.deepcopy(last["body"])
    if current and isinstance(current, dict) and isinstance(body, dict):
        m = copy.deepcopy(current)
        m.update(body)
        return {"e": "wrote", "m": m}
    return {"e": "wrote", "m": body}


def _record_requests(api, calls: list):
    """wrap THIS mock instance's `async_get` / `call_api` so that every request is appended to `calls`
    ({"c": "get"} | {"c": "delete"} | {"c": "write", "verb": ..., "body": ...}) before the mock sees it"""
    orig_call = getattr(api, "call_api", None)
    orig_get = getattr(api, "async_get", None)
    if orig_call is None:
        return

    def rec_call(*a, **k):
        verb = next((x for x in a if isinstance(x, str)), k.get("method"))
        if "DELETE" in a or verb == "DELETE":
            calls.append({"c": "delete"})
        else:
            raw = k.get("data", "{}")
            try:
                body = json.loads(raw) if isinstance(raw, (str, bytes)) else copy.deepcopy(raw)
            except Exception:
                body = None
            calls.append({"c": "write", "verb": verb, "body": body})
        return orig_call(*a, **k)

    def rec_get(*a, **k):
        calls.append({"c": "get"})
        return orig_get(*a, **k)

    try:
        api.call_api = rec_call
        if orig_get is not None:
            api.async_get = rec_get
    except Exception:
        pass


@contextlib.contextmanager
def observe(record_requests: bool = False):
    """record, for every case the runner executes, what it handed to the Function and what came back.
    `record_requests`: additionally record the requests the Function made ("calls") and the effect derived
    from them alone ("eff_sent", see `effect_of_requests`) — "eff" stays what the mock reports."""
    from koreo.function_test import run as ftrun

    if not (hasattr(ftrun, "reconcile_value_function") and hasattr(ftrun, "reconcile_resource_function")):
        raise Infra("function_test.run no longer calls reconcile_value_function/reconcile_resource_function by name")
    log: list[dict] = []
    orig_v, orig_r = ftrun.reconcile_value_function, ftrun.reconcile_resource_function

    async def rec_v(*a, **k):
        inputs = ku.plain(k.get("inputs"))
        base = k.get("value_base")
        res = await orig_v(*a, **k)
        entry = {"inputs": inputs, "resource": (ku.plain(base) or None), "out": res, "eff": {"e": "none"}}
        if record_requests:
            entry["calls"] = []
            entry["eff_sent"] = {"e": "none"}
        log.append(entry)
        return res

    async def rec_r(*a, **k):
        api = k.get("api")
        inputs = ku.plain(k.get("inputs"))
        cur = copy.deepcopy(getattr(api, "_current_resource", None))
        calls: list = []
        if record_requests:
            _record_requests(api, calls)
        res = await orig_r(*a, **k)
        if getattr(api, "_delete_called", False):
            eff = {"e": "deleted"}
        elif getattr(api, "_api_called", False):
            eff = {"e": "wrote", "m": copy.deepcopy(api.materialized)}
        else:
            eff = {"e": "none"}
        entry = {"inputs": inputs, "resource": (cur or None), "out": res[0], "eff": eff}
        if record_requests:
            entry["calls"] = calls
            entry["eff_sent"] = effect_of_requests(cur, calls)
        log.append(entry)
        return res

    ftrun.reconcile_value_function, ftrun.reconcile_resource_function = rec_v, rec_r
    try:
        yield log
    finally:
        ftrun.reconcile_value_function, ftrun.reconcile_resource_function = orig_v, orig_r


class FunctionRaised(Exception):
    """the Function under test itself raised (reconcile code, not the runner): outside C18/C19"""


def raised_in_runner(exc: BaseException) -> bool:
    """True if the innermost koreo frame of the traceback is the FunctionTest runner's own code"""
    tb = exc.__traceback__
    last_koreo = None
    while tb is not None:
        fn = tb.tb_frame.f_code.co_filename.replace("\\", "/")
        if "/koreo/" in fn:
            last_koreo = fn
        tb = tb.tb_next
    return last_koreo is None or "/function_test/" in last_koreo


# --------------------------------------------------------------------------- observations -> wire

def out_wire(o) -> dict:
    """an unwrapped outcome as the drivers read it"""
    c = ku.outcome_class(o)
    if c == "ok":
        return {"c": "ok", "v": to_wire(ku.plain(o))}
    d = {"c": c, "m": o.message}
    if c == "retry":
        d["d"] = str(o.delay)
    return d


def eff_wire(e: dict) -> dict:
    return {"e": "wrote", "m": to_wire(e["m"])} if e["e"] == "wrote" else {"e": e["e"]}


def opt_wire(v):
    return None if v is None else {"some": to_wire(v)}


def expect_wire(spec: dict) -> dict:
    """an `expectOutcome` spec as the model's Expect"""
    if "ok" in spec:
        return {"k": "outcome", "c": "ok"}
    for c in ("depSkip", "skip", "permFail"):
        if c in spec:
            return {"k": "outcome", "c": c, "m": spec[c]["message"]}
    return {"k": "outcome", "c": "retry", "m": spec["retry"]["message"], "d": str(spec["retry"]["delay"])}


def assertion_wire(case: dict) -> dict:
    if "expectOutcome" in case:
        return expect_wire(case["expectOutcome"])
    if "expectReturn" in case:
        return {"k": "return", "v": to_wire(case["expectReturn"])}
    if "expectResource" in case:
        return {"k": "resource", "v": to_wire(case["expectResource"])}
    return {"k": "delete", "b": bool(case["expectDelete"])}


# --------------------------------------------------------------------------- snapshots (isolation)

_EXCLUDED_CLASS_ATTRS = {"plural", "endpoint"}   # DESIGN section 7: the kr8s plural/endpoint memo


def snapshot(obj, _seen=None, _depth=0):
    """deep structural snapshot; programs and other opaque objects by identity + type"""
    import celpy
    from celpy import celtypes

    if _seen is None:
        _seen = set()
    if _depth > 40:
        return "<deep>"
    if obj is None or isinstance(obj, (bool, int, float, str, bytes)):
        if isinstance(obj, (celtypes.BoolType,)):
            return ["cel-bool", bool(obj)]
        return [type(obj).__name__, obj if not isinstance(obj, float) else repr(obj)]
    if isinstance(obj, dict):
        return ["dict", type(obj).__name__, [[snapshot(k, _seen, _depth + 1), snapshot(v, _seen, _depth + 1)]
                                              for k, v in obj.items()]]
    if isinstance(obj, (list, tuple, set, frozenset)):
        items = list(obj)
        if isinstance(obj, (set, frozenset)):
            items = sorted(items, key=repr)
        fields = getattr(obj, "_fields", None)
        return ["seq", type(obj).__name__, list(fields) if fields else None,
                [snapshot(x, _seen, _depth + 1) for x in items]]
    if isinstance(obj, type):
        attrs = {}
        for k in ("version", "kind", "namespaced", "scalable", "singular"):
            if hasattr(obj, k) and k not in _EXCLUDED_CLASS_ATTRS:
                attrs[k] = repr(getattr(obj, k))
        return ["class", obj.__name__, attrs]
    if isinstance(obj, celpy.Runner):
        return ["program", type(obj).__name__, id(obj), id(getattr(obj, "ast", None))]
    if id(obj) in _seen:
        return ["ref", type(obj).__name__, id(obj)]
    _seen.add(id(obj))
    d = getattr(obj, "__dict__", None)
    if isinstance(d, dict):
        return ["object", type(obj).__name__, id(obj),
                [[k, snapshot(v, _seen, _depth + 1)] for k, v in sorted(d.items())]]
    return ["opaque", type(obj).__name__, id(obj)]


def snap_text(obj) -> str:
    return json.dumps(snapshot(obj), sort_keys=False, default=repr)
