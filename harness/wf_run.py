"""Reusable workflow runner (C01 / C02 / C09).

    prep = prepare_case(case)            everything offered through the real cache with the real prepare_*
    obs  = run_prepared(prep, order=…)   one `reconcile_workflow` pass under the virtual-time loop against a
                                         fresh in-memory cluster; returns canonical observations

Completion orders.  A *unit* is one evaluation of a ResourceFunction (its first API request is a GET of a
resource whose name is unique to the reference site, plus the forEach item): `"<name>#<k>"` is the k-th time
that name is fetched in a pass.  `order` lists units in the wanted completion order; the cluster then delays
each unit's GET until its slot `(position+1)·gap` of virtual time (or not at all if its slot has passed because
a dependency was scheduled later), and every mutation by `gap/2`.  All slots lie below `STEP_TIMEOUT`.  With
`order=None` nothing ever suspends: the pass is the sequential, listed-order one.

The virtual loop's task factory records, for every asyncio task koreo creates, its name and parent, and the
order in which tasks finish: `obs["events"]` is the top-level completion schedule ([label] / [label, index])
in the vocabulary of the Lean model's `runAsync`.
"""
from __future__ import annotations

import asyncio
import copy
import re

import common  # noqa: F401
import koreo_util as ku
from cluster import Cluster
from common import canon_unordered
from gen_wf import API_VERSION, LOAD_RETRY, initial_objects, koreo_specs, main_steps
from vloop import VirtualLoop

REASON_CLASS = {"Ready": "ok", "Skip": "skip", "DepSkip": "depSkip", "Wait": "retry", "Failure": "permFail"}


def _skip_patterns():
    """how the current code renders Skip / DepSkip inside a forEach result list (`_outcome_encoder`)"""
    from koreo import result

    pats = []
    for cls, mark in ((result.DepSkip, "<depSkip>"), (result.Skip, "<skip>")):
        with_msg = re.escape(str(cls(message="\x00"))).replace(re.escape("\x00"), ".*")
        pats.append((re.compile(f"^(?:{with_msg}|{re.escape(str(cls()))})$", re.S), mark))
    return pats


_SKIP_PATS = None


class Prepared:
    def __init__(self, case, workflow, deps, problems):
        self.case = case
        self.workflow = workflow
        self.deps = deps            # label -> sorted dynamic_input_keys as computed by the real prepare
        self.problems = problems    # definitions the real prepare did not accept (should be empty)
        self.objects = initial_objects(case, ku.OWNER_REF)
        self.workflows = {}         # name -> prepared Workflow of every definition of the case (sub-workflows too)


def step_timeout() -> float:
    from koreo.workflow import reconcile

    return float(reconcile.STEP_TIMEOUT)


def check_constants():
    from koreo import constants

    if constants.DEFAULT_LOAD_RETRY_DELAY != LOAD_RETRY:
        raise common.Infra("gen_wf.LOAD_RETRY is out of date with koreo.constants.DEFAULT_LOAD_RETRY_DELAY")


def prepare_case(case, reset=True) -> Prepared:
    """offer every Function and Workflow of the case to the real cache (real prepare_*)"""
    from koreo import result as kresult
    from koreo.cache import get_resource_from_cache
    from koreo.workflow.structure import Step, Workflow

    problems = []

    async def go():
        for kind, name, spec in koreo_specs(case):
            offer = {"ValueFunction": ku.offer_value_function, "ResourceFunction": ku.offer_resource_function,
                     "Workflow": ku.offer_workflow}[kind]
            got = await offer(name, spec)
            if not kresult.is_unwrapped_ok(got):
                problems.append(f"{kind}:{name}: {got}")

    if reset:
        ku.reset()
    ku.run(go())
    wf = get_resource_from_cache(resource_class=Workflow, cache_key=case["main"])
    deps = {}
    if wf is not None and kresult.is_unwrapped_ok(wf):
        if not kresult.is_ok(wf.steps_ready):
            problems.append(f"steps_ready: {wf.steps_ready}")
        for s in wf.steps:
            deps[s.label] = sorted(s.dynamic_input_keys) if isinstance(s, Step) else None
    else:
        problems.append(f"main workflow not prepared: {wf}")
    prep = Prepared(case, wf, deps, problems)
    for w in case["defs"]:
        obj = get_resource_from_cache(resource_class=Workflow, cache_key=w["name"])
        if obj is not None and kresult.is_unwrapped_ok(obj):
            prep.workflows[w["name"]] = obj
    return prep


# --------------------------------------------------------------------------- canonical values

def plain_typed(v):
    """like koreo_util.plain, but CEL values without a JSON counterpart keep their TYPE: a timestamp / duration / bytes
    / uint becomes a one-key map {"$ts": iso} / {"$dur": seconds} / {"$bytes": hex} / {"$uint": n} — the shape in which
    the generators (and the model, for which values are opaque) carry such values"""
    from celpy import celtypes

    if isinstance(v, celtypes.TimestampType):
        return {"$ts": str(v)}
    if isinstance(v, celtypes.DurationType):
        return {"$dur": int(v.total_seconds())}
    if isinstance(v, celtypes.BytesType):
        return {"$bytes": bytes(v).hex()}
    if isinstance(v, celtypes.UintType):
        return {"$uint": int(v)}
    if isinstance(v, dict):
        return {ku.plain(k): plain_typed(x) for k, x in v.items()}
    if isinstance(v, (list, tuple)):
        return [plain_typed(x) for x in v]
    return ku.plain(v)


def canon_value(v):
    """plain JSON with the rendered Skip/DepSkip strings of forEach lists replaced by markers"""
    global _SKIP_PATS
    if isinstance(v, str):
        if _SKIP_PATS is None:
            _SKIP_PATS = _skip_patterns()
        for pat, mark in _SKIP_PATS:
            if pat.match(v):
                return mark
        return v
    if isinstance(v, dict):
        return {k: canon_value(x) for k, x in v.items()}
    if isinstance(v, (list, tuple)):
        return [canon_value(x) for x in v]
    return v


def outcome_abs(o):
    """(class, delay, value) of an unwrapped outcome"""
    c = ku.outcome_class(o)
    d = {"c": c}
    if c == "retry":
        d["d"] = int(o.delay)
    if c == "ok":
        from koreo import result

        d["v"] = canon_unordered(canon_value(plain_typed(o.data if isinstance(o, result.Ok) else o)))
    return d


def abstract_rids(r):
    """resource ids reduced to what the model tracks: (function, name), list / sub-workflow structure kept"""
    if r is None:
        return None
    if isinstance(r, list):
        return [abstract_rids(x) for x in r]
    if isinstance(r, dict):
        if "workflow" in r and "resources" in r:
            return {"workflow": r["workflow"], "resources": {k: abstract_rids(v) for k, v in r["resources"].items()}}
        return {"fn": r.get("resourceFunction"), "name": r.get("name")}
    return {"__unknown__": repr(r)}


# --------------------------------------------------------------------------- one pass

class _Recorder:
    """task factory: names, parents and completion order of every task created during the pass"""

    def __init__(self, loop):
        self.loop = loop
        self.parent = {}
        self.finished = []
        self.root = None

    def factory(self, loop, coro, **kw):
        task = asyncio.Task(coro, loop=loop, **kw)
        try:
            cur = asyncio.current_task(loop)
        except RuntimeError:
            cur = None
        self.parent[task] = cur
        task.add_done_callback(self.finished.append)
        return task

    def tree(self):
        """every task koreo created, creation order: name, parent (index or None = the root), final state"""
        tasks = [t for t in self.parent if t is not self.root]
        index = {t: i for i, t in enumerate(tasks)}
        out = []
        for t in tasks:
            if not t.done():
                state = "pending"
            elif t.cancelled():
                state = "cancelled"
            elif t.exception() is not None:
                state = "raised"
            else:
                state = "done"
            out.append({"tid": id(t), "name": t.get_name(), "parent": index.get(self.parent.get(t)), "state": state})
        return out

    def events(self, labels: set[str]):
        """top-level completion schedule: [label] for a step task, [label, i] for a forEach iteration"""
        out = []
        for t in self.finished:
            p = self.parent.get(t)
            name = t.get_name()
            if p is self.root and name in labels:
                out.append([name])
            elif p is not None and self.parent.get(p) is self.root and p.get_name() in labels:
                m = re.fullmatch(re.escape(p.get_name()) + r"-(\d+)", name)
                if m:
                    out.append([p.get_name(), int(m.group(1))])
        return out


def cool_lookups(prep: Prepared):
    """make the next pass discover the plural of every ResourceFunction prepared without one again: forget koreo's
    plural map and the plural memoised on the (process-global) kr8s class of those functions"""
    from koreo.cache import get_resource_from_cache
    from koreo.constants import PLURAL_LOOKUP_NEEDED
    from koreo.resource_function.reconcile import kind_lookup
    from koreo.resource_function.structure import ResourceFunction

    kind_lookup._reset()
    for fid, f in prep.case["fns"].items():
        if f.get("rf") and f["rf"].get("noplural"):
            fn = get_resource_from_cache(resource_class=ResourceFunction, cache_key=f.get("name", fid))
            if fn is not None and hasattr(fn, "crud_config"):
                fn.crud_config.resource_api.plural = PLURAL_LOOKUP_NEEDED
                fn.crud_config.resource_api.endpoint = PLURAL_LOOKUP_NEEDED


_DEFAULT_TASK_NAME = re.compile(r"Task-\d+$")


def _nested_event(names):
    """task-name chain below the root -> path-addressed event of the nested model:
    [label] | [label, i] | {"in": [label, i|None], "ev": …}"""
    L = names[0]
    if len(names) == 1:
        return [L]
    m = re.fullmatch(re.escape(L) + r"-(\d+)", names[1])
    if m:
        i = int(m.group(1))
        if len(names) == 2:
            return [L, i]
        return {"in": [L, i], "ev": _nested_event(names[2:])}
    return {"in": [L, None], "ev": _nested_event(names[1:])}


def nested_events(rec, labels):
    """the full completion schedule of a pass: every step / forEach-iteration task koreo created at any nesting
    level, in the order they finished, addressed by the chain of task names from the top-level step down"""
    out = []
    for t in rec.finished:
        chain = []
        cur = t
        while cur is not None and cur is not rec.root:
            chain.append(cur.get_name())
            cur = rec.parent.get(cur)
        if cur is not rec.root or not chain:
            continue
        chain.reverse()
        if chain[0] not in labels or any(_DEFAULT_TASK_NAME.match(n) for n in chain):
            continue
        out.append(_nested_event(chain))
    return out


def run_prepared(prep: Prepared, order=None, faults=None, objects=None, trigger=None, extra_latency=None,
                 cluster_factory=None, lookup_latency=None):
    """one reconcile pass; returns the observation dict (see module doc).  `order`: list of unit keys.
    `faults`: {api-call index: fault} as in cluster.Cluster.  Raises nothing koreo does not raise.
    `cluster_factory(objects=…, faults=…)` may supply a Cluster subclass (C09 records the calling task)."""
    import celpy
    from koreo.workflow.reconcile import reconcile_workflow

    case = prep.case
    cl = (cluster_factory or Cluster)(objects=copy.deepcopy(prep.objects if objects is None else objects), faults=faults)
    loop = VirtualLoop()
    rec = _Recorder(loop)
    loop.set_task_factory(rec.factory)
    limit = step_timeout()
    slots = {}
    gap = 0.0
    if order:
        gap = 0.9 * limit / (len(order) + 1)
        slots = {u: (i + 1) * gap for i, u in enumerate(order)}
    seen: dict[str, int] = {}
    units: list[str] = []

    def latency(i, method, key):
        extra = extra_latency(i, method, key) if extra_latency else 0.0
        if method != "GET":
            return gap / 2 + extra
        name = key[3]
        k = seen.get(name, 0)
        seen[name] = k + 1
        u = f"{name}#{k}"
        units.append(u)
        t = slots.get(u)
        if t is None:
            return extra
        return max(0.0, t - loop.time()) + extra

    cl.latency = latency
    if lookup_latency:
        cl.lookup_latency = lookup_latency
    trig = case["trig"] if trigger is None else trigger

    async def go():
        rec.root = asyncio.current_task()
        return await reconcile_workflow(api=cl, workflow_key=case["main"], owner=("ns", dict(ku.OWNER_REF)),
                                        trigger=celpy.json_to_cel(copy.deepcopy(trig)), workflow=prep.workflow)

    t0 = loop.time()
    raised = None
    res = None
    try:
        asyncio.set_event_loop(loop)
        res = loop.run_until_complete(go())
    except (KeyboardInterrupt, SystemExit):
        raise
    except BaseException as e:  # reconcile_workflow is expected never to raise (C09); exception groups included
        raised = repr(e)
    finally:
        tree = rec.tree()       # before the clean-up below: a task still pending here was left behind by koreo
        try:
            pending = [t for t in asyncio.all_tasks(loop) if not t.done()]
            for t in pending:
                t.cancel()
            if pending:
                loop.run_until_complete(asyncio.gather(*pending, return_exceptions=True))
        except Exception:
            pass
        elapsed = loop.time() - t0
        asyncio.set_event_loop(None)
        loop.close()
    labels = {s["label"] for s in main_steps(case)}
    obs = {"raised": raised, "elapsed": elapsed, "units": units,
           "log": [[e["method"], e["name"]] for e in cl.log],
           "lookups": list(cl.lookups),      # kind-discovery calls (`lookup_kind`) that reached the API
           "events": rec.events(labels), "nevents": nested_events(rec, labels), "cluster": cl, "task_tree": tree}
    if res is not None:
        conds = [[c.get("type"), c.get("reason"), c.get("status")] for c in res.conditions]
        obs.update({
            "overall": outcome_abs(res.result),
            "state": canon_unordered(canon_value(plain_typed(res.state))),
            "state_plain": canon_value(plain_typed(res.state)),
            "stateErrors": sorted(res.state_errors),
            "conditions": conds,
            "classes": {t[1:]: REASON_CLASS.get(r, "?" + str(r)) for t, r, _ in conds if t != "Ready" and t[1:] in labels},
            "rids": abstract_rids(res.resource_ids),
            "rids_full": canon_unordered(ku.plain(res.resource_ids)),
            # message texts and locations exactly as returned (compared between passes of ONE implementation only)
            "texts": {
                "overall": [getattr(res.result, "message", None), getattr(res.result, "location", None)],
                "conditions": [[c.get("type"), c.get("message"), c.get("location")] for c in res.conditions],
                "stateErrors": {k: str(v) for k, v in sorted(res.state_errors.items())},
            },
        })
    return obs


def run_sub(prep: Prepared, name: str, trigger, objects=None):
    """reconcile one (sub-)workflow definition of the case on its own, sequentially, against a fresh copy of the
    initial cluster: {"raised", "overall": (class, delay, value), "log"} — what that definition really does on `trigger`"""
    import celpy
    from koreo.workflow.reconcile import reconcile_workflow

    wf = prep.workflows.get(name)
    if wf is None:
        return None
    cl = Cluster(objects=copy.deepcopy(prep.objects if objects is None else objects))
    loop = VirtualLoop()
    out = {"raised": None, "overall": None}
    try:
        asyncio.set_event_loop(loop)
        res = loop.run_until_complete(reconcile_workflow(
            api=cl, workflow_key=name, owner=("ns", dict(ku.OWNER_REF)),
            trigger=celpy.json_to_cel(copy.deepcopy(trigger)), workflow=wf))
        out["overall"] = outcome_abs(res.result)
        out["state"] = canon_unordered(canon_value(plain_typed(res.state)))
    except (KeyboardInterrupt, SystemExit):
        raise
    except BaseException as e:
        out["raised"] = repr(e)
    finally:
        try:
            pending = [t for t in asyncio.all_tasks(loop) if not t.done()]
            for t in pending:
                t.cancel()
            if pending:
                loop.run_until_complete(asyncio.gather(*pending, return_exceptions=True))
        except Exception:
            pass
        asyncio.set_event_loop(None)
        loop.close()
    out["log"] = [[e["method"], e["name"]] for e in cl.log]
    return out


def result_view(obs):
    """what C02 requires to be the same under every completion order"""
    return {k: obs.get(k) for k in ("raised", "overall", "state", "stateErrors", "conditions", "rids_full")}


# --------------------------------------------------------------------------- the model's answer, same vocabulary

def result_view_full(obs):
    """`result_view` plus every message text / location of the Result (C02: between completion orders of one tree)"""
    v = result_view(obs)
    v["texts"] = obs.get("texts")
    return v


def model_view(ans):
    """canonical view of a driver answer (WorkflowWire.ofResult) comparable with run_prepared's observation"""
    from common import from_wire

    def res(r):
        d = {"c": r["c"]}
        if r["c"] == "retry":
            d["d"] = int(r["d"])
        if r["c"] == "ok":
            d["v"] = canon_unordered(from_wire(r["v"]))
        return d

    def rids(v):
        if isinstance(v, dict) and set(v) == {"fn", "name"}:
            return v
        if isinstance(v, dict):
            return {"workflow": v["workflow"], "resources": {k: rids(x) for k, x in v["resources"].items()}}
        if isinstance(v, list):
            return [rids(x) for x in v]
        return v

    return {
        "overall": res(ans["overall"]),
        "state": canon_unordered(from_wire(ans["state"])),
        "state_plain": from_wire(ans["state"]),
        "stateErrors": sorted(ans["stateErrors"]),
        "conditions": ans["conditions"],
        "classes": {l: r["c"] for l, r, _ in ans["steps"]},
        "values": {l: canon_unordered(from_wire(r["v"])) for l, r, _ in ans["steps"] if r["c"] == "ok"},
        "rids": rids(from_wire(ans["resourceIds"])),
    }


def compare(obs, mv, what=("overall", "state", "stateErrors", "conditions", "rids")):
    """list of fields on which implementation and model differ"""
    bad = [k for k in what if obs.get(k) != mv.get(k)]
    for l, c in (obs.get("classes") or {}).items():
        if mv["classes"].get(l) != c:
            bad.append(f"class[{l}]")
    return bad
