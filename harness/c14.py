"""C14 — static reference analysis finds every named dependency.

proof:   lean/Koreo/Props/C14.lean over lean/Koreo/CelAst.lean + WorkflowPrep.lean (+ Gen/CelTables.lean)
tie:     (a) celpy's compiled grammar, the extractor's dispatch sets / raise sites and the two name
             patterns regenerated from the sources (Gen/CelTables.lean),
         (b) differential: real celpy parse tree -> real extract_argument_structure vs the Lean model;
             real prepare_workflow / prepare_resource_function / prepare_function_test vs the model
oracle:  ground truth by construction (the generator knows which labels an expression names),
         cross-checked against the keys an instrumented `steps` map sees during evaluation
"""
from __future__ import annotations

import json
import logging
import time

import common
from common import Check, LeanDriver, rng
import gen_cel
from gen_cel import Gen, UnknownNode, refs, shape_tags, text, tree_to_wire

logging.disable(logging.CRITICAL)   # celpy logs (and formats) every evaluation error; keep the harness quiet

LABELS = ["alpha", "beta_1", "gamma", "delta9", "eps_x", "zeta", "eta_2", "theta"]

_ENV = None


def cel_env():
    global _ENV
    if _ENV is None:
        import celpy
        from koreo.cel.functions import koreo_function_annotations

        _ENV = celpy.Environment(annotations=koreo_function_annotations)
    return _ENV


def steps_names(keys):
    """labels the real name pattern derives from the real keys"""
    from koreo.workflow.prepare import STEPS_NAME_PATTERN

    return [m.group("name") for m in (STEPS_NAME_PATTERN.match(k) for k in keys) if m]


def parent_names(keys):
    from koreo.workflow.prepare import PARENT_NAME_PATTERN

    return [m.group("name") for m in (PARENT_NAME_PATTERN.match(k) for k in keys) if m]


def impl_extract(src: str):
    """(tree | None, ("parse-error",) | ("ok", keys) | ("raise", repr))"""
    import celpy
    from koreo.cel.structure_extractor import extract_argument_structure

    try:
        tree = cel_env().compile(src)
    except celpy.CELParseError:
        return None, ("parse-error",)
    try:
        return tree, ("ok", sorted(extract_argument_structure(tree)))
    except Exception as e:  # noqa: BLE001  (that it raises is the observation)
        return tree, ("raise", type(e).__name__ + ": " + str(e)[:80])


def subexprs(e):
    """proper sub-expressions of a generator node, outermost first"""
    out = []

    def go(x, top):
        if isinstance(x, tuple) and x and isinstance(x[0], str) and x[0] in (
                "steps", "var", "lit", "dot", "idx", "mcall", "macro", "call", "dcall", "dvar", "obj", "list", "map",
                "paren", "un", "bin", "tern"):
            if not top:
                out.append(x)
            for y in x[1:]:
                go(y, False)
        elif isinstance(x, (list, tuple)):
            for y in x:
                go(y, False)

    go(e, True)
    return out


def shrink_expr(e, fails):
    """smallest sub-expression on which `fails` still holds"""
    cur = e
    changed = True
    while changed:
        changed = False
        for s in sorted(subexprs(cur), key=lambda n: len(text(n))):
            try:
                if fails(s):
                    cur, changed = s, True
                    break
            except Exception:
                pass
    return cur


# --------------------------------------------------------------------------- expression level

def expr_oracle(src: str, named: set, got) -> str | None:
    """C14's first clause on what the implementation did"""
    if got[0] == "parse-error":
        return None
    if got[0] == "raise":
        if named:
            return f"the analysis raised ({got[1]}); the named steps {sorted(named)} were not recorded"
        return None
    names = steps_names(got[1])
    if any(n is None for n in names):
        return "a key matched the steps pattern without a name (None in the dependency set)"
    missing = sorted(set(named) - set(names))
    if missing:
        return f"statically named steps {missing} are not among the recorded dependencies {sorted(set(names))}"
    return None


class RecordingMap(dict):
    """stands for `steps` during an evaluation; remembers which keys were read"""

    def __init__(self, *a, **k):
        super().__init__(*a, **k)
        self.read = set()

    def __getitem__(self, k):
        self.read.add(str(k))
        return super().__getitem__(k)

    def get(self, k, d=None):
        self.read.add(str(k))
        return super().get(k, d)

    def __contains__(self, k):
        self.read.add(str(k))
        return super().__contains__(k)


def observed_step_reads(tree, labels):
    """evaluate once with an instrumented `steps` map; which of its keys were read"""
    import celpy
    from celpy import celtypes
    from koreo.cel.functions import koreo_cel_functions

    class Rec(celtypes.MapType):
        read: set = set()

        def __getitem__(self, k):
            Rec.read.add(str(k))
            return super().__getitem__(k)

        def get(self, k, d=None):
            Rec.read.add(str(k))
            return super().get(k, d)

    Rec.read = set()
    val = celpy.json_to_cel({"x": 1, "name": "n", "items": [1, 2], "a": {"b": 1}, "spec": {"x": 1}, "ready": True,
                             "value": 3, "id": "i", "count": 2, "size": 1, "status": {}, "metadata": {}, "b": 2})
    steps = Rec({celtypes.StringType(l): val for l in labels})
    act = {"steps": steps, "inputs": celpy.json_to_cel({k: val for k in gen_cel.INPUTS} | {"x": [val, val]}),
           "parent": val, "locals": val, "resource": val}
    import resource

    soft, hard = resource.getrlimit(resource.RLIMIT_AS)
    try:
        # celpy can allocate gigabytes on a random expression (`string(list).all(el, el * x)`): cap it
        with open("/proc/self/statm") as fh:
            now = int(fh.read().split()[0]) * resource.getpagesize()
        resource.setrlimit(resource.RLIMIT_AS, (now + (1 << 30), hard))
    except Exception:
        pass
    try:
        prog = cel_env().program(tree, functions=koreo_cel_functions)
        prog.logger.setLevel(logging.CRITICAL)
        prog.evaluate(act)
    except BaseException as e:  # evaluation errors (and MemoryError) are expected for random expressions
        if isinstance(e, (KeyboardInterrupt, SystemExit)):
            raise
    finally:
        try:
            resource.setrlimit(resource.RLIMIT_AS, (soft, hard))
        except Exception:
            pass
    return set(Rec.read)


def run_expressions(ck: Check, drv: LeanDriver, n: int, r, evaluate_every: int, batch: int = 2000):
    """in batches, so that a thorough run never holds more than `batch` parse trees"""
    first = [(None, src, set()) for src in gen_cel.ODD]
    done = 0
    serial = 0
    while done < n or first:
        cases, first = first, []
        for _ in range(min(batch, n - done)):
            g = Gen(r, r.sample(LABELS, r.randint(1, 4)), depth=r.choice([1, 2, 2, 3, 3, 3, 4]))
            e = g.expr()
            cases.append((e, text(e), refs(e)))
        done += min(batch, n - done)
        serial = _expression_batch(ck, drv, cases, evaluate_every, serial)


def _expression_batch(ck: Check, drv: LeanDriver, cases, evaluate_every: int, serial: int) -> int:
    reqs, keep = [], []
    for e, src, named in cases:
        tree, got = impl_extract(src)
        ck.evaluated()
        ck.count(f"expr:{got[0]}")
        if tree is None:
            continue
        serial += 1
        for k in gen_cel.tree_kinds(tree):
            ck.count(f"kind:{k}")
        if e is not None:
            for t in shape_tags(e):
                ck.count(t)
        if named:
            ck.nontriv(hash(src))
        # the property on the implementation
        bad = expr_oracle(src, named, got)
        if bad is None and e is not None and evaluate_every and serial % evaluate_every == 0 and got[0] == "ok" \
                and len(src) < 160 and "*" not in src:
            seen = observed_step_reads(tree, LABELS)
            static_only = "steps[" not in src.replace('steps["', "").replace("steps['", "")
            names = set(steps_names(got[1]))
            lost = sorted(k for k in seen if k in LABELS and k not in names)
            ck.count("evaluated-with-instrumented-steps")
            if static_only and lost:
                bad = f"evaluation read steps{lost} but the analysis did not record them"
        if bad is not None:
            small_src, small_named = src, named
            if e is not None and len(ck.violations) < 40:
                def fails(s):
                    t2, g2 = impl_extract(text(s))
                    return t2 is not None and expr_oracle(text(s), refs(s), g2) is not None
                try:
                    se = shrink_expr(e, fails)
                    small_src, small_named = text(se), refs(se)
                except Exception:
                    pass
            if len(ck.violations) < 200:
                ck.violate({"kind": "expr", "text": small_src, "named": sorted(small_named)}, bad)
            else:
                ck.count("further-violations")
        try:
            wire = tree_to_wire(tree)
        except UnknownNode as u:
            ck.disagree({"kind": "expr", "text": src}, "no constructor", str(u), "parse-tree-kinds")
            continue
        reqs.append({"op": "extract", "t": wire})
        keep.append((src, got))
        ck.sample({"expr": src, "named": sorted(named), "impl": got[1] if got[0] == "ok" else got[0]})
    answers = ask(ck, drv, reqs)
    for (src, got), ans in zip(keep, answers):
        if ans is None:
            continue
        if len(ck.disagreements) > 300:
            ck.count("further-disagreements")
            continue
        if "raise" in ans:
            model = ("raise",)
        elif "ok" in ans:
            model = ("ok", sorted(set(ans["ok"])))
        else:
            model = ("driver-error", ans)
        mine = ("raise",) if got[0] == "raise" else ("ok", sorted(set(got[1])))
        if model != mine:
            ck.disagree({"kind": "expr", "text": src}, model, mine, "extract-keys")
            continue
        if got[0] == "ok":
            m_steps = sorted(set(ans.get("steps", [])))
            i_steps = sorted({x if x is not None else "<None>" for x in steps_names(got[1])})
            m_par = sorted(set(ans.get("parent", [])))
            i_par = sorted({x if x is not None else "<None>" for x in parent_names(got[1])})
            if m_steps != i_steps or m_par != i_par:
                ck.disagree({"kind": "expr", "text": src}, [m_steps, m_par], [i_steps, i_par], "name-patterns")
    return serial


def ask(ck: Check, drv: LeanDriver, reqs, chunk: int = 4000):
    out = []
    try:
        for i in range(0, len(reqs), chunk):
            out += drv.ask(reqs[i:i + chunk])
    except common.Infra as e:
        ck.notes.append(f"model driver unavailable: {e}")
        ck.build_ok = False
        return [None] * len(reqs)
    return out


# --------------------------------------------------------------------------- workflow level

VF_OK = {"return": {"v": "=inputs.a"}}
VF_BAD = {"return": {"v": "=1 +"}}            # parse error: a PermFail is cached
RF_OK = {"apiConfig": {"apiVersion": "v1", "kind": "ConfigMap", "name": "=inputs.name", "namespace": "ns"},
         "resource": {"data": {"k": "=inputs.k"}}}
WF_SUB = {"steps": [{"label": "only", "ref": {"kind": "ValueFunction", "name": "vf_ok1"},
                     "inputs": {"a": "=parent.spec.size"}}]}

READY_REFS = [("ValueFunction", "vf_ok1"), ("ValueFunction", "vf_ok2"), ("ResourceFunction", "rf_ok"), ("Workflow", "wf_sub")]
# one name used by several kinds, some of them present, some not: a resource is (kind, name), never a name
SHARED_REFS = [("ValueFunction", "bucket"), ("ResourceFunction", "bucket"), ("Workflow", "bucket"),
               ("ValueFunction", "twin"), ("ResourceFunction", "twin"), ("Workflow", "twin")]
SHARED_READY = {("ValueFunction", "bucket"), ("Workflow", "bucket"), ("ResourceFunction", "twin")}
REFS = [("ValueFunction", "vf_ok1"), ("ValueFunction", "vf_ok2"), ("ValueFunction", "vf_bad"),
        ("ValueFunction", "vf_missing"), ("ResourceFunction", "rf_ok"), ("ResourceFunction", "rf_missing"),
        ("Workflow", "wf_sub"), ("Workflow", "wf_missing")] + SHARED_REFS
NOT_READY = {("ValueFunction", "vf_bad"), ("ValueFunction", "vf_missing"), ("ResourceFunction", "rf_missing"),
             ("Workflow", "wf_missing")} | (set(SHARED_REFS) - SHARED_READY)


# a definition of the harness' own world on which the real prepare RAISED: (kind, name, spec, what).  The world is
# made of plain well-formed definitions, so this is itself an observation about the code under test ("preparing any
# definition never crashes"), not an infrastructure failure; the checks report it as a failing input.
SETUP_FAILURES: list = []


async def _offer(kind: str, name: str, spec):
    import koreo_util as ku

    fn = {"ValueFunction": ku.offer_value_function, "ResourceFunction": ku.offer_resource_function,
          "Workflow": ku.offer_workflow}[kind]
    try:
        await fn(name, spec)
    except Exception as e:  # noqa: BLE001
        if not any(f[0] == kind and f[1] == name for f in SETUP_FAILURES):
            SETUP_FAILURES.append((kind, name, spec, type(e).__name__ + ": " + str(e)[:120]))


def setup_cache():
    import koreo_util as ku

    ku.reset()

    async def go():
        await _offer("ValueFunction", "vf_ok1", VF_OK)
        await _offer("ValueFunction", "vf_ok2", {"return": {"v": "=inputs.a + inputs.b"}})
        await _offer("ValueFunction", "vf_bad", VF_BAD)
        await _offer("ResourceFunction", "rf_ok", RF_OK)
        await _offer("Workflow", "wf_sub", WF_SUB)
        await _offer("ValueFunction", "bucket", VF_OK)
        await _offer("Workflow", "bucket", WF_SUB)
        await _offer("ResourceFunction", "twin", RF_OK)

    ku.run(go())


def report_setup_failures(ck: Check, prop: str):
    """a well-formed definition of the harness' world raised on prepare: a failing input (C20's clause; for C14 it
    means nothing of that definition was recorded or watched)"""
    for kind, name, spec, what in SETUP_FAILURES:
        case = ({"kind": "prepare", "resource": kind, "spec": spec, "via_cache": True} if prop == "C20"
                else {"kind": "world", "resource": kind, "name": name, "spec": spec})
        ck.violate(case, f"prepare of the well-formed {kind} `{name}` raised {what}")
    SETUP_FAILURES.clear()


def cache_state(kind: str, name: str):
    """what the real cache holds for a reference, as the model's env entry"""
    import koreo_util as ku
    from koreo import cache
    from koreo.resource_function.structure import ResourceFunction
    from koreo.value_function.structure import ValueFunction
    from koreo.workflow.structure import Workflow

    cls = {"ValueFunction": ValueFunction, "ResourceFunction": ResourceFunction, "Workflow": Workflow}.get(kind)
    if cls is None:
        return [kind, name, "missing", False, []]
    got = cache.get_resource_from_cache(resource_class=cls, cache_key=name)
    if not got:
        return [kind, name, "missing", False, []]
    if ku.outcome_class(got) != "ok":
        return [kind, name, "unhealthy", False, []]
    return [kind, name, "ready", kind == "Workflow", sorted(got.dynamic_input_keys)]


def gen_field_expr(r, labels_ok, labels_bad, p_bad):
    """(source, named) for an expression placed in a step field"""
    pool = list(labels_ok)
    if labels_bad and r.random() < p_bad:
        pool = pool + r.sample(labels_bad, 1)
    if r.random() < 0.03:
        return "1 +", set()                       # does not parse
    if not pool:
        pool = []
    g = Gen(r, pool, depth=r.choice([1, 2, 2, 3]))
    if not pool:
        g.labels = []
    e = g.expr()
    return text(e), refs(e)


def gen_workflow(r):
    """a schema-valid Workflow spec + per-step ground truth"""
    n = r.choice([1, 2, 2, 3, 3, 4, 5])
    labels = r.sample(LABELS, n)
    if n >= 2 and r.random() < 0.12:
        labels[r.randrange(1, n)] = labels[0]      # a duplicate label
    steps, truth = [], []
    for i, lab in enumerate(labels):
        earlier = labels[:i]
        later_or_unknown = labels[i:] + ["nosuch"]
        st = {"label": lab}
        named: set = set()
        names_logic = []
        p_bad = 0.12

        shared_name = r.choice(["bucket", "twin"]) if r.random() < 0.3 else None

        def pick_ref():
            if shared_name and r.random() < 0.8:     # the same name under different kinds within one step
                return r.choice([x for x in SHARED_REFS if x[1] == shared_name])
            return r.choice(READY_REFS) if r.random() < 0.75 else r.choice(REFS)

        def place(prefix="="):
            src, nm = gen_field_expr(r, earlier, later_or_unknown, p_bad)
            return prefix + src, nm, src

        use_switch = r.random() < 0.35
        switch_ok = True
        if not use_switch:
            kind, name = pick_ref()
            st["ref"] = {"kind": kind, "name": name}
            names_logic.append((kind, name))
        else:
            cases = []
            for j in range(r.randint(1, 4)):
                kind, name = pick_ref()
                c = {"case": f"c{j}" if r.random() < 0.9 else "c0", "kind": kind, "name": name}
                if r.random() < 0.3:
                    c["default"] = True
                cases.append(c)
                names_logic.append((kind, name))
            v, nm, src = place()
            st["refSwitch"] = {"switchOn": v, "cases": cases}
            switch_ok = src != "1 +" and sum(1 for c in cases if c.get("default")) <= 1
            if src != "1 +":
                named |= nm
        scanned = {}
        if r.random() < 0.4:
            v, nm, src = place()
            st["skipIf"] = v
            scanned["skipIf"] = nm
        if r.random() < 0.3:
            v, nm, src = place()
            st["forEach"] = {"itemIn": v, "inputKey": r.choice(["item", "it"])}
            if r.random() < 0.2:       # not described by the CRD schema, read by `_prepare_for_each`
                st["forEach"]["condition"] = {"type": "Each", "name": "each item"}
            scanned["forEach"] = nm
        if r.random() < 0.75:
            inputs = {}
            nm_all = set()
            for k in range(r.randint(1, 3)):
                v, nm, src = place()
                shape = r.random()
                if shape < 0.6:
                    inputs[f"k{k}"] = v
                elif shape < 0.8:
                    inputs[f"k{k}"] = {"deep": {"er": v}, "static": k}
                else:
                    inputs[f"k{k}"] = [v, "static", 7]
                nm_all |= nm
            if r.random() < 0.3:
                inputs["plain"] = r.choice([1, "text", True, None, {"a": [1, 2]}])
            st["inputs"] = inputs
            scanned["inputs"] = nm_all
        if r.random() < 0.3:
            v, nm, src = place()
            st["state"] = {"seen": v, "n": 1}
            scanned["state"] = nm
        if r.random() < 0.15:
            st["condition"] = {"type": "Ready", "name": "thing"}
        for nm in scanned.values():
            named |= nm
        steps.append(st)
        truth.append({"named": sorted(named), "logic": names_logic, "switch_ok": switch_ok,
                      "is_switch": use_switch})
    return {"steps": steps}, truth


def field_to_wire(kind: str, value, location="x"):
    """what the real prepare helper returns for a field, as the model's Fld: null | "fail" | tree"""
    from koreo.cel.prepare import prepare_expression, prepare_map_expression
    from koreo.result import PermFail

    fn = prepare_map_expression if kind == "map" else prepare_expression
    got = fn(cel_env=cel_env(), spec=value, location=location)
    if got is None:
        return None
    if isinstance(got, PermFail):
        return "fail"
    return tree_to_wire(got.ast)


def workflow_request(spec, env_entries):
    steps = []
    for st in spec.get("steps", []):
        ref = st.get("ref") or None
        sw = st.get("refSwitch") or None
        fe = st.get("forEach") or None
        steps.append({
            "label": st.get("label"),
            "ref": ({"kind": ref.get("kind") or "", "name": ref.get("name") or ""} if ref else None),
            "refSwitch": ({"switchOn": field_to_wire("expr", sw.get("switchOn")),
                           "cases": [{"case": str(c.get("case")), "default": bool(c.get("default")),
                                      "kind": c.get("kind") or "", "name": c.get("name") or ""}
                                     for c in (sw.get("cases") or [])]} if sw else None),
            "skipIf": field_to_wire("expr", st.get("skipIf")),
            "forEach": ({"itemIn": field_to_wire("expr", fe.get("itemIn")),
                         "inputKeyEmpty": not fe.get("inputKey"),
                         "conditionNotObject": bool(fe.get("condition")) and not isinstance(fe.get("condition"), dict)}
                        if fe else None),
            "inputs": field_to_wire("map", st.get("inputs")),
            "state": field_to_wire("map", st.get("state")),
        })
    return {"op": "workflow", "env": env_entries, "steps": steps}


def impl_workflow(spec, name: str = "wf-under-test"):
    """observation of the real prepare_workflow (called directly; its references resolve through the real cache)"""
    import copy

    import koreo_util as ku
    from koreo.workflow import structure
    from koreo.workflow.prepare import prepare_workflow

    try:
        got = ku.run(prepare_workflow(name, copy.deepcopy(spec)))
    except Exception as e:  # noqa: BLE001
        return {"raise": type(e).__name__ + ": " + str(e)[:100]}
    if not isinstance(got, tuple):
        return {"gate": ku.outcome_class(got), "msg": str(getattr(got, "message", ""))[:120]}
    wf, subs = got
    steps = []
    for s in wf.steps:
        if isinstance(s, structure.ErrorStep):
            steps.append({"err": ku.outcome_class(s.outcome)})
        else:
            steps.append({"deps": sorted(str(x) if x is not None else "<None>" for x in s.dynamic_input_keys)})
    return {"steps": steps, "ready": ku.outcome_class(wf.steps_ready),
            "watched": sorted([x.resource_type.__name__, x.name] for x in subs),
            "pp": sorted(wf.dynamic_input_keys)}


def canon_model_wf(ans):
    if ans is None or "raise" in ans or "error" in ans:
        return ans
    return {"steps": [{"deps": sorted(set(s["deps"]))} if "deps" in s else s for s in ans["steps"]],
            "ready": ans["ready"], "watched": sorted([list(x) for x in set(map(tuple, ans["watched"]))]),
            "pp": sorted(set(ans["pp"]))}


def workflow_oracle(spec, truth, got) -> str | None:
    """C14's clauses on what prepare_workflow returned (independent of the model)"""
    if "raise" in got:
        return f"prepare_workflow raised: {got['raise']}"
    if "gate" in got:
        return None
    labels = [s.get("label") for s in spec["steps"]]
    watched = {tuple(x) for x in got["watched"]}
    any_error = False
    for i, (st, tr, res) in enumerate(zip(spec["steps"], truth, got["steps"])):
        earlier = set(labels[:i])
        dup = labels[i] in earlier
        if "err" in res:
            any_error = True
        named = set(tr["named"])
        if "deps" in res:
            missing = named - set(res["deps"])
            if missing:
                return f"step {labels[i]!r} names {sorted(missing)} but its dependency set is {res['deps']}"
            late = set(res["deps"]) - earlier
            if late:
                return f"step {labels[i]!r} was prepared although it depends on {sorted(late)}, not an earlier step"
        bad = named - earlier
        if bad and "deps" in res:
            return f"step {labels[i]!r} names {sorted(bad)} (later/unknown/own) yet was prepared as a Step"
        if bad and got["ready"] == "ok":
            return f"step {labels[i]!r} names {sorted(bad)} (later/unknown/own) yet the Workflow is reported ready"
        if not dup and (not tr["is_switch"] or tr["switch_ok"]):
            for ref in tr["logic"]:
                if tuple(ref) not in watched:
                    return f"step {labels[i]!r} names {ref[0]}:{ref[1]} which is not among the watched resources"
            # a named Logic that is absent / unhealthy keeps the step from being prepared (for a refSwitch:
            # the cases that are reachable, i.e. the last one of each `case` key)
            live = tr["logic"]
            if tr["is_switch"]:
                cases = st["refSwitch"]["cases"]
                last = {c["case"]: j for j, c in enumerate(cases)}
                live = [tr["logic"][j] for j in sorted(last.values())]
            for ref in live:
                if tuple(ref) in NOT_READY and "deps" in res:
                    return (f"step {labels[i]!r} names {ref[0]}:{ref[1]}, which is not available, "
                            f"yet the step was prepared")
    if any_error and got["ready"] == "ok":
        return "an error step, yet the Workflow is reported ready"
    return None


def shrink_workflow(spec, truth, fails):
    """drop steps / fields while the failure persists"""
    import copy

    cur_s, cur_t = copy.deepcopy(spec), copy.deepcopy(truth)
    changed = True
    while changed:
        changed = False
        for i in range(len(cur_s["steps"])):
            if len(cur_s["steps"]) <= 1:
                break
            s2 = {"steps": cur_s["steps"][:i] + cur_s["steps"][i + 1:]}
            t2 = cur_t[:i] + cur_t[i + 1:]
            try:
                if fails(s2, t2):
                    cur_s, cur_t, changed = s2, t2, True
                    break
            except Exception:
                pass
    return cur_s, cur_t


def run_workflows(ck: Check, drv: LeanDriver, n: int, r, batch: int = 500):
    setup_cache()
    env_entries = [cache_state(k, nm) for k, nm in REFS]
    done = 0
    while done < n:
        m = min(batch, n - done)
        _workflow_batch(ck, drv, m, r, env_entries)
        done += m


def _workflow_batch(ck: Check, drv: LeanDriver, n: int, r, env_entries):
    reqs, keep = [], []
    for _ in range(n):
        spec, truth = gen_workflow(r)
        got = impl_workflow(spec)
        ck.evaluated()
        ck.count("workflow:" + ("raise" if "raise" in got else "gate" if "gate" in got else got["ready"]))
        if "steps" in got:
            for s in got["steps"]:
                ck.count("step:" + ("prepared" if "deps" in s else s["err"]))
            if any(t["named"] for t in truth):
                ck.nontriv(hash(json.dumps(spec, sort_keys=True)))
        bad = workflow_oracle(spec, truth, got)
        if bad is not None:
            if len(ck.violations) < 40:
                def fails(s2, t2):
                    return workflow_oracle(s2, t2, impl_workflow(s2)) is not None
                s2, t2 = shrink_workflow(spec, truth, fails)
                ck.violate({"kind": "workflow", "spec": s2, "truth": t2},
                           workflow_oracle(s2, t2, impl_workflow(s2)) or bad)
            else:
                ck.count("further-violations")
        if "gate" in got:
            if len(ck.notes) < 3:
                ck.notes.append(f"generated workflow rejected by the schema gate: {got['msg']}")
            continue
        try:
            reqs.append(workflow_request(spec, env_entries))
        except UnknownNode as u:
            ck.disagree({"kind": "workflow", "spec": spec}, "no constructor", str(u), "parse-tree-kinds")
            continue
        except Exception as e:  # the real helper raised while preparing a field: the real prepare did too
            if "raise" not in got:
                raise
            if len(ck.notes) < 5:
                ck.notes.append(f"field preparation raised: {e!r}"[:160])
            continue
        keep.append((spec, got))
    answers = ask(ck, drv, reqs, chunk=500)
    for (spec, got), ans in zip(keep, answers):
        if ans is None:
            continue
        if len(ck.disagreements) > 300:
            ck.count("further-disagreements")
            continue
        if "raise" in ans or "raise" in got:
            if ("raise" in ans) != ("raise" in got):
                ck.disagree({"kind": "workflow", "spec": spec}, ans if "raise" in ans else "prepared", got, "workflow-raises")
            continue
        model = canon_model_wf(ans)
        mine = {k: got[k] for k in ("steps", "ready", "watched", "pp")}
        if model != mine:
            ck.disagree({"kind": "workflow", "spec": spec}, model, mine, "prepare_workflow-observables")


# --------------------------------------------------------------------------- sequences of preparations in one process
#
# Whether a step names a later / unknown label is a fact about the Workflow that is being prepared NOW: the same step
# spec is fine after `base` and must be rejected before it, or in a Workflow without `base`.  A controller process
# prepares many Workflows, and the same Workflow again after every update, so the clauses have to hold for every
# preparation of a *sequence*, whatever was prepared before.  Each generated sequence runs in a child forked from a
# pristine interpreter (koreo imported, nothing prepared): the sequence is then the complete history, and the
# recorded witness reproduces from a fresh process.

class Cold:
    """a pristine interpreter that forks one child per request; the child prepares the world (`setup_cache`) and then
    the given Workflows in order, and answers with the observations of `impl_workflow`"""

    def __init__(self):
        import os
        import subprocess
        import sys

        self.p = subprocess.Popen([sys.executable, os.path.abspath(__file__), "--cold-server"], stdin=subprocess.PIPE,
                                  stdout=subprocess.PIPE, text=True, env=dict(os.environ))

    def run(self, items) -> list:
        """items: [{"name": …, "spec": …}] -> one observation per item"""
        try:
            self.p.stdin.write(json.dumps([{"name": it.get("name", "wf-under-test"), "spec": it["spec"]}
                                           for it in items]) + "\n")
            self.p.stdin.flush()
            line = self.p.stdout.readline()
        except OSError as e:
            raise common.Infra(f"cold interpreter unavailable: {e}")
        if not line:
            raise common.Infra("cold interpreter ended")
        out = json.loads(line)
        if isinstance(out, dict):       # the child did not get to an answer: the tree under test took the process down
            return [{"raise": "the preparing process ended: " + str(out.get("error"))[:100]} for _ in items]
        return out

    def close(self):
        try:
            self.p.stdin.close()
            self.p.wait(timeout=10)
        except Exception:
            self.p.kill()


_COLD = None


def cold() -> Cold:
    global _COLD
    if _COLD is None:
        import atexit

        _COLD = Cold()
        atexit.register(_COLD.close)
    return _COLD


def _cold_server():
    """`python c14.py --cold-server`: line in = a sequence, line out = its observations (made in a forked child)"""
    import os
    import sys

    import koreo_util as ku  # noqa: F401
    import koreo.workflow.prepare  # noqa: F401
    import koreo.resource_function.prepare  # noqa: F401
    import koreo.value_function.prepare  # noqa: F401

    cel_env()

    # lazy one-time initialisations (celpy's parser, the schema validators, kr8s classes) happen here, once, rather
    # than in every child; only Functions are offered (no Workflow is prepared before the fork) and the cache is reset
    async def warm():
        await _offer("ValueFunction", "warm-up", VF_OK)
        await _offer("ResourceFunction", "warm-up", RF_OK)

    ku.reset()
    ku.run(warm())
    ku.reset()
    SETUP_FAILURES.clear()
    out = sys.stdout
    for line in sys.stdin:
        line = line.strip()
        if not line:
            continue
        items = json.loads(line)
        rfd, wfd = os.pipe()
        pid = os.fork()
        if pid == 0:
            code = 0
            try:
                os.close(rfd)
                setup_cache()
                obs = [impl_workflow(it["spec"], it.get("name", "wf-under-test")) for it in items]
                data = json.dumps(obs).encode()
                while data:
                    data = data[os.write(wfd, data):]
            except BaseException as e:  # noqa: BLE001
                try:
                    os.write(wfd, json.dumps({"error": type(e).__name__ + ": " + str(e)[:200]}).encode())
                except Exception:
                    pass
                code = 1
            finally:
                os._exit(code)
        os.close(wfd)
        chunks = []
        while True:
            b = os.read(rfd, 1 << 16)
            if not b:
                break
            chunks.append(b)
        os.close(rfd)
        os.waitpid(pid, 0)
        data = b"".join(chunks).decode()
        try:
            json.loads(data)
        except Exception:
            data = json.dumps({"error": "no answer from the preparing child"})
        out.write(data + "\n")
        out.flush()


def gen_sequence(r):
    """[{"name", "spec", "truth", "how"}]: a Workflow, then updates of it (steps reordered / dropped / kept / one more
    step in front) and other Workflows made of the very same step specs.  The per-step ground truth (which labels a
    step names, which Logic) does not depend on where the step stands; which labels are *earlier* does."""
    import copy

    while True:
        spec, truth = gen_workflow(r)
        if len(spec["steps"]) >= 2 or r.random() < 0.2:
            break
    pairs = list(zip(spec["steps"], truth))
    items = [{"name": "wf-under-test", "spec": spec, "truth": truth, "how": "first"}]
    for _ in range(r.randint(1, 3)):
        p = list(pairs)
        how = r.choice(["reverse", "shuffle", "swap", "drop", "drop-first", "same", "other-front", "rotate"])
        name = "wf-under-test" if r.random() < 0.6 else "wf-other"
        if how == "reverse":
            p.reverse()
        elif how == "shuffle":
            r.shuffle(p)
        elif how == "swap" and len(p) >= 2:
            i = r.randrange(len(p) - 1)
            p[i], p[i + 1] = p[i + 1], p[i]
        elif how == "drop" and len(p) >= 2:
            del p[r.randrange(len(p))]
        elif how == "drop-first" and len(p) >= 2:
            del p[0]
        elif how == "rotate" and len(p) >= 2:
            p = p[1:] + p[:1]
        elif how == "other-front":
            # the same steps behind a step of another label; one of the original steps leaves
            used = {st.get("label") for st, _ in p}
            free = [l for l in LABELS if l not in used]
            if free:
                kind, nm = r.choice(READY_REFS)
                front = ({"label": r.choice(free), "ref": {"kind": kind, "name": nm}},
                         {"named": [], "logic": [(kind, nm)], "switch_ok": True, "is_switch": False})
                if len(p) >= 2:
                    del p[r.randrange(len(p))]
                p = [front] + p
        if not p:
            p = list(pairs)
        items.append({"name": name, "spec": {"steps": [copy.deepcopy(st) for st, _ in p]},
                      "truth": [copy.deepcopy(t) for _, t in p], "how": how})
        if r.random() < 0.5:
            pairs = p        # the next update starts from this one
    return items


def sequence_oracle(items, obs):
    """(index, message) of the first preparation of the sequence that breaks a clause, or None"""
    for i, (it, got) in enumerate(zip(items, obs)):
        bad = workflow_oracle(it["spec"], it["truth"], got)
        if bad is not None:
            before = "a cold process" if i == 0 else f"{i} earlier preparation(s) in the same process"
            return i, f"preparation #{i + 1} ({it.get('name', 'wf-under-test')}, after {before}): {bad}"
    return None


def shrink_sequence(items, budget: int = 60):
    """`items` ends with the failing preparation: drop earlier preparations, then steps, while the LAST one still
    fails when the sequence runs from a cold process"""
    import copy

    left = [budget]

    def fails(cand):
        if left[0] <= 0:
            return False
        left[0] -= 1
        obs = cold().run(cand)
        return workflow_oracle(cand[-1]["spec"], cand[-1]["truth"], obs[-1]) is not None

    last = items[-1]
    prefix = items[:-1]
    if prefix and fails([last]):
        prefix = []
    elif len(prefix) >= 2:
        for i in range(len(prefix) - 1, -1, -1):
            cand = prefix[:i] + prefix[i + 1:]
            if fails(cand + [last]):
                prefix = cand
    cur = [copy.deepcopy(x) for x in prefix + [last]]
    changed = True
    while changed and left[0] > 0:
        changed = False
        for k in range(len(cur)):
            steps = cur[k]["spec"]["steps"]
            for i in range(len(steps)):
                if len(steps) <= 1:
                    break
                cand = copy.deepcopy(cur)
                del cand[k]["spec"]["steps"][i]
                del cand[k]["truth"][i]
                if fails(cand):
                    cur, changed = cand, True
                    break
            if changed:
                break
    return cur


def run_sequences(ck: Check, drv: LeanDriver, n: int, r):
    setup_cache()
    env_entries = [cache_state(k, nm) for k, nm in REFS]
    reqs, keep = [], []
    for _ in range(n):
        items = gen_sequence(r)
        obs = cold().run(items)
        ck.evaluated(len(items))
        ck.count("sequence")
        for it, got in zip(items[1:], obs[1:]):
            ck.count("sequence-step:" + it["how"])
            ck.count("sequence-later-preparation:" + ("raise" if "raise" in got else "gate" if "gate" in got
                                                      else got["ready"]))
        # a step that was prepared at one place and stands, unchanged, where it names a later / unknown label
        moved = False
        for j in range(1, len(items)):
            lj = [s.get("label") for s in items[j]["spec"]["steps"]]
            for i, (st, tr) in enumerate(zip(items[j]["spec"]["steps"], items[j]["truth"])):
                if set(tr["named"]) - set(lj[:i]):
                    for k in range(j):
                        for i0, st0 in enumerate(items[k]["spec"]["steps"]):
                            if st0 == st and "steps" in obs[k] and i0 < len(obs[k]["steps"]) \
                                    and "deps" in obs[k]["steps"][i0]:
                                moved = True
        if moved:
            ck.count("sequence:prepared-step-moved-to-a-bad-place")
            ck.nontriv(hash(json.dumps([it["spec"] for it in items], sort_keys=True)))
        hit = sequence_oracle(items, obs)
        if hit is not None:
            idx, bad = hit
            if len(ck.violations) < 40:
                small = items[:idx + 1]
                if sum(1 for v in ck.violations if v["case"].get("kind") == "sequence") < 5:
                    small = shrink_sequence(small)
                obs2 = cold().run(small)
                hit2 = sequence_oracle(small, obs2)
                ck.violate({"kind": "sequence",
                            "items": [{"name": it.get("name", "wf-under-test"), "spec": it["spec"],
                                       "truth": it["truth"]} for it in small]},
                           hit2[1] if hit2 else bad)
            else:
                ck.count("further-violations")
        try:
            reqs.append({"op": "workflowSeq", "env": env_entries,
                         "seq": [workflow_request(it["spec"], env_entries)["steps"] for it in items]})
        except UnknownNode as u:
            ck.disagree({"kind": "sequence", "items": items}, "no constructor", str(u), "parse-tree-kinds")
            continue
        keep.append((items, obs))
    answers = ask(ck, drv, reqs, chunk=200)
    for (items, obs), ans in zip(keep, answers):
        if ans is None:
            continue
        if len(ck.disagreements) > 300:
            ck.count("further-disagreements")
            continue
        results = ans.get("results") if isinstance(ans, dict) else None
        if not isinstance(results, list) or len(results) != len(items):
            ck.disagree({"kind": "sequence", "items": items}, ans, "one result per preparation", "workflowSeq-shape")
            continue
        for i, (it, got, a) in enumerate(zip(items, obs, results)):
            if "gate" in got:
                continue
            if "raise" in a or "raise" in got:
                if ("raise" in a) != ("raise" in got):
                    ck.disagree({"kind": "sequence", "items": items[:i + 1]}, a if "raise" in a else "prepared", got,
                                "sequence-raises")
                    break
                continue
            model = canon_model_wf(a)
            mine = {k: got[k] for k in ("steps", "ready", "watched", "pp")}
            if model != mine:
                ck.disagree({"kind": "sequence", "items": items[:i + 1]}, model, mine,
                            f"prepare_workflow-observables at preparation #{i + 1} of a sequence")
                break


# --------------------------------------------------------------------------- ResourceFunction / FunctionTest

def gen_rf(r):
    overlays, truth = [], []
    for i in range(r.randint(0, 4)):
        o = {}
        skip = r.random()
        bad_skip = False
        if skip < 0.15:
            o["skipIf"] = "=1 +"
            bad_skip = True
        elif skip < 0.5:
            o["skipIf"] = "=" + text(Gen(r, [], depth=2).expr())
        if r.random() < 0.55:
            name = r.choice(["vf_ok1", "vf_ok2", "vf_bad", "vf_missing", "vf_other"])
            o["overlayRef"] = {"kind": "ValueFunction", "name": name}
            if r.random() < 0.6:
                o["inputs"] = {"a": "=inputs.name", "b": 2}
            truth.append({"name": name, "well_formed": not bad_skip})
        else:
            o["overlay"] = {"metadata": {"labels": {"k": "=inputs.name"}}}
        overlays.append(o)
    spec = {"apiConfig": {"apiVersion": "v1", "kind": "ConfigMap", "name": "=inputs.name", "namespace": "ns"},
            "resource": {"data": {"k": "=inputs.k"}}}
    if overlays:
        spec["overlays"] = overlays
    body_ok = True
    if r.random() < 0.1:
        spec["return"] = {"v": "=1 +"}
        body_ok = False
    return spec, truth, body_ok


def impl_rf(spec):
    import copy

    import koreo_util as ku
    from koreo.resource_function.prepare import prepare_resource_function

    try:
        got = ku.run(prepare_resource_function("rf-under-test", copy.deepcopy(spec)))
    except Exception as e:  # noqa: BLE001
        return {"raise": type(e).__name__ + ": " + str(e)[:100]}
    if not isinstance(got, tuple):
        return {"watched": None}
    return {"watched": sorted([x.resource_type.__name__, x.name] for x in (got[1] or ()))}


def rf_oracle(truth, body_ok, got):
    if "raise" in got:
        return f"prepare_resource_function raised: {got['raise']}"
    if got["watched"] is None:
        # a bare outcome carries no subscriptions.  That is acceptable only when the spec itself is broken
        # (`body_ok` false: it stays PermFail until edited); a function whose own spec is fine names its overlay
        # functions whether they are cached, missing or unhealthy — exactly then the watch is what gets it
        # prepared again
        named = [t["name"] for t in truth if t["well_formed"]]
        if body_ok and named:
            return (f"prepare_resource_function returned a bare outcome, so nothing is watched, although the spec names "
                    f"ValueFunction {named} in overlayRef entries")
        return None
    w = {tuple(x) for x in got["watched"]}
    for t in truth:
        if t["well_formed"] and ("ValueFunction", t["name"]) not in w:
            return f"overlayRef ValueFunction:{t['name']} is not among the watched resources"
    return None


def rf_request(spec, body_ok):
    os_ = []
    for o in spec.get("overlays", []) or []:
        ref = o.get("overlayRef")
        os_.append({"skipIf": field_to_wire("expr", o.get("skipIf")), "hasInline": "overlay" in o,
                    "refName": ref.get("name") if isinstance(ref, dict) and "name" in ref else None})
    return {"op": "rf", "bodyOk": body_ok, "overlays": os_}


def _str_input(inp):
    return inp["t"] if isinstance(inp.get("t"), str) else None


# function under test -> (extra spec, which template name one test case's inputs resolve to).
# `_check_for_resource_template_ref` only accepts a result that is a celtypes.StringType: an input /
# local passed through is one, a concatenation (`'tmpl-' + inputs.t`, a plain str in celpy) is not.
RF_TMPL = {
    "rf_t_const": ({"resourceTemplateRef": {"name": "tmpl-const"}}, lambda inp: "tmpl-const"),
    "rf_t_input": ({"resourceTemplateRef": {"name": "=inputs.t"}}, _str_input),
    "rf_t_local": ({"locals": {"p": "=inputs.t"}, "resourceTemplateRef": {"name": "=locals.p"}}, _str_input),
    "rf_t_concat": ({"resourceTemplateRef": {"name": "='tmpl-' + inputs.t"}}, lambda inp: None),
    "rf_t_badlocal": ({"locals": {"p": "=inputs.t.map(i, i.x)"}, "resourceTemplateRef": {"name": "=inputs.t"}},
                      lambda inp: None),   # the locals fail to evaluate for every generated input
    "rf_inline": ({"resource": {"data": {"k": "v"}}}, None),
}


def setup_ft_cache():
    import koreo_util as ku

    async def go():
        for name, (extra, _) in RF_TMPL.items():
            spec = {"apiConfig": {"apiVersion": "v1", "kind": "ConfigMap", "name": "=inputs.t", "namespace": "ns"}}
            spec.update(extra)
            await _offer("ResourceFunction", name, spec)

    ku.run(go())


def gen_ft(r):
    kind, name = r.choice([("ResourceFunction", n) for n in RF_TMPL] + [("ValueFunction", "vf_ok1"),
                                                                         ("ValueFunction", "vf_missing"),
                                                                         ("ResourceFunction", "rf_missing")])
    spec = {"functionRef": {"kind": kind, "name": name}}
    base = {}
    if r.random() < 0.7:
        base = {"t": r.choice(["a", "b", 5])}
        spec["inputs"] = dict(base)
    cases, merged = [], []
    for i in range(r.randint(0, 3)):
        c = {"expectReturn": {"x": 1}} if kind == "ValueFunction" or r.random() < 0.5 else {"expectDelete": False}
        over = {}
        if r.random() < 0.5:
            over = {"t": r.choice(["c", "d", 7])}
            c["inputOverrides"] = dict(over)
        cases.append(c)
        merged.append({**base, **over})
    cases_ok = True
    if cases and r.random() < 0.1:
        cases[0] = {"label": "broken"}        # no assertion: a PermFail from the test-case preparation
        cases_ok = False
    if cases:
        spec["testCases"] = cases
    return spec, (kind, name), merged, cases_ok


def expected_templates(fn, merged):
    kind, name = fn
    if kind != "ResourceFunction" or name not in RF_TMPL:
        return []
    f = RF_TMPL[name][1]
    if f is None:
        return []
    if name == "rf_t_const":
        return ["tmpl-const"]
    out = []
    for inp in merged:
        v = f(inp)
        if v is not None and v not in out:
            out.append(v)
    return out


def impl_ft(spec):
    import copy

    import koreo_util as ku
    from koreo.function_test.prepare import prepare_function_test

    try:
        got = ku.run(prepare_function_test("ft-under-test", copy.deepcopy(spec)))
    except Exception as e:  # noqa: BLE001
        return {"raise": type(e).__name__ + ": " + str(e)[:100]}
    if not isinstance(got, tuple):
        return {"watched": None}
    return {"watched": sorted([x.resource_type.__name__, str(x.name)] for x in (got[1] or ()))}


def ft_oracle(fn, got, cases_ok=None):
    if "raise" in got:
        return f"prepare_function_test raised: {got['raise']}"
    if got["watched"] is None:
        if cases_ok:    # the test's own spec is fine: whether its function is cached or not, it is named and watched
            return (f"prepare_function_test returned a bare outcome, so nothing is watched, although the spec names "
                    f"{fn[0]}:{fn[1]} as the function under test")
        return None
    if list(fn) not in got["watched"]:
        return f"the function under test {fn[0]}:{fn[1]} is not among the watched resources"
    return None


def run_functions(ck: Check, drv: LeanDriver, n: int, r):
    setup_cache()
    setup_ft_cache()
    reqs, keep = [], []
    for _ in range(n):
        spec, truth, body_ok = gen_rf(r)
        got = impl_rf(spec)
        ck.evaluated()
        ck.count("rf:" + ("raise" if "raise" in got else "permfail" if got["watched"] is None else "prepared"))
        if truth:
            ck.nontriv(hash(json.dumps(spec, sort_keys=True)))
        bad = rf_oracle(truth, body_ok, got)
        if bad:
            ck.violate({"kind": "rf", "spec": spec, "truth": truth, "body_ok": body_ok}, bad)
        if "raise" not in got:
            reqs.append(rf_request(spec, body_ok))
            keep.append(("rf", spec, got))
    for _ in range(n):
        spec, fn, merged, cases_ok = gen_ft(r)
        got = impl_ft(spec)
        ck.evaluated()
        ck.count("ft:" + ("raise" if "raise" in got else "permfail" if got["watched"] is None else "prepared"))
        ck.count(f"ft-fn:{fn[1]}")
        ck.nontriv(hash(json.dumps(spec, sort_keys=True)))
        bad = ft_oracle(fn, got, cases_ok)
        if bad:
            ck.violate({"kind": "ft", "spec": spec, "fn": list(fn), "cases_ok": cases_ok}, bad)
        if "raise" not in got:
            # test cases are merged only when there are any; with none, only a constant name resolves
            reqs.append({"op": "ft", "fn": {"kind": fn[0], "name": fn[1]}, "casesOk": cases_ok,
                         "templates": expected_templates(fn, merged) if (merged or fn[1] == "rf_t_const") else []})
            keep.append(("ft", spec, got))
    answers = ask(ck, drv, reqs)
    for (kind, spec, got), ans in zip(keep, answers):
        if ans is None:
            continue
        mw = ans.get("watched")
        model = None if mw is None else sorted([list(x) for x in set(map(tuple, mw))])
        if model != got["watched"]:
            ck.disagree({"kind": kind, "spec": spec}, model, got["watched"], f"{kind}-watched")


# --------------------------------------------------------------------------- corpus / replay

def replay_case(case) -> str | None:
    k = case.get("kind")
    if k == "expr":
        _, got = impl_extract(case["text"])
        return expr_oracle(case["text"], set(case.get("named", [])), got)
    if k == "workflow":
        setup_cache()
        return workflow_oracle(case["spec"], case["truth"], impl_workflow(case["spec"]))
    if k == "sequence":
        items = case["items"]
        hit = sequence_oracle(items, cold().run(items))
        return hit[1] if hit else None
    if k == "rf":
        setup_cache()
        return rf_oracle(case["truth"], case.get("body_ok", True), impl_rf(case["spec"]))
    if k == "ft":
        setup_cache()
        setup_ft_cache()
        return ft_oracle(tuple(case["fn"]), impl_ft(case["spec"]), case.get("cases_ok"))
    if k == "world":
        import koreo_util as ku

        ku.reset()
        SETUP_FAILURES.clear()
        ku.run(_offer(case["resource"], case["name"], case["spec"]))
        bad = [f for f in SETUP_FAILURES]
        SETUP_FAILURES.clear()
        return f"prepare of the well-formed {case['resource']} raised {bad[0][3]}" if bad else None
    return f"unknown case kind {k}"


def run_corpus(ck: Check, prop: str):
    d = common.VERIF / "corpus" / prop
    n = 0
    for f in sorted(d.glob("*.json")) if d.is_dir() else []:
        data = json.loads(f.read_text())
        for case in data.get("cases", [data] if "kind" in data else []):
            n += 1
            ck.evaluated()
            bad = replay_case(case) if prop == "C14" else None
            if bad:
                ck.violate(case, f"[corpus {f.name}] {bad}")
    ck.count("corpus-cases", n)


def run(tier: str) -> int:
    ck = Check("C14", tier)
    ck.trusted = [
        "Lean 4.33.0 kernel; axioms of every theorem ⊆ {propext, Classical.choice, Quot.sound}",
        "models lean/Koreo/CelAst.lean, WorkflowPrep.lean hand-transcribed from structure_extractor.py and the "
        "prepare modules; the grammar is regenerated from lark's compiled rules; the model is proved to agree with "
        "fact tables regenerated by PROBING the real code (harness/extractors/CelTables.py + _cel_probes.py): "
        "extract_argument_structure on small trees covering every node type at every position, prepare_workflow "
        "on a fixed table of expressions (recorded dependencies / parent properties)",
        "celpy 0.3.0 / lark parse-tree shapes (validated by the parse-tree differential)",
        "Python re (the two patterns are modelled as prefix + takeWhile; differential on every key)",
        "the cache lookup of a referenced Logic is abstracted to missing / unhealthy / ready",
    ]
    ck.assumptions = [
        "labels contain no '.', '[', quote or backslash (LabelOk); the CRD's x-kubernetes-validations rule asks for [[:word:]]+",
        "watch clauses are stated for entries that are not rejected for a reason of their own (duplicate label, "
        "unparsable switchOn / skipIf, two default cases, failed test cases): those specs are PermFail until edited",
    ]
    ck.prove(extractors=["CelTables"])
    if tier == "thorough" and ck.build_ok:
        ck.leanchecker()
    drv = LeanDriver("C14")
    r = rng("c14")
    quick = tier == "quick"
    run_corpus(ck, "C14")
    t0 = time.time()
    run_expressions(ck, drv, 5000 if quick else 200000, r, evaluate_every=10 if quick else 20)
    ck.notes.append(f"expressions: {time.time() - t0:.1f}s")
    t0 = time.time()
    run_workflows(ck, drv, 500 if quick else 6000, r)
    ck.notes.append(f"workflows: {time.time() - t0:.1f}s")
    t0 = time.time()
    run_sequences(ck, drv, 200 if quick else 3000, rng("c14-sequences"))
    ck.notes.append(f"sequences: {time.time() - t0:.1f}s")
    run_functions(ck, drv, 250 if quick else 3000, r)
    report_setup_failures(ck, "C14")
    return ck.finish(
        rule="random CEL expressions (member access, indexing, map/filter/all/exists/exists_one/has, calls, "
             "operators, conditionals, list/map/message literals over steps/inputs/parent, depth 1-4, plus the "
             "receivers the unrepaired extractor raised on) through real celpy + extract_argument_structure and the "
             "model; schema-valid Workflows with expressions in switchOn/skipIf/forEach.itemIn/inputs/state "
             "(earlier, later, own, unknown labels; duplicate labels; ref and refSwitch over cached / failing / "
             "missing Logic), sequences of 2-4 preparations in one process started cold (a Workflow, then updates of it "
             "with the same step specs reordered / dropped / rotated / behind a new step, under the same or another "
             "name; every preparation checked), ResourceFunctions with overlay lists, FunctionTests over functions with constant / "
             "input / locals-dependent template names; non-trivial = the expression or spec names at least one step / "
             "resource; distinct by source text / spec",
    )


def replay(path: str) -> int:
    data = json.load(open(path))
    rc = 0
    for v in data.get("violations", []) or [{"case": c} for c in data.get("cases", [])]:
        bad = replay_case(v["case"])
        print("replay:", json.dumps(v["case"])[:300], "::", bad)
        rc = rc or (1 if bad else 0)
    return rc


if __name__ == "__main__":
    import sys

    if "--cold-server" in sys.argv:
        _cold_server()
