"""C08 — payloads are clean: no directives, truthful last-applied, owners preserved.

proof:   lean/Koreo/Props/C08.lean (`strip_no_directives` by mutual induction, `strip_idempotent`,
         `request_body_no_directives`, `annotation_truthful`, `create_owner_if/iff`, `patch_adds_owner_when_missing`,
         `patch_preserves_live_owners` for every target — the patch branch is the repaired one, koreo-core fa30b95,
         former finding F7; its witness corpus/C08/target_owner_refs.json is replayed first on every run and must pass)
tie:     end-to-end ResourceFunctions whose layers (inline resource | ResourceTemplate, inline overlays, overlayRef
         ValueFunction, create.overlay — literally or through inputs) carry directive keys nested in maps and list
         items; every body sent is compared with the model's (whole body, decoded annotation, address)
oracle:  every body scanned at all depths, its annotation parsed back (json.loads) and compared with the body,
         owner-reference lists before / after (the server's merge-patch applied) across owner / namespace combinations
         and pre-existing ownerReferences lists; lost creation races (absent at the load, a competitor's object with
         owners of its own there when the POST arrives: 409) with "the live object" of a PATCH taken to be what the
         server holds when the PATCH arrives (`lost_creation_race_leaves_winner_alone`)
"""
from __future__ import annotations

import copy
import json
import os

from common import Check, LeanDriver, VERIF, from_wire, rng
import gen_rf678 as g

PREFIX = "C8"
PARENT_UID = g.OWNER_REF["uid"]

REF_VARIANTS = {
    "absent": "absent",
    "empty": [],
    "null": None,
    "other": [g.OTHER_REF],
    "others": [g.OTHER_REF, g.THIRD_REF],
    "parent": [g.OWNER_REF],
    "mixed": [g.OTHER_REF, g.OWNER_REF, g.THIRD_REF],
    "stale-parent": [g.STALE_PARENT_REF],                       # same apiVersion/kind/name, another uid
    "other+stale-parent": [g.OTHER_REF, g.STALE_PARENT_REF],
}


# ------------------------------------------------------------------ programs

def tree_has_owner_refs(t) -> bool:
    md = t.get("n", {}).get("metadata") if "n" in t else None
    if md is None:
        return False
    if "n" in md:
        return "ownerReferences" in md["n"]
    return isinstance(md.get("l"), dict) and "ownerReferences" in md["l"]


def target_specifies_owner_refs(prog: dict) -> bool:
    return any(tree_has_owner_refs(t) for t in prog.get("extra", {}).values())


def random_program(r, i: int) -> dict:
    namespaced = r.random() < 0.75
    prog = {"prefix": PREFIX, "namespaced": namespaced, "tmplForm": r.choice(("inline", "inline", "ref")),
            "edits": [], "benign": [], "extra": {},
            "flags": {"owned": r.random() < 0.7, "policy": "patch"}}
    if r.random() < 0.3:
        prog["ownerNs"] = r.choice(("elsewhere", None))
    if not namespaced and r.random() < 0.4:
        prog["ownerNs"] = None          # a cluster-scoped parent of a cluster-scoped object
    if not namespaced and r.random() < 0.45:
        # a cluster-scoped kind whose apiConfig nevertheless names a namespace: kr8s writes it into the object it
        # POSTs, so it has to be in the payload (and in its last-applied record) before that
        prog["apiNs"] = "odd-ns"
        if r.random() < 0.4:
            prog["ownerNs"] = "odd-ns"
    layers = [l for l in g.LAYERS if r.random() < (0.9 if l == "template" else 0.4)] or ["template"]
    for n, layer in enumerate(layers):
        v = g.dirty_value(r, force_directive=(n == 0))
        if not isinstance(v, dict):
            v = {"val": v}
        via_rate = 0.0 if (layer == "template" and prog["tmplForm"] == "ref") else 0.25
        where = r.random()
        if where < 0.7:
            t = g.node(spec=g.node(**{f"d_{layer}": g.value_tree(r, v, via_rate)}))
        elif where < 0.85:
            t = g.node(spec=g.value_tree(r, v, via_rate) if v else g.node())
            if "n" not in t["n"]["spec"]:
                t = g.node(spec=g.node(val=t["n"]["spec"]))
        else:   # directives inside metadata.labels / at the top level of the object
            t = g.node(metadata=g.node(labels=g.node(app=g.leaf("t"), **{g.DIRECTIVES[0]: g.leaf(["app"])})),
                       **{g.DIRECTIVES[2]: g.leaf(["spec"])}, spec=g.node(**{f"d_{layer}": g.value_tree(r, v, via_rate)}))
        prog["extra"][layer] = t
    if r.random() < 0.2:    # the target names a namespace of its own (the forced overlay decides)
        layer = r.choice(layers)
        prog["extra"][layer] = g.tree_merge(prog["extra"][layer],
                                            g.node(metadata=g.node(namespace=g.leaf(r.choice(("own-ns", "odd-ns"))))))
    if r.random() < 0.12:   # the F7 class: the target itself lists owners
        layer = r.choice(layers)
        refs = r.choice(([g.THIRD_REF], [g.THIRD_REF, g.OTHER_REF], [], [g.STALE_PARENT_REF],
                         [g.OTHER_REF, g.STALE_PARENT_REF]))
        prog["extra"][layer] = g.tree_merge(prog["extra"][layer],
                                            g.node(metadata=g.node(ownerReferences=g.leaf(copy.deepcopy(refs)))))
    if r.random() < 0.03:   # `_prepare_for_api` cannot hold the annotation: nothing may be sent
        layer = r.choice(layers)
        prog["extra"][layer] = g.tree_merge(prog["extra"][layer],
                                            g.node(metadata=g.node(annotations=g.leaf(r.choice((None, "str", [1]))))))
    elif r.random() < 0.3:  # the target has annotations / labels of its own
        layer = r.choice(layers)
        prog["extra"][layer] = g.tree_merge(prog["extra"][layer],
                                            g.node(metadata=g.node(annotations=g.node(note=g.leaf("n")))))
    if r.random() < 0.15:   # a create.overlay that writes metadata / metadata.ownerReferences (a co-owner, a whole
        # metadata map computed from inputs): the parent's reference must still be there after it
        how = r.choice(("co-owner", "co-owner-via-input", "metadata-from-input", "metadata-from-input-with-owners"))
        if how == "co-owner":
            t = g.node(metadata=g.node(ownerReferences=g.leaf([copy.deepcopy(g.THIRD_REF)])))
        elif how == "co-owner-via-input":
            t = g.node(metadata=g.node(ownerReferences=g.leaf([copy.deepcopy(g.OTHER_REF)], via=True)))
        elif how == "metadata-from-input":
            t = g.node(metadata=g.leaf({"labels": {"set-by": "create"}}, via=True))
        else:
            t = g.node(metadata=g.leaf({"labels": {"set-by": "create"},
                                        "ownerReferences": [copy.deepcopy(g.THIRD_REF)]}, via=True))
        base = prog["extra"].get("create") or g.node(spec=g.node(onCreate=g.leaf(True)))
        prog["extra"]["create"] = g.tree_merge(base, t)
        prog["createTouchesMetadata"] = how
    if r.random() < 0.1:
        prog["skip"] = [l for l in layers if l in ("ov0", "ov1", "ovRef")][:1]
    return prog


def live_variants(r, prog: dict, post_body):
    """stored objects for the second pass: (label, object)"""
    kind, _ = g.kind_for(PREFIX, prog["namespaced"])
    ns = g.NS if prog["namespaced"] else None
    out = []
    for _ in range(2):
        shape = r.choice(("minimal", "applied-drifted", "applied-matching")) if post_body else "minimal"
        refs_name = r.choice(list(REF_VARIANTS))
        refs = copy.deepcopy(REF_VARIANTS[refs_name])
        if shape == "minimal":
            md = {"name": g.NAME, "uid": "uid-live", "resourceVersion": "9"}
            if ns:
                md["namespace"] = ns
            obj = {"apiVersion": g.API_VERSION, "kind": kind, "metadata": md, "spec": {"liveOnly": 1}}
        else:
            obj = copy.deepcopy(post_body)
            obj.setdefault("metadata", {})["uid"] = "uid-live"
            if shape == "applied-drifted":
                obj["spec"] = {"liveOnly": 1}
        if refs == "absent":
            obj["metadata"].pop("ownerReferences", None)
        else:
            obj["metadata"]["ownerReferences"] = refs
        out.append((f"{shape}/{refs_name}", obj))
    return out


# ------------------------------------------------------------------ a lost creation race

def run_program(prog: dict) -> dict:
    """`g.run_program`; with `prog["competitor"]` (an object) the run is a LOST CREATION RACE: the cluster is empty
    when koreo loads the object, and somebody else's object — with owner references of its own — is there by the
    time koreo's POST arrives, so the server answers 409.  For every call the cluster also remembers what it held
    under the call's address when the call ARRIVED (`cluster.live_before[i]`): that, not what the load saw, is
    "the live object" a PATCH must not take owner references from."""
    theirs = prog.get("competitor")
    if theirs is None:
        return g.run_program(prog)
    b = g.build(prog)
    key = (b["apiVersion"], b["plural"], b["ns"] if prog["namespaced"] else None, b["name"])

    def configure(c):
        c.live_before = {}
        state = {"arrived": False}

        def arrive(i, method, at):
            if method == "POST" and not state["arrived"]:
                state["arrived"] = True
                c.objects[key] = copy.deepcopy(theirs)
            c.live_before[i] = copy.deepcopy(c.objects.get(at))
            return 0
        c.latency = arrive
    b["obs"] = g.reconcile(b["spec"], objects=b["objects"], inputs=b["inputs"], owner=b["owner"],
                           templates=b["templates"], value_functions=b["vfs"], configure=configure)
    return b


def lost_race_variants(r, prog: dict, post_body):
    """the competitor's object for a lost creation race: (label, object) — shaped like the live objects of the
    second pass (minimal | what we were about to create, drifted or not), owners of its own from REF_VARIANTS"""
    label, obj = live_variants(r, prog, post_body)[0]
    return [(label, obj)]


# ------------------------------------------------------------------ one cached template, several creates

SECOND_PARENT = {"apiVersion": "koreo.dev/v1", "kind": "Trigger", "name": "second-parent", "uid": "uid-parent-2",
                 "blockOwnerDeletion": True, "controller": False}


def shared_template_case(r) -> dict:
    """2-3 functions (owning / not owning, parents in the same / another namespace, different parents) that all
    render their object from the SAME cached ResourceTemplate, which lists owners of its own; created one after
    the other in one process without the cache being reset"""
    namespaced = r.random() < 0.8
    listed = r.choice(([g.THIRD_REF], [g.THIRD_REF, g.OTHER_REF], [g.STALE_PARENT_REF]))
    v = g.dirty_value(r, force_directive=True)
    tmpl = g.tree_merge(g.node(spec=g.node(shared=g.value_tree(r, v if isinstance(v, dict) else {"val": v}, 0.0))),
                        g.node(metadata=g.node(ownerReferences=g.leaf(copy.deepcopy(listed)))))
    progs = []
    for i in range(r.choice((2, 3, 3))):
        p = {"prefix": PREFIX, "namespaced": namespaced, "tmplForm": "ref", "edits": [], "benign": [],
             "extra": {"template": copy.deepcopy(tmpl)}, "name": f"obj-{i}",
             "flags": {"owned": (i == 0) or r.random() < 0.5, "policy": "patch"},
             "expectOwnerUids": [x["uid"] for x in listed], "stored": None}
        if i > 0:
            how = r.choice(("same-parent", "other-parent", "parent-elsewhere", "not-owning"))
            if how == "other-parent":
                p["ownerRef"] = copy.deepcopy(SECOND_PARENT)
            elif how == "parent-elsewhere":
                p["ownerNs"] = "elsewhere"
            elif how == "not-owning":
                p["flags"]["owned"] = False
        if not namespaced:
            p["ownerNs"] = None if (i == 0 or r.random() < 0.5) else "ns1"
        progs.append(p)
    return {"shared": progs}


def run_shared_template(case: dict) -> list:
    """every function prepared (the template is cached ONCE), then each creates its object, in order"""
    progs = copy.deepcopy(case["shared"])
    builds = g.prepare_all_reconcile_some(progs, list(range(len(progs))))
    for i, p in enumerate(progs):
        p["sharedSequence"] = {"case": copy.deepcopy(case), "index": i}   # a violation names the whole sequence
    return list(zip(progs, builds))


def shared_bad(case: dict):
    for q, b in run_shared_template(case):
        bad = oracle(q, b)
        if bad:
            return bad[0], f"object #{q['sharedSequence']['index'] + 1} rendered from the one cached template: {bad[1]}"
    return None


# ------------------------------------------------------------------ oracle

def split_annotation(body):
    """(body without the annotation, annotation text or None)"""
    b = copy.deepcopy(body)
    ann = g.get_path(b, "metadata", "annotations")
    text = None
    if isinstance(ann, dict) and g.LAST_APPLIED in ann:
        text = ann.pop(g.LAST_APPLIED)
    return b, text


def drop_holders(without, parsed):
    """remove from `without` only the empty containers that exist there to hold the annotation"""
    w = copy.deepcopy(without)
    md = w.get("metadata")
    pmd = parsed.get("metadata") if isinstance(parsed, dict) else None
    if isinstance(md, dict) and md.get("annotations") == {} and not (isinstance(pmd, dict) and "annotations" in pmd):
        del md["annotations"]
    if w.get("metadata") == {} and not (isinstance(parsed, dict) and "metadata" in parsed):
        del w["metadata"]
    return w


def should_own(prog: dict, b: dict) -> bool:
    return bool(prog["flags"].get("owned", True)) and b["owner"][0] == b["ns"]


def parent_uid(prog: dict) -> str:
    return prog.get("ownerRef", g.OWNER_REF)["uid"]


def oracle(prog: dict, b: dict) -> tuple[str, str] | None:
    """(clause, description) of the first C08 clause the run breaks, None if none"""
    obs = b["obs"]
    if not obs["prepared"]:
        return None
    PARENT_UID = parent_uid(prog)
    muts = [e for e in g.log_view(obs["cluster"]) if e["method"] != "GET"]
    if prog.get("fault") is not None and len(muts) > 1:
        return "rejected-mutation", (f"the server answered the {muts[0]['method']} with {prog['fault']}, yet "
                                     f"{[e['method'] for e in muts[1:]]} followed")
    arrived_at = getattr(obs["cluster"], "live_before", None)     # call index -> what the server held at arrival
    raw_log = [x for x in obs["cluster"].log if x["method"] != "LOOKUP"]
    for e, raw in zip(g.log_view(obs["cluster"]), raw_log):
        if e["method"] not in ("POST", "PATCH"):
            continue
        body = e["body"]
        where = g.directive_paths(body)
        if where:
            return "no-directives", f"{e['method']} body has a directive key at {where[0]}"
        without, text = split_annotation(body)
        if text is None:
            return "annotation", f"{e['method']} body has no last-applied annotation"
        try:
            parsed = json.loads(text)
        except Exception as ex:
            return "annotation", f"last-applied annotation is not JSON: {ex}"
        if g.directive_paths(parsed):
            return "no-directives", f"the last-applied annotation records a directive key at {g.directive_paths(parsed)[0]}"
        if not g.typed_eq(drop_holders(without, parsed), parsed):
            return "annotation", ("last-applied annotation is not the object as sent without it: "
                                  f"{g.dumps(parsed)[:300]} vs {g.dumps(without)[:300]}")
        own = should_own(prog, b)
        listed = target_specifies_owner_refs(prog)
        if e["method"] == "POST" and prog.get("expectOwnerUids") is not None:
            want_uids = list(prog["expectOwnerUids"]) + \
                ([PARENT_UID] if own and PARENT_UID not in prog["expectOwnerUids"] else [])
            if g.owner_uids(body) != want_uids:
                return "create-owner", (f"created object lists owners {g.owner_uids(body)}; the template lists "
                                        f"{prog['expectOwnerUids']} and the parent {'is' if own else 'is not'} to be added")
        if e["method"] == "POST":
            has = PARENT_UID in g.owner_uids(body)
            if own and not has:
                return "create-owner", "owning function, same namespace, but the created object lacks the parent's reference"
            if has and not own and not listed:
                return "create-owner", "created object carries the parent's reference although the function should not own it"
        else:
            # the live object is what the server holds when the PATCH arrives (in a plain run: what was loaded)
            stored = arrived_at.get(raw["i"]) if arrived_at is not None else prog["stored"]
            if stored is None:
                continue        # nothing there to patch: the server answers 404, no owner list is touched
            merged = g.merge_patch(stored, body)
            before, after = g.owner_uids(stored), g.owner_uids(merged)
            if own and PARENT_UID not in before and PARENT_UID not in after:
                return "patch-adds-owner", "patch of an object lacking the parent's reference did not add it"
            if not own and PARENT_UID in after and PARENT_UID not in before:
                return "patch-adds-owner", "patch added the parent's reference although the function should not own the object"
            lost = [u for u in before if u not in after]
            if lost:
                return "patch-preserves-live-owners", f"patch drops live owner references {lost} (live {before} -> {after})"
            live_refs = g.get_path(stored, "metadata", "ownerReferences") or []
            new_refs = g.get_path(merged, "metadata", "ownerReferences") or []
            if isinstance(live_refs, list) and any(x not in new_refs for x in live_refs):
                return "patch-preserves-live-owners", "a live owner reference was altered by the patch"
    return None


# ------------------------------------------------------------------ correspondence

def decode_body(body, model: bool):
    """body with the annotation text replaced by the value it encodes (so both sides compare as values)"""
    b = copy.deepcopy(body)
    ann = g.get_path(b, "metadata", "annotations")
    if isinstance(ann, dict) and isinstance(ann.get(g.LAST_APPLIED), str):
        try:
            v = json.loads(ann[g.LAST_APPLIED])
            ann[g.LAST_APPLIED] = {"decoded": from_wire(v) if model else v}
        except Exception:
            pass
    return b


def model_request(ans: dict, b: dict, prog: dict):
    run = ans["ifMatch"]
    exp = ans.get("expected")
    if prog.get("stored") is not None and exp is not None and run["action"] not in ("noApiAtAll",):
        # the comparator is an input of the model; where the real one raises (C05's subject) there is
        # nothing to compare
        verdict = g.comparator_says(from_wire(exp), prog["stored"], prog["namespaced"], b["ns"])
        if verdict is None:
            return "skip"
        run = ans["ifMatch"] if verdict else ans["ifDrift"]
    q = run["request"]
    if q is None:
        return None
    body = None if q["body"] is None else decode_body(from_wire(q["body"]), model=True)
    name = from_wire(q["name"]) if q["method"] != "POST" else g.get_path(body, "metadata", "name")
    return {"method": q["method"], "plural": q["plural"], "name": name, "nsArg": from_wire(q["nsArg"]), "body": body}


def impl_request(obs: dict):
    q = g.impl_request(obs)
    if q is None or q == "multiple":
        return q
    body = decode_body(q["body"], model=False) if q["method"] in ("POST", "PATCH") else None
    return {"method": q["method"], "plural": q["plural"], "name": q["name"], "nsArg": q["nsArg"], "body": body}


def same_request(a, b) -> bool:
    if a is None or b is None or isinstance(a, str) or isinstance(b, str):
        return a == b
    return all(a[k] == b[k] for k in ("method", "plural", "name", "nsArg")) and \
        ((a["body"] is None and b["body"] is None) or g.typed_eq(a["body"], b["body"]))


# ------------------------------------------------------------------ shrinking

def shrink(prog: dict, clause: str) -> dict:
    def still(p):
        try:
            got = oracle(p, run_program(p))
        except Exception:
            return False
        return got is not None and got[0] == clause

    small = copy.deepcopy(prog)
    for layer in list(small.get("extra", {})):
        trial = copy.deepcopy(small)
        del trial["extra"][layer]
        if still(trial):
            small = trial
    # prune the remaining trees: drop map entries one by one while the failure stays
    def prune(path):
        nonlocal small
        t = small["extra"]
        for p in path:
            t = t[p]["n"] if "n" in t[p] else None
            if t is None:
                return
        for k in list(t):
            trial = copy.deepcopy(small)
            tt = trial["extra"]
            for p in path:
                tt = tt[p]["n"]
            del tt[k]
            if still(trial):
                small = trial
                t = small["extra"]
                for p in path:
                    t = t[p]["n"]
            elif "n" in t[k]:
                prune(path + [k])
                t = small["extra"]
                for p in path:
                    t = t[p]["n"]
    for layer in list(small.get("extra", {})):
        if "n" in small["extra"][layer]:
            prune([layer])
    for k in ("skip", "ownerNs"):
        if k in small:
            trial = copy.deepcopy(small)
            del trial[k]
            if still(trial):
                small = trial
    return small


# ------------------------------------------------------------------ the check

def examine(ck: Check, prog: dict, b: dict, ans, label: str):
    obs = b["obs"]
    ck.evaluated()
    act = g.action_of(obs["cluster"]) if obs["prepared"] else "not-prepared"
    ck.count(f"action:{act}")
    ck.count(f"pass:{label.split('/')[0]}")
    if "/" in label:
        ck.count(f"live-refs:{label.split('/')[1]}")
    if prog.get("competitor") is not None and obs["prepared"]:
        ck.count("lost-race:requests:" + ",".join(e["method"] for e in g.log_view(obs["cluster"])))
    if obs["raised"]:
        ck.count("raised")
    own = should_own(prog, b) if obs["prepared"] else None
    ck.count(f"should-own:{own}")
    req = g.impl_request(obs) if obs["prepared"] else None
    if isinstance(req, dict) and req["method"] in ("POST", "PATCH"):
        depth_hits = sum(len(g.directive_paths(tree_val)) for tree_val in
                         [g.tree_value(t) for t in prog.get("extra", {}).values()])
        ck.count("directive-keys-in-target:" + ("0" if depth_hits == 0 else "1-3" if depth_hits <= 3 else "4+"))
        nest = max([0] + [g.directive_in_nested_list(g.tree_value(t)) for t in prog.get("extra", {}).values()])
        if nest:
            ck.count(f"directive-under-lists-in-lists:depth{nest}")
        if depth_hits:
            ck.nontriv(g.dumps([prog.get("extra"), prog["namespaced"], prog["tmplForm"], label, req["method"]]))
        if len(ck.cov["samples"]) < 4 and depth_hits >= 2:
            ck.sample({"prog": {k: v for k, v in prog.items() if k != "stored"}, "spec": b["spec"],
                       "templates": b["templates"], "valueFunctions": b["vfs"], "inputs": b["inputs"],
                       "sent": {"method": req["method"], "body": req["body"]}})
    bad = oracle(prog, b)
    if bad:
        clause, what = bad
        seen = sum(1 for v in ck.violations if v["case"].get("clause") == clause)
        if "sharedSequence" in prog:
            # only the whole sequence (one cache, several creates) means anything: cut it after the failing create
            seq, i = prog["sharedSequence"]["case"], prog["sharedSequence"]["index"]
            small_case = {"shared": copy.deepcopy(seq["shared"][:i + 1])}
            again = shared_bad(small_case) if seen < 3 else None
            if again is None:
                small_case, again = seq, (clause, what)
            if seen < 40:
                ck.violate({"shared": small_case["shared"], "clause": again[0]}, again[1])
            bad = None
        elif seen >= 3:
            small = prog      # enough minimised examples of this clause already
        else:
            small = shrink(prog, clause)
        if bad is None:
            pass
        elif seen < 40:
            ck.violate({"prog": small, "clause": clause}, what)
        else:
            ck.count(f"further-violations:{clause}")
    if ans is None:
        return
    if "error" in ans:
        ck.disagree({"prog": prog}, ans, None, "driver-error")
        return
    if not obs["prepared"]:
        ck.disagree({"prog": prog}, "prepared", obs["prepare"], "program does not prepare")
        return
    mine = impl_request(obs)
    for layer in prog.get("extra", {}):
        ck.count(f"content-in-layer:{layer}")
    if not prog["namespaced"] and prog.get("apiNs"):
        ck.count("cluster-scoped-with-apiConfig-namespace")
    if prog.get("createTouchesMetadata"):
        ck.count("create-overlay-writes:" + prog["createTouchesMetadata"])
    if target_specifies_owner_refs(prog):
        ck.count("target-lists-owners:" + ("live-present" if prog.get("stored") is not None else "absent"))
    want = model_request(ans, b, prog)
    if want == "skip":
        ck.count("comparator-raised")
        return
    if obs["raised"] and want is None:
        ck.count("raised-and-model-sends-nothing")
        return
    if prog.get("fault") is not None and isinstance(mine, dict):
        # the one mutating call was rejected: the model's request is that call, and the error propagates
        ck.count(f"mutation-rejected-with:{prog['fault']}")
        if not same_request(want, mine) or not obs["raised"]:
            ck.disagree({"prog": prog}, want, {"request": mine, "raised": obs["raised"]},
                        "rejected mutation: the one request sent / the error propagates")
        return
    if obs["raised"] or not same_request(want, mine):
        case = {"shared": prog["sharedSequence"]["case"]["shared"], "index": prog["sharedSequence"]["index"]} \
            if "sharedSequence" in prog else {"prog": prog}
        ck.disagree(case, want, {"request": mine, "raised": obs["raised"]},
                    "request: method/address/whole body with decoded annotation")


def corpus_cases():
    d = VERIF / "corpus" / "C08"
    out = []
    if d.is_dir():
        for f in sorted(d.glob("*.json")):
            data = json.loads(f.read_text())
            for v in data.get("violations", []):
                out.append((f.name, v["case"]))
    return out


def run(tier: str) -> int:
    ck = Check("C08", tier)
    ck.trusted = [
        "Lean 4.33.0 kernel; axioms of every theorem ⊆ {propext, Classical.choice, Quot.sound}",
        "models: Koreo.strip (Directives.lean), lean/Koreo/Payload.lean (_prepare_for_api, _updated_owner_refs, "
        "_validate_owner_reffed), lean/Koreo/ResourceFn.lean (create / patch payload pipeline), Koreo.mergePatch (RFC 7386, "
        "the server side) — hand-transcribed; directive keys and the annotation key regenerated from constants.py",
        "JSON text abstract in the proofs (`enc` with a left inverse); the check parses the real text with json.loads",
        "kr8s 0.20.7 (POST sends `raw`, PATCH sends the payload as given), harness/cluster.py (merge-patch, request log), celpy",
    ]
    ck.assumptions = [
        "targets do not set Koreo's own last-applied annotation (theorem own_last_applied_is_overwritten shows the corner)",
        "ownerReferences lists hold objects (the API server guarantees it for live objects); the parent's reference has a string uid",
        "JSON objects have distinct keys (Python dicts)",
        "live owner references are free of Koreo directive keys (a patch that adds the parent re-sends stripped copies)",
    ]
    ck.prove(extractors=["RfDefaults"])
    if tier == "thorough":
        ck.leanchecker()

    drv = LeanDriver("C08")
    r = rng("c08")
    n = 400 if tier == "quick" else 4000
    work = []   # (label, prog)
    for name, case in corpus_cases():
        work.append((f"corpus:{name}", case["prog"]))
        ck.count("corpus-cases")
    built_first = []
    progs = [random_program(r, i) for i in range(n)]
    for size, form in ((300_000, "inline"), (270_000, "ref"), (262_100, "inline")):
        # unusually large targets (the stripped JSON is around / above 256 KiB): the annotation is there all the same
        progs.append({"prefix": PREFIX, "namespaced": True, "tmplForm": form, "edits": [], "benign": [], "extra": {},
                      "flags": {"owned": True, "policy": "patch"}, "bigField": size})
    for p in progs:
        q = copy.deepcopy(p)
        q["stored"] = None
        work.append(("absent", q))
    built = [run_program(p) for _, p in work]
    # second pass: live objects derived from what the first pass created
    second = []
    for (label, p), b in zip(list(work), list(built)):
        if label != "absent":
            continue
        req = g.impl_request(b["obs"]) if b["obs"]["prepared"] else None
        post = req["body"] if isinstance(req, dict) and req["method"] == "POST" else None
        for vlabel, obj in live_variants(r, p, post):
            q = copy.deepcopy(p)
            q["stored"] = obj
            if r.random() < 0.2:
                q["fault"] = r.choice((403, 403, 409, 422, 500))    # the server rejects the PATCH
            second.append((vlabel, q))
    work += second
    built += [run_program(p) for _, p in second]
    # lost creation races: absent at the load, a competitor's object (owners of its own) there when the POST arrives
    races = []
    for (label, p), b in zip(list(work), list(built)):
        if label != "absent" or p.get("bigField") or r.random() >= 0.4:
            continue
        req = g.impl_request(b["obs"]) if b["obs"]["prepared"] else None
        if not (isinstance(req, dict) and req["method"] == "POST"):
            continue
        for vlabel, obj in lost_race_variants(r, p, req["body"]):
            q = copy.deepcopy(p)
            q["stored"] = None
            q["competitor"] = obj
            races.append((f"lost-race:{vlabel}", q))
    work += races
    built += [run_program(p) for _, p in races]
    # several functions rendering objects from ONE cached ResourceTemplate that lists owners of its own
    n_shared = 40 if tier == "quick" else 400
    for _ in range(n_shared):
        case = shared_template_case(r)
        for q, b in run_shared_template(case):
            work.append(("shared-template", q))
            built.append(b)
    try:
        answers = drv.ask([b["model"] for b in built])
    except Exception as e:
        answers = [None] * len(built)
        ck.notes.append(f"model driver unavailable: {e}")
        ck.build_ok = False
    for (label, prog), b, ans in zip(work, built, answers):
        examine(ck, prog, b, ans, label)
    ck.cov["programs"] = len(work)
    return ck.finish(
        rule="random end-to-end ResourceFunctions: Koreo directive keys (with comparator-shaped values) nested in maps "
             "(to depth 3) and in list items, placed in the inline resource / a ResourceTemplate, inline overlays, an "
             "overlayRef ValueFunction, create.overlay, as literals or through inputs, also inside metadata.labels and "
             "at the top level; owning / non-owning, parent in the same / another / no namespace, namespaced and "
             "cluster-scoped (45% of the cluster-scoped kinds with an apiConfig.namespace all the same; 20% of targets name "
             "a namespace of their own); first reconciled against an empty cluster, then against live objects (minimal, or what "
             "the first pass created — drifted or matching) whose ownerReferences are absent | [] | null | [other] | "
             "[other,third] | [parent] | [other,parent,third] | [a reference with the parent's apiVersion/kind/name but "
             "another uid] | [other, that]; lists nested directly in lists (1-3 levels) with directive-bearing maps "
             "inside; ~15% of create overlays write metadata.ownerReferences (a co-owner) or a whole metadata map from inputs; ~12% of targets list owners themselves (the former F7 class, "
             "whose witness corpus/C08/target_owner_refs.json is replayed first), ~3% "
             "have unusable annotations; 20% of the PATCH-path runs have the server reject the mutating call (403, 409, 422, "
             "500: nothing else may follow, the error propagates); 40% of the creating programs once more as a LOST CREATION "
             "RACE (nothing there at the load; a competitor's object — minimal, or what we were about to create, drifted or "
             "not, with any of the nine ownerReferences shapes — is there when the POST arrives and the server answers 409; "
             "whatever is sent after that is judged against what the server holds at that moment: a PATCH must not drop "
             "or alter the winner's owner references); three unusually large targets (a 262-300 KB string "
             "field); 40 sequences of 2-3 functions creating objects from ONE cached ResourceTemplate that lists owners "
             "of its own (owning / not owning, other parents, parents elsewhere; the cache is not reset in between; the "
             "created object's owner list must be the template's plus the parent iff owning and same namespace); non-trivial = the target carries directive keys and a POST or PATCH was sent; "
             "distinct by layer contents+scope+template form+live variant+method",
    )


def replay(path: str) -> int:
    data = json.load(open(path))
    rc = 0
    for v in data.get("violations", []):
        if "shared" in v["case"]:
            bad = shared_bad(v["case"])
            print("replay (one cached template, several creates):", json.dumps(v["case"]["shared"])[:900], "::", bad)
            rc = rc or (1 if bad else 0)
            continue
        prog = v["case"]["prog"]
        b = run_program(prog)
        bad = oracle(prog, b)
        q = g.impl_request(b["obs"]) if b["obs"]["prepared"] else None
        print("replay:", json.dumps(prog)[:600], "->", json.dumps(q, default=str)[:900], "::", bad)
        rc = rc or (1 if bad else 0)
    for d in data.get("no_longer_checks", []):
        if d.get("kind") == "correspondence" and isinstance(d.get("case"), dict) and "prog" in d["case"]:
            prog = d["case"]["prog"]
            b = run_program(prog)
            ans = LeanDriver("C08").ask([b["model"]])[0]
            want = model_request(ans, b, prog)
            mine = impl_request(b["obs"])
            agree = want == "skip" or (b["obs"]["raised"] and want is None) or \
                (same_request(want, mine) and not b["obs"]["raised"])
            print("replay (model/implementation):", json.dumps(prog)[:600], "impl ->", json.dumps(mine, default=str)[:900],
                  b["obs"]["raised"], "model ->", json.dumps(want, default=str)[:900], "::", "agree" if agree else "DISAGREE")
            rc = rc or (0 if agree else 1)
        elif d.get("kind") in ("lean-build", "audit"):
            print("replay: the proof side did not check:", str(d)[:600])
            rc = 1
    return rc
