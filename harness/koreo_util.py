"""Helpers to drive the real koreo code from the harness (prepare through the real cache,
reset module state between cases, turn CEL values into plain JSON)."""
from __future__ import annotations

import asyncio
import logging

import common  # noqa: F401  (puts REPO/src on sys.path)

import celpy
from celpy import celtypes

from koreo import cache, registry, result
from koreo.resource_function.reconcile import kind_lookup

logging.disable(logging.CRITICAL)  # koreo logs every caught exception; keep the harness quiet


def reset():
    """fresh cache / registry / plural map"""
    cache._reset_cache()
    cache._REPREPARE_TASKS.clear()
    cache._PREPARE_TIMES.clear()
    kind_lookup._reset()


def plain(v):
    """CEL value -> plain JSON-like Python (bool stays bool, CELEvalError -> marker object)"""
    if isinstance(v, celpy.CELEvalError):
        return {"__CELEvalError__": str(v.args)}
    if isinstance(v, celtypes.BoolType):
        return bool(v)
    if isinstance(v, bool) or v is None:
        return v
    if isinstance(v, (celtypes.IntType, celtypes.UintType)):
        return int(v)
    if isinstance(v, celtypes.DoubleType):
        return float(v)
    if isinstance(v, (celtypes.StringType, celtypes.TimestampType, celtypes.DurationType)):
        return str(v)
    if isinstance(v, dict):
        return {plain(k): plain(x) for k, x in v.items()}
    if isinstance(v, (list, tuple)):
        return [plain(x) for x in v]
    if isinstance(v, (int, float, str)):
        return v
    return {"__unknown__": repr(v)}


def has_cel_error(v) -> bool:
    """an error object anywhere (keys included) in a value"""
    if isinstance(v, (celpy.CELEvalError, Exception)):
        return True
    if isinstance(v, dict):
        return any(has_cel_error(k) or has_cel_error(x) for k, x in v.items())
    if isinstance(v, (list, tuple)):
        return any(has_cel_error(x) for x in v)
    return False


def outcome_class(o) -> str:
    """class name of an (unwrapped) outcome: ok / skip / depSkip / retry / permFail"""
    if isinstance(o, result.DepSkip):
        return "depSkip"
    if isinstance(o, result.Skip):
        return "skip"
    if isinstance(o, result.Retry):
        return "retry"
    if isinstance(o, result.PermFail):
        return "permFail"
    return "ok"


def outcome_obs(o) -> dict:
    """(class, delay, value) observation of an unwrapped outcome"""
    c = outcome_class(o)
    d = {"c": c}
    if c == "retry":
        d["delay"] = o.delay
    if c == "ok":
        d["v"] = plain(o.data if isinstance(o, result.Ok) else o)
    else:
        d["msg"] = o.message
        d["loc"] = o.location
    return d


def meta(name: str, version: str = "1") -> dict:
    return {"name": name, "resourceVersion": version}


async def offer(resource_class, preparer, name: str, spec: dict, version: str = "1"):
    """prepare through the real cache (so that references between definitions resolve)"""
    return await cache.prepare_and_cache(
        resource_class=resource_class, preparer=preparer, metadata=meta(name, version), spec=spec)


async def offer_value_function(name, spec, version="1"):
    from koreo.value_function.prepare import prepare_value_function
    from koreo.value_function.structure import ValueFunction

    return await offer(ValueFunction, prepare_value_function, name, spec, version)


async def offer_resource_function(name, spec, version="1"):
    from koreo.resource_function.prepare import prepare_resource_function
    from koreo.resource_function.structure import ResourceFunction

    return await offer(ResourceFunction, prepare_resource_function, name, spec, version)


async def offer_resource_template(name, spec, version="1"):
    from koreo.resource_template.prepare import prepare_resource_template
    from koreo.resource_template.structure import ResourceTemplate

    return await offer(ResourceTemplate, prepare_resource_template, name, spec, version)


async def offer_workflow(name, spec, version="1"):
    from koreo.workflow.prepare import prepare_workflow
    from koreo.workflow.structure import Workflow

    return await offer(Workflow, prepare_workflow, name, spec, version)


def run(coro):
    """run on a fresh loop; pending background tasks (cache monitors) are cancelled afterwards"""
    loop = asyncio.new_event_loop()
    try:
        asyncio.set_event_loop(loop)
        return loop.run_until_complete(coro)
    finally:
        try:
            pending = [t for t in asyncio.all_tasks(loop) if not t.done()]
            for t in pending:
                t.cancel()
            if pending:
                loop.run_until_complete(asyncio.gather(*pending, return_exceptions=True))
        finally:
            asyncio.set_event_loop(None)
            loop.close()


OWNER_REF = {
    "apiVersion": "koreo.dev/v1", "kind": "Trigger", "name": "parent", "uid": "uid-parent",
    "blockOwnerDeletion": True, "controller": False,
}
