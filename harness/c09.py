"""C09 — Workflow reconcile contains faults, stays truthful, and recovers.   (partial: cancellation delivery, time)

proof:   lean/Koreo/Props/C09.lean over lean/Koreo/WorkflowFaults.lean (REPAIRED code, fixes/F1-…diff): for EVERY
         outcome of the task group that the rules of asyncio's TaskGroup / time-out allow (`Possible`), the affected
         step is stored as Retry / PermFail, its dependents are not run, the overall outcome is an error, no
         condition says "Ready" for a step that did not succeed, the pass returns; one ResourceFunction evaluation
         answers every API fault with Retry / PermFail / an escaping exception / a hang and never Ok, the cluster is
         where it was or where the fault-free evaluation takes it, ≤ 2 further passes reach the never-faulted
         fixpoint; a DAG of such reconcilers converges to the never-faulted limit in ≤ 2·n passes.
tie:     harness/extractors/WorkflowFaultConsts.py regenerates the branch table (delays, classes, `outcome=` argument of
         the condition built for a timed-out / crashed step, error handling of load / create / patch / delete);
         THE FAULT SWEEP: for every generated workflow (gen_wf: ResourceFunction steps against cluster.py, dependencies,
         forEach, sub-workflows, refSwitch) every API-call index of the fault-free pass × {raise-before, raise-after,
         404, 409, 500, hang} is injected under the virtual-time loop (wf_run.run_prepared), plus second faulty passes;
         the observed final state of every asyncio task (step tasks, forEach iteration tasks, nested workflows) must be
         in the model's `Possible` relation and the model's Result for those states must equal the implementation's.
oracle:  the property's clauses on the implementation's observations alone (see `oracle`), then fault-free passes until
         quiescent and comparison of cluster contents and Result with the never-faulted run.
NOT in the model: how asyncio delivers cancellation, real time (virtual clock only).
"""
from __future__ import annotations

import asyncio
import copy
import json
import re

import c01
import gen_wf
import wf_run
from cluster import Cluster
from common import Check, Infra, LeanDriver, VERIF, canon_unordered, rng, to_wire

KINDS = ["raise-before", "raise-after", 404, 409, 500, "hang", 403, 429, "no-response"]
EPS = 1e-6
ERR_REASONS = ("Wait", "Failure")


# --------------------------------------------------------------------------- cases

MUTABLE_MODES = ["create", "create", "patch", "patch", "recreate", "delete", "match-ok", "get-ok", "get-retry"]


def mutable_sites(case):
    """Function ids that gen_wf allows to mutate: evaluated at most once per distinct resource name in a pass (not in
    a sub-workflow that runs under a forEach; a forEach over them names the resource after the item)"""
    by_name = {w["name"]: w for w in case["defs"]}
    parent = {}
    for w in case["defs"]:
        for st in w["steps"]:
            lg = st["logic"]
            for t in ([lg["ref"]] if "ref" in lg else [t for _, t in lg["switch"]["cases"]]):
                if "wf" in t:
                    parent[t["wf"]] = (w["name"], st)

    def shared(name):
        if name not in parent:
            return False
        pw, pst = parent[name]
        return bool(pst.get("forEach")) or shared(pw)

    out = set()
    for w in case["defs"]:
        for st in w["steps"]:
            lg = st["logic"]
            for t in ([lg["ref"]] if "ref" in lg else [t for _, t in lg["switch"]["cases"]]):
                f = case["fns"].get(t.get("fn"))
                if f and f.get("rf") and not f["rf"]["pre"]:
                    if not shared(w["name"]) and not (st.get("forEach") and f["rf"]["nameKey"] is None):
                        out.add(t["fn"])
    return out


def gen_case(r):
    """ResourceFunction-heavy workflows, every step observable (condition C<label>, state), few planted errors.
    Sites that may mutate are re-drawn towards create / patch / delete-to-recreate so that POST, PATCH and DELETE
    calls are there to be hit."""
    case = gen_wf.gen_case(
        r, n=r.choice([1, 2, 3, 3, 4, 4, 5, 6, 8]), mode="obs", rf_prob=r.choice([0.7, 0.85, 1.0]),
        err=r.choice([0.0, 0.0, 0.3]), p_ok=r.choice([0.8, 0.9, 1.0]), p_foreach=r.choice([0.2, 0.35]),
        p_sub=r.choice([0.08, 0.2]))
    for fid in sorted(mutable_sites(case)):
        f = case["fns"][fid]
        if r.random() < 0.8:
            mode = r.choice(MUTABLE_MODES)
            cls, calls, _ = gen_wf.RF_MODES[mode]
            f["rf"]["mode"], f["rf"]["calls"] = mode, list(calls)
            f["c"], f["d"] = cls, (gen_wf.LOAD_RETRY if mode in ("get-retry", "delete") else r.choice([3, 11, 45]))
    return case


def fn_wire(f):
    w = {"c": f["c"], "d": f.get("d", 0)}
    if f.get("by"):
        w["by"] = f["by"]
    rf = f.get("rf")
    if rf:
        w["rf"] = {"prefix": rf["prefix"], "nameKey": rf["nameKey"], "pre": rf["pre"],
                   "readonly": rf["mode"] in gen_wf.READONLY_MODES,
                   "policy": "recreate" if rf["mode"] == "recreate" else "patch",
                   "deleteIfExists": rf["mode"] == "delete"}
    return w


# --------------------------------------------------------------------------- one pass

class TCluster(Cluster):
    """every log entry carries the asyncio task that issued the request"""

    async def _begin(self, method, key, namespace, body):
        self.tag = id(asyncio.current_task())
        return await super()._begin(method, key, namespace, body)


def run_pass(prep, objects, faults=None):
    return wf_run.run_prepared(prep, faults=faults, objects=objects, cluster_factory=TCluster)


def obj_key(name):
    return (gen_wf.API_VERSION, gen_wf.PLURAL, gen_wf.NS, name)


def situation(objects):
    """resource name -> matching / differing (absent ones are not listed)"""
    out = {}
    for key, obj in objects.items():
        if key[:3] != (gen_wf.API_VERSION, gen_wf.PLURAL, gen_wf.NS):
            continue
        want = (obj.get("spec") or {}).get("want")
        out[key[3]] = "matching" if want == 1 and type(want) is int else "differing"
    return out


def snap(objects):
    return canon_unordered({"|".join(str(x) for x in k): v for k, v in sorted(objects.items(), key=lambda kv: str(kv[0]))})


class TaskView:
    """the asyncio tasks koreo created during a pass, as a tree"""

    def __init__(self, tree):
        self.tree = tree
        self.kids = {}
        for i, t in enumerate(tree):
            self.kids.setdefault(t["parent"], []).append(i)
        self.by_tid = {t["tid"]: i for i, t in enumerate(tree)}

    def _split(self, i):
        name = self.tree[i]["name"]
        items, other = [], []
        for k in self.kids.get(i, []):
            m = re.fullmatch(re.escape(name) + r"-(\d+)", self.tree[k]["name"])
            (items if m else other).append((int(m.group(1)), k) if m else k)
        return sorted(items), other

    def tag(self, i):
        st = self.tree[i]["state"]
        return "cancelled" if st == "pending" else st

    def run_of(self, kid_indices):
        """RUN observation for the driver: {"steps": [[label, tag, [item tags], sub]]}"""
        steps = []
        for k in kid_indices:
            items, other = self._split(k)
            if items:
                sub = [self.run_of(self.kids[j]) if self.kids.get(j) else None for _, j in items]
                steps.append([self.tree[k]["name"], self.tag(k), [self.tag(j) for _, j in items],
                              sub if any(x is not None for x in sub) else None])
            else:
                steps.append([self.tree[k]["name"], self.tag(k), [], self.run_of(other) if other else None])
        return {"steps": steps}

    def top(self):
        return self.run_of(self.kids.get(None, []))

    def path_of(self, tid):
        """[(label, idx|None), …] of the Logic evaluation the task belongs to"""
        i = self.by_tid.get(tid)
        if i is None:
            return None
        chain = []
        while i is not None:
            chain.append(i)
            i = self.tree[i]["parent"]
        chain.reverse()
        path, k = [], 0
        while k < len(chain):
            name = self.tree[chain[k]]["name"]
            idx = None
            if k + 1 < len(chain):
                m = re.fullmatch(re.escape(name) + r"-(\d+)", self.tree[chain[k + 1]]["name"])
                if m:
                    idx = int(m.group(1))
                    k += 1
            path.append([name, idx])
            k += 1
        return path

    def pending(self):
        return [t["name"] for t in self.tree if t["state"] == "pending"]


def fault_site(obs):
    """where the injected fault landed: (log index, path, call number within its evaluation, method, name, kind)"""
    log = obs["cluster"].log
    tv = TaskView(obs["task_tree"])
    for e in log:
        if e["fault"] is not None:
            j = sum(1 for x in log[:e["i"]] if x["tag"] == e["tag"])
            return {"i": e["i"], "path": tv.path_of(e["tag"]), "call": j, "method": e["method"], "name": e["name"],
                    "kind": e["fault"]}
    return None


def request(case, objects, obs):
    """the driver request for one observed pass"""
    req = gen_wf.to_req(case)
    req["op"] = "pass"
    req["fns"] = [[k, fn_wire(f)] for k, f in case["fns"].items()]
    req["objs"] = [[n, s] for n, s in sorted(situation(objects).items())]
    site = fault_site(obs)
    req["fault"] = None if site is None or site["path"] is None else {
        "path": site["path"], "call": site["call"], "kind": str(site["kind"])}
    req["interrupted"] = obs["elapsed"] >= wf_run.step_timeout() - EPS
    req["obs"] = TaskView(obs["task_tree"]).top()
    return req


def model_compare(case, obs, ans):
    """fields on which the model (for the observed task states) and the implementation differ"""
    if "error" in ans:
        raise Infra(f"driver: {ans['error']}")
    bad = []
    if not ans.get("wf"):
        bad.append("workflow not well-formed in the model")
    if not ans.get("possible"):
        bad.append("trace-inclusion: the observed task states are not Possible in the model")
    if obs.get("raised") or "overall" not in obs:
        return bad
    mv = wf_run.model_view({**ans, "steps": [[l, r, rid] for l, _t, r, rid in ans["steps"]]})
    bad += wf_run.compare(obs, mv)
    # steps that issued API requests must be among those whose Logic the model lets run
    ran = {gen_wf.site_owner(case, e["name"]) for e in obs["cluster"].log}
    extra = sorted(x for x in ran if x is not None and x not in set(ans["mayRun"]))
    if extra:
        bad.append(f"API requests on behalf of steps the model does not run: {extra}")
    return bad


# --------------------------------------------------------------------------- the property on the implementation

def dependents(case, label):
    """top-level steps that (transitively) need `label`"""
    out, changed = {label}, True
    steps = gen_wf.main_steps(case)
    while changed:
        changed = False
        for s in steps:
            if s["label"] not in out and any(d in out for d in s["deps"]):
                out.add(s["label"])
                changed = True
    out.discard(label)
    return out


def fn_of_resource(case, name):
    """the Function a resource name belongs to (names are `<prefix>` or `<prefix>.<item>`)"""
    best = None
    for fid, f in case["fns"].items():
        rf = f.get("rf")
        if rf and not rf["pre"] and (name == rf["prefix"] or str(name).startswith(rf["prefix"] + ".")):
            if best is None or len(rf["prefix"]) > len(best["rf"]["prefix"]):
                best = f
    return best


def natural_404(entry, before) -> bool:
    """a 404 injected at the GET of an object that really is absent: exactly what the API answers anyway"""
    return entry["fault"] == 404 and entry["method"] == "GET" and obj_key(entry["name"]) not in before


KNOWN_CLASS = "believable-404-on-delete-if-exists"
# what the oracle says about a pass in which a deleteIfExists Function believed a 404 (containment only; anything
# else — a pass that raises, runs late, does not recover — is NOT part of the finding)
KNOWN_WHATS = (
    r"is reported 'Ready', not Retry / PermFail",
    r"/Ready although one of its API calls failed",
    r"needs the failed step \S+ but (issued API requests|is reported Ready)",
    r"overall outcome is '\w+' although step \S+ failed",
    r"is neither as before the pass nor as a fault-free pass leaves it",
)


def is_believable_site(case, site) -> bool:
    """the fault landed as a 404 on the GET of a deleteIfExists Function whose object was in the cluster"""
    if site["method"] != "GET" or site["kind"] != 404 or not site.get("present"):
        return False
    f = fn_of_resource(case, site["name"])
    return bool(f) and f["rf"]["mode"] == "delete"


def replay_sequence(case, seq):
    """(violations, fault sites) of one fault sequence, the oracle alone"""
    info = {"sites": []}
    found = sweep_case(Check("C09", "classify"), None, rng("classify"), case, "quick", "classify",
                       only=[seq] if seq and seq.get("faults") else None, info=info)
    return found, info["sites"]


def in_known_class(vcase) -> bool:
    """KNOWN FINDING `believable-404-on-delete-if-exists` (KNOWN_FINDINGS.txt).  Every complaint of the oracle is raised
    while it judges ONE faulty pass of the history (it is tagged with the history up to and including that pass).  The
    input is in the class iff there is at least one complaint and EVERY complaint is a containment complaint raised for
    a pass whose own fault is a believable 404 — kind 404 landing on the GET of a deleteIfExists Function whose object is
    in the cluster at that moment.  The other passes of the history may carry any faults; they just must not give rise
    to a complaint.  Anything else — a complaint about a pass with another fault, a pass that does not return or runs
    late, the run not converging once the faults stop — keeps it an ordinary violation."""
    try:
        case, seq = vcase.get("case"), vcase.get("faults")
        if not isinstance(case, dict) or not isinstance(seq, dict) or not (seq.get("faults") or []):
            return False
        found, sites = replay_sequence(case, seq)
        if not found or len(sites) != len(seq["faults"]):
            return False
        for tag, what in found:
            j = len(tag.get("faults") or []) - 1          # the pass this complaint is about
            if j < 0 or j >= len(sites) or sites[j] is None or not is_believable_site(case, sites[j]):
                return False
            if not any(re.search(p, what) for p in KNOWN_WHATS):
                return False
        return True
    except Infra:
        raise
    except Exception:
        return False


def oracle(case, before, obs, clean_after, limit):
    """the clauses of C09 that concern ONE faulty pass, on the implementation's observations alone.
    `before`: objects before the pass; `clean_after`: objects after a fault-free pass from `before`."""
    bad = []
    site = fault_site(obs)
    if obs.get("raised"):
        return [f"reconcile_workflow did not return normally: {obs['raised']}"]
    if "overall" not in obs:
        return ["reconcile_workflow returned nothing"]
    tv = TaskView(obs["task_tree"])
    if tv.pending():
        bad.append(f"tasks still running after the pass returned: {tv.pending()}")
    if obs["elapsed"] > limit + EPS:
        bad.append(f"the pass took {obs['elapsed']} virtual seconds, more than the step time-out {limit}")
    hang = site is not None and site["kind"] == "hang"
    if not hang and obs["elapsed"] > EPS:
        bad.append(f"the pass took {obs['elapsed']} virtual seconds although no call hangs")
    steps = gen_wf.main_steps(case)
    conds = obs["conditions"]
    if len(conds) != len(steps) + 1:
        return bad + [f"{len(conds)} conditions for {len(steps)} observable steps"]
    top = {t["name"]: t["state"] for t in obs["task_tree"] if t["parent"] is None}
    reason_of = {s["label"]: conds[i][1] for i, s in enumerate(steps)}
    calls_of = {}
    for e in obs["cluster"].log:
        calls_of.setdefault(gen_wf.site_owner(case, e["name"]), []).append(e)
    # -- truthfulness: no condition says Ready for a step that did not succeed
    for i, s in enumerate(steps):
        l = s["label"]
        typ, reason, _ = conds[i]
        if reason != "Ready":
            continue
        if top.get(l) != "done":
            bad.append(f"step {l}: condition {typ}/Ready although its task ended '{top.get(l)}'")
            continue
        mine = calls_of.get(l, [])
        if any(e["fault"] is not None and not natural_404(e, before) for e in mine):
            bad.append(f"step {l}: condition {typ}/Ready although one of its API calls failed")
        if any(reason_of.get(d) != "Ready" for d in s["deps"]):
            bad.append(f"step {l}: condition {typ}/Ready although a dependency is not Ready")
    # -- steps run only on Ok dependencies (also under faults)
    for s in steps:
        if calls_of.get(s["label"]) and any(reason_of.get(d) != "Ready" for d in s["deps"]):
            bad.append(f"step {s['label']} issued API requests although a dependency did not succeed")
    # -- containment: the affected step is an error, its dependents are not run, the overall outcome is not Ok
    log = obs["cluster"].log
    faulted = next((e for e in log if e["fault"] is not None), None)
    if faulted is not None and natural_404(faulted, before):
        site = None     # "404" to the GET of an object that is not there is the truthful answer, not a fault
    if faulted is not None and faulted["method"] == "GET" and faulted["fault"] != 404:
        later = [e["method"] for e in log[faulted["i"] + 1:] if e["tag"] == faulted["tag"]]
        if later:
            bad.append(f"the load of {faulted['name']} failed ({faulted['fault']}) but the same evaluation went on to "
                       f"{later}: a failed load must not be read as 'absent'")
    if site is not None and site["path"]:
        l = site["path"][0][0]
        if reason_of.get(l) not in ERR_REASONS:
            bad.append(f"step {l} (API call #{site['i']} {site['method']} {site['name']}: {site['kind']}) is reported "
                       f"'{reason_of.get(l)}', not Retry / PermFail")
        for d in sorted(dependents(case, l)):
            if calls_of.get(d):
                bad.append(f"step {d} needs the failed step {l} but issued API requests")
            if reason_of.get(d) == "Ready":
                bad.append(f"step {d} needs the failed step {l} but is reported Ready")
        if obs["overall"]["c"] not in ("retry", "permFail"):
            bad.append(f"overall outcome is '{obs['overall']['c']}' although step {l} failed")
    if any(r in ERR_REASONS for r in reason_of.values()) and obs["overall"]["c"] not in ("retry", "permFail"):
        bad.append(f"overall outcome is '{obs['overall']['c']}' although a step is in error")
    if conds[-1][0] != "Ready" or (conds[-1][1] == "Ready") != (obs["overall"]["c"] == "ok"):
        bad.append(f"final condition {conds[-1]} does not reflect the overall outcome '{obs['overall']['c']}'")
    # -- every faulty mutation either took effect or did not
    after = obs["cluster"].objects
    for key in set(before) | set(after) | set(clean_after):
        a = after.get(key)
        if a != before.get(key) and a != clean_after.get(key):
            bad.append(f"resource {key[3]} is neither as before the pass nor as a fault-free pass leaves it")
    return bad


class Recovery:
    """fault-free passes until quiescent, memoised per starting cluster (passes are deterministic)"""

    def __init__(self, prep, bound):
        self.prep, self.bound = prep, bound
        self.memo = {}
        self.passes = 0

    def clean_pass(self, objects):
        self.passes += 1
        return run_pass(self.prep, objects)

    def fixpoint(self, objects):
        """(objects, result view, passes used) once a fault-free pass changes nothing any more — the Result of a
        pass is a function of the cluster it starts from, so that pass's Result is the final one — or (None, why, n)"""
        key = snap(objects)
        if key in self.memo:
            return self.memo[key]
        trail = [key]
        cur = objects
        out = None
        for n in range(1, self.bound + 1):
            o = self.clean_pass(cur)
            if o.get("raised") or "overall" not in o:
                out = (None, f"fault-free pass raised {o.get('raised')}", n)
                break
            nxt = o["cluster"].objects
            k = snap(nxt)
            if k == trail[-1]:
                out = (nxt, json.dumps(wf_run.result_view(o), sort_keys=True, default=str), n)
                break
            if k in self.memo:
                m = self.memo[k]
                out = (m[0], m[1], n + m[2])
                break
            trail.append(k)
            cur = nxt
        if out is None:
            out = (None, f"not quiescent after {self.bound} fault-free passes", self.bound)
        for j, k in enumerate(trail):
            self.memo.setdefault(k, (out[0], out[1], max(out[2] - j, 1)) if out[0] is not None else out)
        return out

    def trajectory(self, objects):
        """the never-faulted run: [(objects before pass k, observation of pass k)] up to and including the pass that
        changes nothing"""
        out, cur = [], objects
        for _ in range(self.bound):
            o = self.clean_pass(cur)
            out.append((cur, o))
            if o.get("raised") or "overall" not in o:
                return out
            nxt = o["cluster"].objects
            if snap(nxt) == snap(cur):
                return out
            cur = nxt
        return out


def model_bound(case):
    """the pass bound of `Props/C09.lean` (`pass_bound_explicit`, `step_subworkflow`) for this workflow:
    Σ over the steps of (k + 1); k = 0 for a step that owns no resource, 1 for a ResourceFunction (2 for
    delete-to-recreate), the maximum over the cases of a refSwitch, the same for any number of forEach items, and
    the sub-workflow's own bound for a sub-workflow.  Also returns the nesting depth."""
    by_name = {w["name"]: w for w in case["defs"]}

    def k_target(t):
        if "wf" in t:
            b, d = wf_bound(t["wf"])
            return b, d + 1
        rf = case["fns"][t["fn"]].get("rf")
        if not rf or rf["pre"]:
            return 0, 0
        return (2 if rf["mode"] == "recreate" else 1), 0

    def wf_bound(name):
        total, depth = 0, 0
        for st in by_name[name]["steps"]:
            lg = st["logic"]
            ks = [k_target(t) for t in ([lg["ref"]] if "ref" in lg else [t for _, t in lg["switch"]["cases"]])]
            total += max(k for k, _ in ks) + 1
            depth = max([depth] + [d for _, d in ks])
        return total, depth

    return wf_bound(case["main"])


def size(case):
    return sum(len(w["steps"]) for w in case["defs"])


def ask_driver(drv, reqs):
    """the compiled driver can vanish for a moment while somebody else's lake run relinks it: rebuild once and ask again;
    a second failure is infrastructure trouble (exit 2), never a verdict"""
    try:
        return drv.ask(reqs)
    except Infra:
        import common
        common.lean_build(["driver_c09"])
        return drv.ask(reqs)


def sweep_case(ck, drv, r, case, tier, tag, only=None, info=None):
    """the fault sweep for one workflow.  A fault sequence is {"start": k, "faults": [[i, kind], …]}: k fault-free
    passes, then one faulty pass per entry (API-call index i of that pass fails with `kind`), then fault-free passes.
    Returns the violations found as [(sequence, what)]."""
    prep = wf_run.prepare_case(case)
    if prep.problems:
        raise Infra(f"generated definitions rejected by prepare: {prep.problems[:2]}")
    limit = wf_run.step_timeout()
    rec = Recovery(prep, bound=2 * size(case) + 8)
    traj = rec.trajectory(prep.objects)
    last = traj[-1][1]
    if last.get("raised") or "overall" not in last:
        return [({"start": len(traj) - 1, "faults": []}, f"fault-free pass raised {last.get('raised')}")]
    if snap(last["cluster"].objects) != snap(traj[-1][0]):
        return [({"start": 0, "faults": []}, f"the never-faulted run is not quiescent after {len(traj)} passes")]
    ref = (traj[-1][0], json.dumps(wf_run.result_view(last), sort_keys=True, default=str))
    ck.count(f"src:{tag}")
    ck.count("workflows")
    ck.count(f"never-faulted-passes:{len(traj)}")
    bound, depth = model_bound(case)
    worst = [len(traj) - 1]          # passes after which the cluster no longer changes
    if only is None:
        points = [(k, i, kind) for k, (_, b) in enumerate(traj) for i in range(len(b["log"])) for kind in KINDS]
        cap = 90 if tier == "quick" else 120
        ck.count("fault-points-available", len(points))
        if len(points) > cap:
            points = r.sample(points, cap)
            ck.count("workflows-sampled")
        else:
            ck.count("workflows-all-fault-points")
        seqs = [{"start": k, "faults": [[i, kind]]} for k, i, kind in points]
        second = set(r.sample(range(len(seqs)), min(3 if tier == "quick" else 8, len(seqs))))
    else:
        seqs, second = list(only), set()
    violations, reqs, pending = [], [], []
    landed = [None]      # where the most recent fault landed

    def faulty(objects, clean_after, i, kind, seq):
        obs = run_pass(prep, objects, faults={i: kind})
        ck.evaluated()
        site = fault_site(obs)
        landed[0] = None if site is None else {**site, "present": obj_key(site["name"]) in objects}
        if info is not None:
            info["sites"].append(landed[0])
        if site is not None:
            ck.count(f"fault:{site['method']}:{kind}")
            ck.nontriv(f"{site['method']}:{kind}:{'nested' if site['path'] and len(site['path']) > 1 else 'top'}:"
                       f"{'item' if site['path'] and site['path'][-1][1] is not None else 'step'}")
        else:
            ck.count("fault:not-reached")
        for what in oracle(case, objects, obs, clean_after, limit):
            violations.append((seq, what))
            if info is not None:    # the classifier's verdict on this complaint, from what the sweep already knows
                info.setdefault("hints", {})[json.dumps(seq, sort_keys=True) + "|" + what] = bool(
                    landed[0] is not None and is_believable_site(case, landed[0])
                    and any(re.search(p, what) for p in KNOWN_WHATS))
        if not obs.get("raised") and "overall" in obs:
            for t in obs["task_tree"]:
                ck.count(f"task:{t['state']}")
            reqs.append(request(case, objects, obs))
            pending.append((seq, obs))
            ck.count("overall:" + obs["overall"]["c"])
            if obs["elapsed"] >= limit - EPS:
                ck.count("passes-timed-out")
        # once the faults stop: same cluster contents and Result as the run that never saw a fault
        got = rec.fixpoint(obs["cluster"].objects)
        if got[0] is None:
            violations.append((seq, f"after the faults stop: {got[1]}"))
        else:
            d = ck.cov["distribution"]
            d["recovery-passes-max"] = max(d.get("recovery-passes-max", 0), got[2])
            worst.append(got[2] - 1)
            if snap(got[0]) != snap(ref[0]):
                violations.append((seq, "after the faults stop the cluster converges to contents different from the "
                                        "never-faulted run's"))
            elif got[1] != ref[1]:
                violations.append((seq, "after the faults stop the Result converges to one different from the "
                                        "never-faulted run's"))
        return obs

    for n, seq in enumerate(seqs):
        k = min(seq.get("start", 0), len(traj) - 1)
        objects = traj[k][0]
        clean_after = traj[k][1]["cluster"].objects
        obs = None
        for j, (i, kind) in enumerate(seq["faults"]):
            if j > 0:
                clean_after = rec.clean_pass(objects)["cluster"].objects
            obs = faulty(objects, clean_after, i, kind, {"start": k, "faults": seq["faults"][:j + 1]})
            objects = obs["cluster"].objects
        if (only is None and obs is not None and not obs.get("raised") and len(seq["faults"]) == 1
                and landed[0] is not None and is_believable_site(case, landed[0])):
            # the recorded finding, twice in a row: the object is still there, the next pass is told 404 again
            probe = rec.clean_pass(objects)
            again = next((e["i"] for e in probe["cluster"].log
                          if e["method"] == "GET" and e["name"] == landed[0]["name"]), None)
            if again is not None:
                faulty(objects, probe["cluster"].objects, again, 404,
                       {"start": k, "faults": seq["faults"] + [[again, 404]]})
                ck.count("believable-404-twice")
        elif (only is None and obs is not None and not obs.get("raised") and len(seq["faults"]) == 1
                and landed[0] is not None):
            # an ordinary (contained) fault first, the recorded finding in the NEXT pass: always when the first fault hit
            # a deleteIfExists Function (e.g. its DELETE failed, the object is still there), else for the sampled ones
            targets = [key[3] for key in sorted(objects, key=str)
                       if (fn_of_resource(case, key[3]) or {"rf": {"mode": None}})["rf"]["mode"] == "delete"]
            mine = landed[0]["name"] in targets
            if targets and (mine or n in second):
                name = landed[0]["name"] if mine else targets[0]
                probe = rec.clean_pass(objects)
                idx = next((e["i"] for e in probe["cluster"].log if e["method"] == "GET" and e["name"] == name), None)
                if idx is not None:
                    faulty(objects, probe["cluster"].objects, idx, 404,
                           {"start": k, "faults": seq["faults"] + [[idx, 404]]})
                    ck.count("contained-fault-then-believable-404")
        if n in second and obs is not None and not obs.get("raised"):
            probe = rec.clean_pass(objects)
            if probe["log"]:
                i2, k2 = r.randrange(len(probe["log"])), r.choice(KINDS)
                faulty(objects, probe["cluster"].objects, i2, k2,
                       {"start": k, "faults": seq["faults"] + [[i2, k2]]})
                ck.count("two-pass-prefixes")
    # correspondence: every observed pass through the model (`drv is None`: the oracle alone, e.g. while shrinking)
    for k, (objects, b) in enumerate(traj):
        reqs.append(request(case, objects, b))
        pending.append(({"start": k, "faults": []}, b))
    for (seq, obs), ans in zip(pending, ask_driver(drv, reqs) if drv is not None else []):
        diff = model_compare(case, obs, ans)
        ck.count("traces_validated_against_impl")
        if diff:
            ck.disagree({"case": c01.compact(case), "faults": seq},
                        {k: ans.get(k) for k in ("possible", "overall", "conditions", "mayRun", "affected")},
                        {k: obs.get(k) for k in ("overall", "conditions", "elapsed")}
                        | {"tasks": TaskView(obs["task_tree"]).top()}, "model-vs-implementation:" + "; ".join(diff))
            break
    ck.count("fault-free-passes", rec.passes)
    # the model's pass bound must not be contradicted: the cluster is final after at most `bound` fault-free passes
    pb = ck.cov.setdefault("pass_bound", {})
    key = f"size={size(case)},depth={depth}"
    e = pb.setdefault(key, {"workflows": 0, "max_passes_to_final_cluster": 0, "model_bound_min": bound,
                            "model_bound_max": bound, "min_slack": bound - max(worst)})
    e["workflows"] += 1
    e["max_passes_to_final_cluster"] = max(e["max_passes_to_final_cluster"], max(worst))
    e["model_bound_min"], e["model_bound_max"] = min(e["model_bound_min"], bound), max(e["model_bound_max"], bound)
    e["min_slack"] = min(e["min_slack"], bound - max(worst))
    if max(worst) > bound and drv is not None:
        ck.disagree({"case": c01.compact(case)}, {"pass_bound": bound, "depth": depth},
                    {"passes_to_final_cluster": max(worst)},
                    "pass-bound: the cluster still changed after the model's bound of fault-free passes")
    if len(ck.cov["samples"]) < 3:
        ck.sample({"case": c01.compact(case), "calls_per_never_faulted_pass": [b["log"] for _, b in traj],
                   "fault_sequences": len(seqs)}, limit=3)
    return violations


# --------------------------------------------------------------------------- kind lookup (plural omitted)

_LOOKUP_RUNS = [0]

# (name, faults of the consecutive faulty passes).  One faulty pass = (fault of the first kind lookup of the pass,
# virtual latency of that lookup, {API-call index: fault}).  "sibling-crash": the lookup is still in flight when
# another step's PATCH raises and the task group aborts; "slow": the lookup answers, but after the step time-out.
def _lookup_scenarios():
    single = {"hang": ("hang", 0.0, {}), "raise": ("raise", 0.0, {}), "unknown-kind": ("unknown-kind", 0.0, {}),
              "slow": (None, 12.0, {})}
    # st2's calls are GET (#0) and PATCH (#1) while st0 is still waiting for its lookup (latency 1 s)
    crash = {f"sibling-crash-{k}": (None, 1.0, {1: k}) for k in ("raise-before", "raise-after", 404, 409, 500)}
    out = [("none", [])]
    out += [(n, [p]) for n, p in {**single, **crash}.items()]
    # two consecutive faulty passes (a sibling can only crash again if its PATCH did not take effect before)
    for a in ("hang", "raise", "slow", "sibling-crash-raise-before", "sibling-crash-500"):
        for b in ("hang", "raise", "sibling-crash-409"):
            if b.startswith("sibling") and not a.startswith("sibling"):
                continue
            out.append((f"{a}+{b}", [{**single, **crash}[a], {**single, **crash}[b]]))
    return out


LOOKUP_SCENARIOS = _lookup_scenarios()


class LCluster(TCluster):
    """the kind-to-plural discovery (`lookup_kind`) as a fault point: the first lookup of a pass may raise, never
    answer, not know the kind, or answer late"""

    lookup_fault = None
    lookup_latency = 0.0

    async def lookup_kind(self, kind):
        first = not self.lookups
        self.lookups.append(kind)
        fault = self.lookup_fault if first else None
        entry = {"i": None, "method": "LOOKUP", "version": None, "plural": None, "namespace_arg": None,
                 "name": kind, "body": None, "fault": fault, "tag": id(asyncio.current_task()), "applied": False}
        self.log.append(entry)
        if first and self.lookup_latency:
            await asyncio.sleep(self.lookup_latency)
        if fault == "hang":
            await asyncio.Event().wait()
        if fault == "raise":
            raise RuntimeError("injected lookup failure")
        if fault == "unknown-kind":
            raise ValueError(f"Kind {kind} not found.")
        entry["applied"] = True
        return (None, kind.split(".")[0].lower() + "s", True)

    async_lookup_kind = lookup_kind


def _norm(text):
    """kind names / plurals differ between scenarios (kr8s keeps a class per kind name for the whole process)"""
    return re.sub(r"adget\d+", "adget", text)


def _lookup_world(two_cold):
    """a freshly prepared workflow on a fresh kind, cold plural cache:
         st0  ResourceFunction WITHOUT apiConfig.plural (create)         st1  needs st0
         st2  ResourceFunction with plural, patches an existing object   st3  (two_cold) a second Function on the cold kind
    returns (workflow, initial objects, kind, plural)"""
    import koreo_util as ku
    from koreo.cache import get_resource_from_cache
    from koreo.workflow.structure import Workflow

    ku.reset()      # includes kind_lookup._reset(): done ONCE per scenario, never between its passes
    _LOOKUP_RUNS[0] += 1
    kname = f"Gadget{_LOOKUP_RUNS[0]}"
    plural = kname.lower() + "s"

    def cold(name):
        return {"apiConfig": {"apiVersion": gen_wf.API_VERSION, "kind": kname, "name": name, "namespace": gen_wf.NS},
                "resource": {"spec": {"want": 1}}, "create": {"delay": 7}, "return": {"site": name}}

    async def offer():
        await ku.offer_resource_function("lk.cold", cold("lk"))
        await ku.offer_resource_function("lk.cold2", cold("lk2"))
        await ku.offer_value_function("lk.after", {"return": {"got": "=inputs"}})
        await ku.offer_resource_function("lk.warm", {
            "apiConfig": {"apiVersion": gen_wf.API_VERSION, "kind": gen_wf.KIND, "plural": gen_wf.PLURAL,
                          "name": "lkw", "namespace": gen_wf.NS},
            "resource": {"spec": {"want": 1}}, "update": {"patch": {"delay": 5}}, "return": {"site": "lkw"}})
        steps = [
            {"label": "st0", "ref": {"kind": "ResourceFunction", "name": "lk.cold"},
             "condition": {"type": "Cst0", "name": "st0"}},
            {"label": "st1", "ref": {"kind": "ValueFunction", "name": "lk.after"}, "inputs": {"u": "=steps.st0"},
             "condition": {"type": "Cst1", "name": "st1"}},
            {"label": "st2", "ref": {"kind": "ResourceFunction", "name": "lk.warm"},
             "condition": {"type": "Cst2", "name": "st2"}}]
        if two_cold:
            steps.append({"label": "st3", "ref": {"kind": "ResourceFunction", "name": "lk.cold2"},
                          "condition": {"type": "Cst3", "name": "st3"}})
        await ku.offer_workflow("lk", {"steps": steps})

    ku.run(offer())
    wf = get_resource_from_cache(resource_class=Workflow, cache_key="lk")
    objects = {obj_key("lkw"): {"apiVersion": gen_wf.API_VERSION, "kind": gen_wf.KIND,
                                "metadata": {"name": "lkw", "namespace": gen_wf.NS,
                                             "ownerReferences": [dict(ku.OWNER_REF)]}, "spec": {"want": 2}}}
    return wf, objects, kname, plural


def _lookup_pass(wf, objects, lookup_fault=None, latency=0.0, api_faults=None):
    import celpy
    import koreo_util as ku
    from koreo.workflow.reconcile import reconcile_workflow
    from vloop import run_virtual

    cl = LCluster(objects=copy.deepcopy(objects), faults=api_faults)
    cl.lookup_fault, cl.lookup_latency = lookup_fault, latency
    raised, res, elapsed = None, None, 0.0
    try:
        res, elapsed, _ = run_virtual(reconcile_workflow(
            api=cl, workflow_key="lk", owner=(gen_wf.NS, dict(ku.OWNER_REF)), trigger=celpy.json_to_cel({}), workflow=wf))
    except (KeyboardInterrupt, SystemExit):
        raise
    except BaseException as e:
        raised = repr(e)
    obs = {"raised": raised, "elapsed": elapsed, "cluster": cl, "methods": [e["method"] for e in cl.log]}
    if res is not None:
        obs["conditions"] = [[c.get("type"), c.get("reason")] for c in res.conditions]
        obs["overall"] = wf_run.outcome_abs(res.result)
        obs["view"] = _norm(json.dumps({"overall": obs["overall"], "conditions": obs["conditions"],
                                        "state": ku.plain(res.state), "rids": ku.plain(res.resource_ids)},
                                       sort_keys=True, default=str))
    return obs


def _lookup_settle(wf, objects, label, bad, limit):
    """fault-free passes (module state untouched) until one changes nothing; (objects, view) or None"""
    cur = objects
    for n in range(8):
        o = _lookup_pass(wf, cur)
        if o["raised"] or "view" not in o:
            bad.append(f"{label}: fault-free pass {n + 1} did not return normally: {o['raised']}")
            return None
        if o["elapsed"] > EPS and not any("virtual seconds although" in b for b in bad):
            bad.append(f"{label}: fault-free pass {n + 1} took {o['elapsed']} virtual seconds although every call answers "
                       f"at once (conditions {o['conditions']})")
        nxt = o["cluster"].objects
        if snap(nxt) == snap(cur):
            return _norm(snap(nxt)), o["view"], n + 1
        cur = nxt
    bad.append(f"{label}: not quiescent after 8 fault-free passes")
    return None


def lookup_scenarios(ck, only=None):
    """`apiConfig.plural` omitted: the first evaluation asks the API for the kind's plural (`kind_lookup.py`).  That
    request raising, never answering, answering late, not knowing the kind, or being cut off because a sibling step
    crashed must be contained like any other fault AND must not poison later passes: after the faulty pass(es),
    fault-free passes — with kind_lookup's module state left exactly as the faulty pass left it — must converge to the
    cluster contents and Result of a run that never saw a fault.  Returns [(scenario, what)]."""
    limit = wf_run.step_timeout()
    out = []
    for two_cold in (False, True):
        ref = None
        for name, passes in LOOKUP_SCENARIOS:
            label = f"kind lookup {name}{' (two Functions on the cold kind)' if two_cold else ''}"
            if only is not None and name not in ("none", only):
                continue
            bad = []
            wf, objects, kname, plural = _lookup_world(two_cold)
            cur = objects
            for j, (lf, lat, api_faults) in enumerate(passes):
                o = _lookup_pass(wf, cur, lf, lat, api_faults)
                ck.evaluated()
                ck.count(f"lookup:{name}")
                where = f"{label}, faulty pass {j + 1}"
                if o["raised"] or "conditions" not in o:
                    bad.append(f"{where}: reconcile_workflow did not return normally: {o['raised']}")
                    break
                conds, cls = o["conditions"], o["overall"]["c"]
                if o["elapsed"] > limit + EPS:
                    bad.append(f"{where}: the pass took {o['elapsed']} virtual seconds")
                hit = any(e["method"] == "LOOKUP" and (e["fault"] or not e["applied"]) for e in o["cluster"].log)
                if hit:
                    if conds[0][1] not in ERR_REASONS:
                        bad.append(f"{where}: st0 is reported {conds[0]}, not Retry / PermFail")
                    if conds[1][1] == "Ready":
                        bad.append(f"{where}: st1 needs the failed st0 but is reported Ready")
                    if any(e["method"] != "LOOKUP" and e["name"] == "lk" for e in o["cluster"].log):
                        bad.append(f"{where}: API requests for st0's resource although its kind lookup failed")
                if (hit or api_faults) and cls not in ("retry", "permFail"):
                    bad.append(f"{where}: overall outcome is '{cls}'")
                if conds[-1] == ["Ready", "Ready"] and cls != "ok":
                    bad.append(f"{where}: final condition Ready/Ready with overall '{cls}'")
                for c in conds[:-1]:
                    if c[0] == "Ready" and c[1] == "Ready":
                        bad.append(f"{where}: a failed step got the condition Ready/Ready")
                cur = o["cluster"].objects
            if not bad:
                slow = []
                got = _lookup_settle(wf, cur, label, slow, limit)
                if name == "none":
                    ref = got
                    if got is not None and '"c": "ok"' not in got[1]:
                        bad.append(f"{label}: the never-faulted run does not end Ok: {got[1][:200]}")
                elif got is not None and ref is not None:
                    d = ck.cov["distribution"]
                    d["lookup-recovery-passes-max"] = max(d.get("lookup-recovery-passes-max", 0), got[2])
                    if got[0] != ref[0]:
                        bad.append(f"{label}: after the faults stop the cluster converges to contents different from "
                                   f"the never-faulted run's")
                    elif got[1] != ref[1]:
                        bad.append(f"{label}: after the faults stop the Result converges to one different from the "
                                   f"never-faulted run's: {got[1][:300]}")
                bad += slow      # the convergence verdict first, the slow fault-free pass after it
            out += [(name, w) for w in bad]
    import koreo_util as ku
    ku.reset()
    return out


def reduce_history(case, seq):
    """minimise a history of the known class: keep only what is needed to reach the complaint.  First a single
    believable 404 on the same GET, a few fault-free passes into the never-faulted run; failing that, drop the faulty
    passes that no complaint is about, one at a time, as long as the input stays in the class.  Returns a history in
    the class (possibly the one given)."""
    try:
        if len(seq.get("faults") or []) < 2:
            return seq
        found, sites = replay_sequence(case, seq)
        about = sorted({len(tag["faults"]) - 1 for tag, _ in found})
        if len(about) == 1 and sites[about[0]] is not None:
            prep = wf_run.prepare_case(case)
            traj = Recovery(prep, bound=2 * size(case) + 8).trajectory(prep.objects)
            for st in range(seq.get("start", 0), min(len(traj), seq.get("start", 0) + len(seq["faults"]) + 1)):
                idx = next((e["i"] for e in traj[st][1]["cluster"].log
                            if e["method"] == "GET" and e["name"] == sites[about[0]]["name"]), None)
                cand = {"start": st, "faults": [[idx, 404]]}
                if idx is not None and in_known_class({"case": case, "faults": cand}):
                    return cand
        cur = seq
        changed = True
        while changed and len(cur["faults"]) > 1:
            changed = False
            for j in range(len(cur["faults"])):
                cand = {"start": cur.get("start", 0), "faults": cur["faults"][:j] + cur["faults"][j + 1:]}
                if in_known_class({"case": case, "faults": cand}):
                    cur, changed = cand, True
                    break
        return cur
    except Infra:
        raise
    except Exception:
        return seq


def report(ck, case, found, corpus=None, hints=None):
    """record what a workflow's sweep found: one record per failing fault sequence, shrunk first (the oracle alone
    decides while shrinking).  A sequence of the KNOWN class is shrunk INSIDE the class and goes through the
    classifier; any other one is shrunk OUTSIDE it (so that minimising can never turn a violation into the finding)."""
    seqs, seen, whats = [], set(), {}
    for seq, what in found:
        k = json.dumps(seq, sort_keys=True)
        whats.setdefault(k, []).append(what)
        if k not in seen:
            seen.add(k)
            seqs.append((seq, what))
    known_done = KNOWN_CLASS in ck.known_hits
    for seq, what in seqs:
        if len(ck.violations) >= 3:
            break
        key = json.dumps(seq, sort_keys=True)
        if known_done and corpus is None and hints is not None and all(
                hints.get(key + "|" + w) for w in whats[key]):
            # a further occurrence of the finding already recorded in this run (same verdict the classifier reaches,
            # taken from what the sweep saw; the first occurrence went through the classifier itself)
            ck.count("known-finding-occurrences")
            continue
        known = in_known_class({"case": case, "faults": seq})
        if known and known_done and corpus is None:
            ck.count("known-finding-occurrences")
            continue
        if known and corpus is None and len(seq["faults"]) > 1:
            shorter = reduce_history(case, seq)
            if shorter != seq:
                seq = shorter
                ck.count("known-histories-minimised")

        def fails(c):
            try:
                vc = {"case": c, "faults": seq}
                if known:
                    return in_known_class(vc)
                return bool(replay_sequence(c, seq)[0]) and not in_known_class(vc)
            except Exception:
                return False

        small = c01.shrink(case, fails) if (len(ck.violations) < 2 and corpus is None) else case
        if small is not case:
            again = replay_sequence(small, seq)[0]
            if again:
                what = again[0][1]
        rec = {"case": c01.compact(small), "faults": seq}
        if corpus:
            rec["corpus"] = corpus
        ck.violate(rec, what)
        if known:
            known_done = True
            ck.count("known-finding-occurrences")


def run(tier: str) -> int:
    ck = Check("C09", tier)
    ck.trusted = [
        "Lean 4.33.0 kernel; axioms of every theorem ⊆ {propext, Classical.choice, Quot.sound}",
        "model lean/Koreo/WorkflowFaults.lean hand-transcribed from src/koreo/workflow/reconcile.py (post-loops of "
        "_reconcile_steps / _for_each_reconciler) and src/koreo/resource_function/reconcile/__init__.py (error handling of "
        "load / create / patch / delete), on top of lean/Koreo/Workflow.lean (C01/C02); delays, classes, the condition "
        "argument and the error handlers are regenerated by harness/extractors/WorkflowFaultConsts.py",
        "asyncio (TaskGroup abort, time-out, cancellation delivery) is modelled as a RELATION on final task states "
        "(`Possible`); that the real loop's outcomes are in it is checked for every pass of the sweep (trace "
        "inclusion), not proved",
        "harness/vloop.py virtual-time loop (time only under the virtual clock), harness/cluster.py in-memory API with "
        "fault injection, harness/wf_run.py, gen_wf.py, c09.py",
        "the comparator appears in the recovery theorems as an oracle with C04's two results as hypotheses",
    ]
    ck.assumptions = [
        "one fault per pass, at an API call (GET / POST / PATCH / DELETE) issued by a ResourceFunction; up to two "
        "consecutive faulty passes; afterwards the API is fault-free and no other client writes",
        "a hang is a call that never answers; every other call answers at once (virtual clock)",
        "each reference site owns its resource names (gen_wf); update policy patch or recreate",
        "expressions range over the generator's shapes; workflows are those prepare_workflow accepts",
    ]
    wf_run.check_constants()
    ck.classifiers[KNOWN_CLASS] = in_known_class
    ck.prove(extractors=["WorkflowFaultConsts"])
    drv = LeanDriver("C09")
    r = rng("c09")
    try:
        for f in sorted((VERIF / "corpus" / "C09").glob("*.json")):
            data = json.load(open(f))
            case = data["case"]
            only = [{"start": data.get("start", 0), "faults": data["faults"]}] if data.get("faults") else None
            found = sweep_case(ck, drv, r, case, tier, "corpus", only=only)
            ck.count("corpus")
            if found:
                report(ck, case, found, corpus=f.name)
        for kind, what in lookup_scenarios(ck)[:4]:
            ck.violate({"scenario": "kind-lookup", "fault": kind}, what)
        n = 40 if tier == "quick" else 500
        for _ in range(n):
            for attempt in range(6):
                case = gen_case(r)
                prep = wf_run.prepare_case(case)
                if prep.problems:
                    raise Infra(f"generated definitions rejected by prepare: {prep.problems[:2]}")
                if run_pass(prep, prep.objects)["log"]:      # at least one API call to hit
                    break
            else:
                continue
            info = {"sites": [], "hints": {}}
            found = sweep_case(ck, drv, r, case, tier, "random", info=info)
            if found:
                report(ck, case, found, hints=info["hints"])
                if len(ck.violations) >= 3:
                    break
    except Infra as e:
        if "driver" not in str(e) or ck.build_ok:
            raise               # the build succeeded, so a missing / crashing driver is infrastructure trouble: exit 2
        ck.notes.append(f"model driver unavailable: {e}")
    d = ck.cov["distribution"]
    ck.cov["traces_validated_against_impl"] = d.get("traces_validated_against_impl", 0)
    ck.cov["fault_sweep"] = {
        "workflows": d.get("workflows", 0),
        "faulty_passes": ck.cov["evaluations"],
        "kinds_x_methods_hit": {k[6:]: v for k, v in sorted(d.items()) if k.startswith("fault:")},
        "two_pass_prefixes": d.get("two-pass-prefixes", 0),
        "fault_free_passes": d.get("fault-free-passes", 0),
        "task_states": {k[5:]: v for k, v in d.items() if k.startswith("task:")},
    }
    if tier == "thorough":
        ck.leanchecker()

    def widen(ck):
        rr = rng("c09-widen")
        for _ in range(40):
            c = gen_case(rr)
            found = sweep_case(ck, None, rr, c, "quick", "widen")
            if found:
                report(ck, c, found)
                return

    return ck.finish(
        widen=widen,
        rule="gen_wf workflows (1-8 top-level steps, ResourceFunction-heavy, dependencies, forEach, sub-workflows, "
             "refSwitch) × every API-call index of the fault-free pass × 6 fault kinds (+ second faulty passes) on the "
             "virtual-time loop; non-trivial = distinct (HTTP method hit, fault kind, top-level/nested, step/forEach "
             "iteration) combinations actually reached",
    )


def replay(path: str) -> int:
    data = json.load(open(path))
    rc = 0
    items = data.get("violations") or [{"case": d.get("case")} for d in data.get("no_longer_checks", []) if d.get("case")]
    if not items and data.get("case"):
        items = [{"case": {"case": data["case"],
                           "faults": {"start": data.get("start", 0), "faults": data.get("faults") or []}}}]
    for v in items:
        if v["case"].get("scenario") == "kind-lookup":
            found = lookup_scenarios(Check("C09", "replay"), only=v["case"].get("fault"))
            print("replay: kind-lookup", v["case"].get("fault"), "::", found[:2])
            rc = rc or (1 if found else 0)
            continue
        case, seq = v["case"]["case"], v["case"].get("faults")
        ck = Check("C09", "replay")
        found = sweep_case(ck, None, rng("replay"), case, "quick", "replay", only=[seq] if seq and seq.get("faults") else None)
        print("replay:", json.dumps({"steps": [s["label"] for s in gen_wf.main_steps(case)], "faults": seq}),
              "::", found[:2])
        rc = rc or (1 if found else 0)
    return rc
