"""C19 — FunctionTest verdicts are sound: a case passes iff its assertion really holds.

proof:   lean/Koreo/Props/C19.lean over lean/Koreo/ExactCompare.lean + lean/Koreo/FunctionTest.lean
         (`exact_match_iff`, the four `*_pass_iff`, `truth_passes`, `single_deviation_fails`), + Gen/FtConsts.lean
tie:     (a) constants regenerated from constants.py / run.py,
         (b) unit differential: the runner's comparator `_validate_match`, `_obj_to_key`,
             `_strip_last_applied_annotation` vs the compiled Lean model on truth + one perturbation pairs,
         (c) end to end: generated FunctionTests over real Value/ResourceFunctions through
             prepare_function_test / run_function_test; per case  model verdict == TestCaseResult.test_pass
oracle:  independent of the model — comparator verdict == `eqmod_ref` (reference written from the property);
         end to end: every assertion derived from what the Function really did passes, every one-step
         perturbation of it fails, and the runner never raises.
"""
from __future__ import annotations

import copy
import hashlib
import json
import random
from pathlib import Path

import common
from common import Check, Infra, LeanDriver, rng, to_wire
import gen_ft as g
import koreo_util as ku

CORPUS = common.VERIF / "corpus" / "C19"


# --------------------------------------------------------------------------- comparator (unit)

def impl_match(ftrun, t, a):
    try:
        return bool(ftrun._validate_match(copy.deepcopy(t), copy.deepcopy(a)).match)
    except Exception as e:  # the runner would crash instead of failing the case
        return f"raised:{type(e).__name__}"


def match_oracle(ftrun, t, a):
    """None if the comparator's verdict is the true one, else a description"""
    want = g.eqmod_ref(t, a)
    got = impl_match(ftrun, t, a)
    if got is want:
        return None
    if isinstance(got, str):
        return f"comparator {got} instead of answering {want}"
    return f"comparator says {got} but expected/actual are {'equal' if want else 'different'} modulo directives"


def shrink_pair(t, a, fails):
    """greedy structural shrink of an (expected, actual) pair that keeps `fails(t, a)` true"""
    def candidates(v):
        if isinstance(v, dict):
            for k in list(v):
                c = dict(v)
                del c[k]
                yield c
            for k, x in v.items():
                for y in candidates(x):
                    c = dict(v)
                    c[k] = y
                    yield c
        elif isinstance(v, list):
            for i in range(len(v)):
                yield v[:i] + v[i + 1:]
            for i, x in enumerate(v):
                for y in candidates(x):
                    yield v[:i] + [y] + v[i + 1:]

    changed = True
    budget = 400
    while changed and budget > 0:
        changed = False
        for which in ("both", "t", "a"):
            if which == "both":
                pairs = ((ct, ca) for ct in candidates(t) for ca in [None])
                # remove the same top-level key on both sides
                if isinstance(t, dict) and isinstance(a, dict):
                    pairs = (({k: v for k, v in t.items() if k != key}, {k: v for k, v in a.items() if k != key})
                             for key in list(t) if key in a and key not in g.DIRECTIVES)
                else:
                    pairs = iter(())
            elif which == "t":
                pairs = ((ct, a) for ct in candidates(t))
            else:
                pairs = ((t, ca) for ca in candidates(a))
            for ct, ca in pairs:
                budget -= 1
                if budget <= 0:
                    break
                try:
                    if g.well_formed(ct) and fails(ct, ca):
                        t, a, changed = ct, ca, True
                        break
                except Exception:
                    pass
            if changed:
                break
    return t, a


CHUNK = 20000


def run_unit(ck: Check, drv: LeanDriver, ftrun, r, n: int):
    if not hasattr(ftrun, "_validate_match"):
        ck.notes.append("run._validate_match not found: comparator unit differential skipped (end to end only)")
        return
    done = 0
    while done < n:
        step = min(CHUNK, n - done)
        _run_unit_chunk(ck, drv, ftrun, r, step)
        done += step
        if len(ck.violations) > 2000 or len(ck.disagreements) > 2000:
            break


def _run_unit_chunk(ck: Check, drv: LeanDriver, ftrun, r, n: int):
    cases = []
    for _ in range(n):
        kind, t, a = g.gen_pair(r)
        if not g.well_formed(t):
            ck.count("unit:skipped-not-well-formed")
            continue
        cases.append((kind, t, a))
    reqs = [{"op": "match", "t": to_wire(t), "a": to_wire(a)} for _, t, a in cases]
    try:
        answers = drv.ask(reqs)
    except Infra:
        raise
    for (kind, t, a), ans in zip(cases, answers):
        ck.evaluated()
        want = g.eqmod_ref(t, a)
        if kind in ("truth", "set-list-reorder", "map-list-reorder") and not want:
            # a set-directed list holding lists/maps equals nothing, not even itself
            kind = "self-unequal-expectation"
        ck.count(f"unit:{kind}")
        ck.count(f"unit:truth={'equal' if want else 'different'}")
        if kind != "truth":
            ck.nontriv(hashlib.sha1(json.dumps(["m", to_wire(t), to_wire(a)]).encode()).hexdigest()[:16])
        ck.sample({"type": "match", "kind": kind, "t": t, "a": a, "equal": want})
        bad = match_oracle(ftrun, t, a)
        if bad:
            st, sa = shrink_pair(t, a, lambda x, y: match_oracle(ftrun, x, y) is not None)
            ck.violate({"type": "match", "kind": kind, "t": st, "a": sa}, match_oracle(ftrun, st, sa) or bad)
        got = impl_match(ftrun, t, a)
        if "error" in ans:
            ck.disagree({"type": "match", "t": t, "a": a}, ans, got, "driver-error")
        elif not ans.get("wf", False):
            ck.count("unit:model-says-not-wf")
        elif not isinstance(got, str) and ans["m"] != got:
            ck.disagree({"type": "match", "kind": kind, "t": t, "a": a}, ans["m"], got, "exactMatch-vs-_validate_match")

    # member keys of map-directed lists
    if hasattr(ftrun, "_obj_to_key"):
        kcases = []
        for _ in range(max(50, n // 20)):
            o = g.gen_member(r, g.MEMBER_NAMES + [" a ", "\ta\n", "a b", 0, -2, 2.5, False, 10 ** 12])
            if r.random() < 0.2:
                o["name"] = r.choice([[1, "a"], {"k": 1}, [], {}])
            fields = r.choice([["name"], ["name", "ns"], ["ns", "name", "port"], ["missing"], []])
            kcases.append((o, fields))
        kans = drv.ask([{"op": "key", "fields": [to_wire(f) for f in fs], "o": to_wire(o)} for o, fs in kcases])
        for (o, fs), ans in zip(kcases, kans):
            ck.evaluated()
            ck.count("unit:member-key")
            got = ftrun._obj_to_key(o, fs)
            if ans.get("k") != got:
                ck.disagree({"type": "key", "o": o, "fields": fs}, ans, got, "memberKey-vs-_obj_to_key")

    # last-applied stripping, on what the mock can hold after a create/patch
    if hasattr(ftrun, "_strip_last_applied_annotation"):
        scases = []
        for _ in range(max(50, n // 20)):
            ann = {g.LAST_APPLIED: "{}"}
            for k in r.sample(["team", "a", "b"], r.choice([0, 0, 1, 2])):
                ann[k] = r.choice(g.SAFE_STR)
            items = list(ann.items())
            r.shuffle(items)
            m = {"apiVersion": "v1", "kind": "K", "metadata": {"name": "n", "annotations": dict(items)},
                 "spec": g.gen_obj(r, 1)}
            if r.random() < 0.1:
                m = {}
            scases.append(m)
        sans = drv.ask([{"op": "strip", "v": to_wire(m)} for m in scases])

        def norm(v):  # an empty annotations map is the same as none (DESIGN section 7)
            v = copy.deepcopy(v)
            md = v.get("metadata") if isinstance(v, dict) else None
            if isinstance(md, dict) and md.get("annotations") == {}:
                del md["annotations"]
            return v

        for m, ans in zip(scases, sans):
            ck.evaluated()
            ck.count("unit:strip")
            try:
                got = ftrun._strip_last_applied_annotation(copy.deepcopy(m))
            except Exception as e:
                ck.violate({"type": "strip", "m": m}, f"_strip_last_applied_annotation raised {e!r}")
                continue
            want = copy.deepcopy(m)
            if m:
                want["metadata"]["annotations"].pop(g.LAST_APPLIED, None)
            if not g.json_eq(norm(got), norm(want)):
                ck.violate({"type": "strip", "m": m}, "stripping removed more (or less) than the last-applied annotation")
            if "v" in ans and not g.json_eq(norm(common.from_wire(ans["v"])), norm(got)):
                ck.disagree({"type": "strip", "m": m}, ans, got, "stripLastApplied-vs-_strip_last_applied_annotation")


# --------------------------------------------------------------------------- verdict functions (unit)

MSGS = [None, "", "Creating FtProbe:ft-ns:alpha.", "creating", "CREATING ftprobe", "Tripped Retry by input", "tripped",
        "by INPUT", "x", "Zz", "alpha.", "Creating FtProbe:ft-ns:alpha.!", " ", "é"]
DELAYS = [0, 1, 5, 17, 30]


def gen_outcome_obj(r, result, cls=None):
    cls = cls or r.choice(["ok", "depSkip", "skip", "retry", "permFail"])
    if cls == "ok":
        return r.choice([None, {"a": 1}, 3, "s", {"echo": {"x": True}}])
    m = r.choice(MSGS)
    if cls == "retry":
        return result.Retry(message=m, delay=r.choice(DELAYS))
    return {"depSkip": result.DepSkip, "skip": result.Skip, "permFail": result.PermFail}[cls](message=m)


def gen_expected_outcome(r, result, like=None):
    """what prepare builds from an expectOutcome spec: None for ok, else an outcome with a str message"""
    cls = r.choice(["ok", "depSkip", "skip", "retry", "permFail"])
    if like is not None and r.random() < 0.6:
        cls = ku.outcome_class(like)
    if cls == "ok":
        return None, {"ok": {}}
    m = r.choice([x for x in MSGS if x is not None])
    if like is not None and cls == ku.outcome_class(like) and like.message and r.random() < 0.6:
        i = r.randrange(len(like.message) + 1)
        j = r.randrange(i, len(like.message) + 1)
        m = _case_variation(r, like.message[i:j])
    if cls == "retry":
        d = r.choice(DELAYS)
        if like is not None and ku.outcome_class(like) == "retry" and r.random() < 0.5:
            d = like.delay
        return result.Retry(message=m, delay=d), {"retry": {"message": m, "delay": d}}
    return ({"depSkip": result.DepSkip, "skip": result.Skip, "permFail": result.PermFail}[cls](message=m),
            {cls: {"message": m}})


def run_unit_verdicts(ck: Check, drv: LeanDriver, ftrun, r, n: int):
    need = ("_validate_outcome_match", "_validate_return_match", "_validate_resource_match")
    if not all(hasattr(ftrun, f) for f in need):
        ck.notes.append("verdict functions not found by name: verdict unit differential skipped (end to end only)")
        return
    done = 0
    while done < n:
        step = min(CHUNK, n - done)
        _run_unit_verdicts_chunk(ck, drv, ftrun, r, step)
        done += step
        if len(ck.violations) > 2000 or len(ck.disagreements) > 2000:
            break


def _run_unit_verdicts_chunk(ck: Check, drv: LeanDriver, ftrun, r, n: int):
    from koreo import result

    cases = []
    for _ in range(n):
        which = r.choice(["outcome", "outcome", "return", "resource"])
        if which == "outcome":
            actual = gen_outcome_obj(r, result)
            exp_obj, exp_spec = gen_expected_outcome(r, result, like=actual if ku.outcome_class(actual) != "ok" else None)
            cases.append(("outcome", {"expectOutcome": exp_spec}, exp_obj, actual, {"e": "none"}))
        elif which == "return":
            kind, t, a = g.gen_pair(r)
            if not isinstance(t, dict) or not t or not g.well_formed(t):
                continue
            actual = a if r.random() < 0.85 else gen_outcome_obj(r, result, r.choice(["retry", "permFail", "skip", "depSkip"]))
            cases.append(("return", {"expectReturn": t}, t, actual, {"e": "none"}))
        else:
            kind, t, a = g.gen_pair(r)
            if not isinstance(t, dict) or not t or not isinstance(a, dict) or not g.well_formed(t):
                continue
            md = {"name": "n"}
            ann = r.random()
            exp_md = dict(md)
            if ann < 0.3:
                exp_md["annotations"] = {}
            elif ann < 0.5:
                exp_md["annotations"] = {"team": "a"}
                md["annotations"] = {"team": r.choice(["a", "a", "b"])}
            m = dict(a, metadata=dict(md, annotations=dict(md.get("annotations", {}), **{g.LAST_APPLIED: "{}"})))
            e = dict(t, metadata=exp_md)
            x = r.random()
            eff = {"e": "wrote", "m": m}
            if x < 0.08:
                eff = {"e": "none"}
            elif x < 0.16:
                eff = {"e": "deleted"}
            actual = gen_outcome_obj(r, result, "retry") if r.random() < 0.85 else gen_outcome_obj(r, result)
            cases.append(("resource", {"expectResource": e}, e, actual, eff))
    reqs = [{"op": "verdict", "as": g.assertion_wire(spec), "out": g.out_wire(actual), "eff": g.eff_wire(eff)}
            for _, spec, _, actual, eff in cases]
    for (which, spec, exp, actual, eff), ans in zip(cases, drv.ask(reqs)):
        ck.evaluated()
        ck.count(f"verdict-unit:{which}")
        try:
            if which == "outcome":
                got = ftrun._validate_outcome_match(expected=exp, actual=copy.deepcopy(actual)).test_pass
            elif which == "return":
                got = ftrun._validate_return_match(expected=copy.deepcopy(exp), actual=copy.deepcopy(actual)).test_pass
            else:
                mat = None if eff["e"] == "none" else {} if eff["e"] == "deleted" else copy.deepcopy(eff["m"])
                got = ftrun._validate_resource_match(expected=copy.deepcopy(exp), materialized=mat,
                                                     actual_outcome=actual).test_pass
            got = bool(got)
        except Exception as e:
            got = f"raised:{type(e).__name__}"
        want = verdict_ref(spec, actual, eff)
        ck.count(f"verdict-unit:{which}:{'pass' if want else 'fail'}")
        case = {"type": "verdict", "which": which, "spec": spec, "out": g.out_wire(actual), "eff": g.eff_wire(eff)}
        if got != want:
            ck.violate(case, f"{which} verdict {got} but the assertion {'holds' if want else 'does not hold'}")
        if not isinstance(got, str) and ans.get("pass") != got:
            ck.disagree(case, ans, got, "verdict-vs-_validate_*_match")


# --------------------------------------------------------------------------- end to end

def _case_variation(r, s: str) -> str:
    """random re-casing of the ASCII letters (the model's `lower` is ASCII; see the assumptions)"""
    return "".join((c.upper() if r.random() < 0.5 else c.lower()) if c.isascii() else c for c in s)


def strip_key_only(m):
    """the materialised object without the last-applied entry (form A: the map that held it stays)"""
    m = copy.deepcopy(m)
    md = m.get("metadata")
    if isinstance(md, dict) and isinstance(md.get("annotations"), dict):
        md["annotations"].pop(g.LAST_APPLIED, None)
    return m


def drop_empty_annotations(m):
    m = copy.deepcopy(m)
    md = m.get("metadata")
    if isinstance(md, dict) and md.get("annotations") == {}:
        del md["annotations"]
    return m


def with_directive(r, v):
    """v with one set/map directive added where it applies and that list reordered in place; None if none applies"""
    spots = []
    for p in g.paths(v):
        x = g.get_at(v, p)
        if isinstance(x, dict):
            for k, lst in x.items():
                if isinstance(lst, list) and len(lst) >= 2:
                    if all(g.is_scalar(i) for i in lst):
                        spots.append((p, k, "set"))
                    elif all(isinstance(i, dict) and "name" in i for i in lst) and \
                            len({f"{i['name']}".strip() for i in lst}) == len(lst):
                        spots.append((p, k, "map"))
    if not spots:
        return None
    p, k, kind = r.choice(spots)
    d = dict(g.get_at(v, p))
    lst = list(d[k])
    lst.reverse()
    d[k] = lst
    if kind == "set":
        d[g.SET] = [k]
    else:
        d[g.MAP] = {k: ["name"]}
    return g.set_at(v, p, d)


def owner_reference_deviations(r, truth: dict):
    """one-step deviations located under metadata.ownerReferences (they are ordinary content for the runner)"""
    md = truth.get("metadata")
    if not isinstance(md, dict):
        return []
    refs = md.get("ownerReferences")
    other = {"apiVersion": "v1", "kind": "Owner", "name": "someone-else", "uid": "uid-x"}

    def with_refs(v):
        t = copy.deepcopy(truth)
        if v is None:
            t["metadata"].pop("ownerReferences", None)
        else:
            t["metadata"]["ownerReferences"] = v
        return t

    if not isinstance(refs, list) or not refs:
        return [("added", with_refs([other]))]
    out = [("uid-changed", with_refs([dict(refs[0], uid="uid-wrong")] + copy.deepcopy(refs[1:]))),
           ("extra-reference", with_refs(copy.deepcopy(refs) + [other])),
           ("key-dropped", with_refs(None))]
    if len(refs) > 1:
        out.append(("reference-missing", with_refs(copy.deepcopy(refs[1:]))))
    return r.sample(out, min(len(out), 2))


def sent_effect(ob: dict) -> dict:
    """the effect of one observed case, derived from the REQUESTS the Function made (`gen_ft.effect_of_requests`),
    not from what the mock says it holds; the conversation itself rides along for the model (`_cur`, `_calls`)
    and what the mock reports as `_mock`"""
    eff = dict(ob.get("eff_sent", ob["eff"]))
    eff["_cur"] = ob.get("resource")
    eff["_calls"] = ob.get("calls", [])
    eff["_mock"] = ob["eff"]
    return eff


def calls_wire(calls) -> list:
    return [{"c": c["c"], **({"body": to_wire(c["body"])} if c["c"] == "write" else {})} for c in calls]


def verdict_request(case: dict, out, eff: dict) -> dict:
    """the model's verdict: from the conversation with the mock (`Mock.effectOf`) when it was recorded, else from
    the effect as given"""
    if "_calls" in eff:
        return {"op": "conv-verdict", "as": g.assertion_wire(case), "out": g.out_wire(out),
                "cur": g.opt_wire(eff.get("_cur")), "calls": calls_wire(eff["_calls"])}
    return {"op": "verdict", "as": g.assertion_wire(case), "out": g.out_wire(out), "eff": g.eff_wire(eff)}


FOREIGN_METADATA = {          # what a live object carries and no Function target names
    "uid": ["5c1f-0a", "9d2e"], "resourceVersion": ["41", "100977"], "generation": [1, 7],
    "creationTimestamp": ["2024-05-01T10:00:00Z"], "finalizers": [["mesh.example/guard"], ["a/b", "c/d"]],
    "managedFields": [[{"manager": "kubectl", "operation": "Update"}]], "selfLink": ["/apis/x"],
}
FOREIGN_LABELS = {"injected-by": "mesh", "pod-template-hash": "7d9f", "topology": "zone-a"}


def add_foreign_metadata(r, cur: dict) -> dict:
    """a copy of an existing resource with metadata members that somebody else put there (API server, another
    controller): top-level metadata members, extra labels, extra annotations"""
    cur = copy.deepcopy(cur)
    md = cur.setdefault("metadata", {})
    if not isinstance(md, dict):
        return cur
    for k in r.sample(sorted(FOREIGN_METADATA), r.choice([1, 2, 3, 4])):
        md.setdefault(k, copy.deepcopy(r.choice(FOREIGN_METADATA[k])))
    if r.random() < 0.6:
        labels = md.setdefault("labels", {})
        if isinstance(labels, dict):
            for k in r.sample(sorted(FOREIGN_LABELS), r.choice([1, 2])):
                labels.setdefault(k, FOREIGN_LABELS[k])
    if r.random() < 0.3:
        ann = md.setdefault("annotations", {})
        if isinstance(ann, dict):
            ann.setdefault("mesh.example/injected", "true")
    return cur


def never_sent_deviations(r, truth: dict, current, limit=3):
    """one-step deviations that LIST what was never sent: a member of the current resource's metadata (or of a
    map inside it) that the object sent does not have, added to the truthful expectation at the same place"""
    if not (isinstance(current, dict) and isinstance(current.get("metadata"), dict)
            and isinstance(truth.get("metadata"), dict)):
        return []
    out = []
    cmd, tmd = current["metadata"], truth["metadata"]
    for k, v in cmd.items():
        if k in g.DIRECTIVES:
            continue
        if k not in tmd:
            if k == "annotations" and isinstance(v, dict):
                v = {a: b for a, b in v.items() if a != g.LAST_APPLIED}
                if not v:
                    continue
            t = copy.deepcopy(truth)
            t["metadata"][k] = copy.deepcopy(v)
            out.append(("never-sent-metadata-member", t))
        elif isinstance(v, dict) and isinstance(tmd[k], dict):
            extra = [a for a in v if a not in tmd[k] and a not in g.DIRECTIVES and a != g.LAST_APPLIED]
            if extra:
                a = r.choice(extra)
                t = copy.deepcopy(truth)
                t["metadata"][k][a] = copy.deepcopy(v[a])
                out.append(("never-sent-member-of-metadata-map", t))
    if len(out) > 1:
        t = copy.deepcopy(truth)
        for k, v in cmd.items():
            if k not in tmd and k not in g.DIRECTIVES and k != "annotations":
                t["metadata"][k] = copy.deepcopy(v)
        if not g.json_eq(t, truth):
            out.append(("never-sent-metadata-members-all", t))
    return r.sample(out, min(len(out), limit))


def build_assertions(r, kind: str, out, eff: dict, index_free: bool = False, current=None):
    """[(label, case-spec-fragment, must_pass)] from what the Function really did.
    `index_free`: do not quote message text that names the case's position (C18 moves cases around)."""
    cases = []
    cls = ku.outcome_class(out)
    # ---- expectOutcome
    if cls == "ok":
        cases.append(("outcome:truth", {"expectOutcome": {"ok": {}}}, True))
    else:
        msg = out.message or ""
        if index_free and "testCases[" in msg:
            msg = ""
        # koreo's messages list differences in set order (hash-randomised per process): keep the main
        # random stream independent of the message text
        rr = random.Random(r.getrandbits(32))
        i = rr.randrange(len(msg) + 1)
        j = rr.randrange(i, len(msg) + 1)
        sub = _case_variation(rr, msg[i:j]) if r.random() < 0.8 else ""
        body = {"message": sub}
        if cls == "retry":
            body["delay"] = r.choice([0, out.delay])
        cases.append(("outcome:truth", {"expectOutcome": {cls: body}}, True))
        full = {"message": msg}
        if cls == "retry":
            full["delay"] = out.delay
        cases.append(("outcome:truth-full", {"expectOutcome": {cls: full}}, True))
        bad = dict(full, message=(out.message or "") + "zz" if r.random() < 0.5 else "qq" + msg[:3])
        cases.append(("outcome:non-contained-message", {"expectOutcome": {cls: bad}}, False))
        if cls == "retry":
            cases.append(("outcome:other-delay",
                          {"expectOutcome": {cls: dict(full, message="", delay=out.delay + r.choice([1, 5, -1]) or 1)}},
                          False))
    for other in ("ok", "depSkip", "skip", "retry", "permFail"):
        if other == cls:
            continue
        body = {} if other == "ok" else {"message": ""}
        if other == "retry":
            body["delay"] = 0
        cases.append((f"outcome:other-class", {"expectOutcome": {other: body}}, False))
    # ---- expectReturn
    if cls == "ok":
        val = ku.plain(out)
        if isinstance(val, dict) and val:
            cases.append(("return:truth", {"expectReturn": g.shuffle_keys(r, val)}, True))
            d = with_directive(r, val)
            if d is not None:
                cases.append(("return:truth-directed", {"expectReturn": d}, True))
            for k, dev in g.deviations(r, val):
                if isinstance(dev, dict) and dev:
                    cases.append((f"return:{k}", {"expectReturn": dev}, False))
    else:
        cases.append(("return:not-ok", {"expectReturn": {"echo": {"name": "alpha"}}}, False))
    # ---- expectResource / expectDelete
    if kind == "ResourceFunction":
        if eff["e"] == "wrote":
            a_form = strip_key_only(eff["m"])
            b_form = drop_empty_annotations(a_form)
            cases.append(("resource:truth", {"expectResource": g.shuffle_keys(r, b_form)}, True))
            with_empty = copy.deepcopy(b_form)
            with_empty.setdefault("metadata", {}).setdefault("annotations", {})
            cases.append(("resource:truth-annotations-map", {"expectResource": with_empty}, True))
            d = with_directive(r, b_form)
            if d is not None:
                cases.append(("resource:truth-directed", {"expectResource": d}, True))
            for k, dev in g.deviations(r, b_form):
                if isinstance(dev, dict) and dev and not g.json_eq(drop_empty_annotations(dev), b_form):
                    cases.append((f"resource:{k}", {"expectResource": dev}, False))
            for k, dev in owner_reference_deviations(r, b_form):
                cases.append((f"resource:ownerReferences-{k}", {"expectResource": dev}, False))
            for k, dev in never_sent_deviations(r, b_form, eff.get("_cur") or current):
                if not g.eqmod_ref(drop_empty_annotations(dev), b_form):
                    cases.append((f"resource:{k}", {"expectResource": dev}, False))
        else:
            plausible = {"apiVersion": "verif.koreo.dev/v1", "kind": "FtProbe",
                         "metadata": {"name": "alpha", "namespace": "ft-ns"}}
            cases.append(("resource:nothing-written", {"expectResource": plausible}, False))
            if isinstance(current, dict) and current:
                # what already exists (or was just deleted) is not "a create or patch was attempted"
                cur = drop_empty_annotations(strip_key_only(current))
                if cur:
                    cases.append(("resource:existing-not-written", {"expectResource": cur}, False))
        deleted = eff["e"] == "deleted"
        cases.append(("delete:truth", {"expectDelete": deleted}, True))
        cases.append(("delete:flipped", {"expectDelete": not deleted}, False))
    return cases


def verdict_ref(case: dict, out, eff: dict) -> bool:
    """the property's reading of a verdict, from the reference comparator (independent of the model)"""
    cls = ku.outcome_class(out)
    if "expectOutcome" in case:
        spec = case["expectOutcome"]
        want = next(iter(k for k in spec if k in ("ok", "depSkip", "skip", "retry", "permFail")))
        if want != cls:
            return False
        if want == "ok":
            return True
        if spec[want]["message"].lower() not in (out.message or "").lower():
            return False
        return want != "retry" or spec[want]["delay"] in (0, out.delay)
    if "expectReturn" in case:
        return cls == "ok" and g.eqmod_ref(case["expectReturn"], ku.plain(out))
    if "expectResource" in case:
        if eff["e"] != "wrote" or cls != "retry":
            return False
        return g.eqmod_ref(drop_empty_annotations(strip_key_only(case["expectResource"])),
                           drop_empty_annotations(strip_key_only(eff["m"])))
    return (eff["e"] == "deleted") == bool(case["expectDelete"])


async def probe(kind, fn_spec, inputs, current, extra_case=None):
    """run one case and report what the Function did: (outcome, effect) or None if the run was refused"""
    from koreo import result

    ft_spec = {"inputs": inputs, "testCases": [dict(extra_case or {}, expectOutcome={"ok": {}})]}
    if current is not None:
        ft_spec["currentResource"] = current
    fn, ft = await g.prepare_ft_async(kind, fn_spec, ft_spec)
    if not result.is_unwrapped_ok(ft):
        raise Infra(f"generated FunctionTest did not prepare: {ft}")
    with g.observe(record_requests=True) as log:
        await g.run_ft_async(ft)
    if len(log) != 1:
        return None
    return log[0]["out"], sent_effect(log[0])


def gen_scenario(r):
    kind = "ValueFunction" if r.random() < 0.35 else "ResourceFunction"
    fn_spec = g.value_function_spec(r) if kind == "ValueFunction" else g.resource_function_spec(r)
    trip = r.choice([None] * 6 + list(g.TRIPS))
    inputs = g.gen_inputs(r, trip)
    situation = "fresh"
    if kind == "ValueFunction":
        situation = r.choice(["fresh", "fresh", "with-resource"])
    else:
        situation = r.choice(["fresh", "fresh", "existing-match", "existing-drift", "existing-status-trip",
                              "existing-foreign"])
    return {"kind": kind, "fn_spec": fn_spec, "inputs": inputs, "situation": situation}


async def realise(r, sc, foreign=None):
    """fill in the current resource for the scenario's situation (from what a create really sends)"""
    kind, fn_spec, inputs = sc["kind"], sc["fn_spec"], sc["inputs"]
    sit = sc["situation"]
    if sit == "fresh":
        return None
    if kind == "ValueFunction":
        return {"seen": r.choice([1, "x"]), "spec": g.small_value(r, 1), "echo": "shadowed"}
    if sit == "existing-foreign":
        return {"apiVersion": "verif.koreo.dev/v1", "kind": "FtProbe",
                "metadata": {"name": inputs["name"], "namespace": "ft-ns"}, "spec": {"other": 1},
                "status": {"ready": True}}
    clean = {k: v for k, v in inputs.items() if k != "trip"}
    spec0 = copy.deepcopy(fn_spec)
    spec0["apiConfig"] = {k: v for k, v in spec0["apiConfig"].items() if k not in ("readonly", "deleteIfExists")}
    got = await probe(kind, spec0, clean, None)
    if got is None or got[1]["e"] != "wrote":
        return None
    cur = copy.deepcopy(got[1]["m"])
    if sit == "existing-drift":
        cur["spec"]["fixed"]["n"] = 77
        if r.random() < 0.5:
            cur["status"] = {"ready": True}
    elif sit == "existing-status-trip":
        cur["status"] = {"trip": {r.choice(list(g.TRIPS)): True}}
    else:
        if r.random() < 0.5:
            cur["status"] = {"ready": r.choice([True, "yes"])}
    if foreign is None:
        foreign = r.random() < 0.6
    if foreign:
        # the live object carries metadata nobody's target names (uid, foreign labels, finalizers, ...)
        cur = add_foreign_metadata(r, cur)
    return cur


async def run_scenario(ck: Check, r, sc, want_cases=None, rerun=True):
    """-> list of per-case records {label, case, must_pass, got, out, eff}; raising runner is a violation"""
    from koreo import result

    kind, fn_spec, inputs = sc["kind"], sc["fn_spec"], sc["inputs"]
    current = sc["current"] if "current" in sc else await realise(r, sc)
    sc["current"] = current
    if want_cases is None:
        got = await probe(kind, fn_spec, inputs, current)
        if got is None:
            return []
        out, eff = got
        triples = build_assertions(r, kind, out, eff, current=current)
    else:
        triples = want_cases
    if len(triples) > 20:      # the CRD allows at most 20 test cases
        records = []
        for i in range(0, len(triples), 20):
            part = await run_scenario(ck, r, sc, want_cases=triples[i:i + 20], rerun=rerun)
            if part and part[0]["case"] is None:
                return part
            records.extend(part)
        return records
    cases = []
    for i, (label, frag, must) in enumerate(triples):
        c = dict(copy.deepcopy(frag), variant=True, label=f"{i}:{label}")
        cases.append(c)
    ft_spec = {"inputs": inputs, "testCases": cases}
    if current is not None:
        ft_spec["currentResource"] = current
    fn, ft = await g.prepare_ft_async(kind, fn_spec, ft_spec)
    if not result.is_unwrapped_ok(ft):
        raise Infra(f"generated FunctionTest did not prepare: {ft}")
    records = []
    with g.observe(record_requests=True) as log:
        try:
            res = await g.run_ft_async(ft)
        except g.FunctionRaised:
            raise
        except Exception as e:
            # find the case that makes the runner raise
            return [{"label": "raised", "case": None, "must_pass": None, "got": f"raised:{type(e).__name__}: {e}",
                     "cases": triples}]
    if len(res.test_results) != len(cases) or len(log) != len(cases):
        return [{"label": "aborted", "case": None, "must_pass": None,
                 "got": f"ran {len(res.test_results)} of {len(cases)} variant cases (fatal={res.fatal_error})",
                 "cases": triples}]
    # the same PREPARED FunctionTest once more: judging must not have changed the assertions
    try:
        if rerun or any("directed" in t[0] for t in triples):
            res2 = await g.run_ft_async(ft)
            again = [bool(tr.test_pass) for tr in res2.test_results]
        else:
            again = [bool(tr.test_pass) for tr in res.test_results]
    except g.FunctionRaised:
        raise
    except Exception as e:
        again = [f"raised:{type(e).__name__}"] * len(cases)
    if len(again) != len(cases):
        again = (again + ["not-run"] * len(cases))[:len(cases)]
    for (label, frag, must), tr, ob, g2 in zip(triples, res.test_results, log, again):
        records.append({"label": label, "case": frag, "must_pass": must, "got": bool(tr.test_pass),
                        "got_again": g2, "out": ob["out"], "eff": sent_effect(ob)})
    return records


def scenario_case(sc, frag, must):
    return {"type": "e2e", "kind": sc["kind"], "fn_spec": sc["fn_spec"], "inputs": sc["inputs"],
            "current": sc.get("current"), "case": frag, "must_pass": must}


def run_e2e(ck: Check, drv: LeanDriver, r, n: int):
    done = 0
    while done < n:
        step = min(500, n - done)
        _run_e2e_chunk(ck, drv, r, step)
        done += step
        if len(ck.violations) > 2000 or len(ck.disagreements) > 2000:
            break


def _run_e2e_chunk(ck: Check, drv: LeanDriver, r, n: int):
    pending = []   # (scenario, record) for the model
    for i in range(n):
        sc = gen_scenario(r)
        try:
            # every second scenario (and every one with a directive-carrying expectation) is run twice
            records = ku.run(run_scenario(ck, r, sc, rerun=(i % 2 == 0)))
        except g.FunctionRaised:
            ck.count("e2e:skipped:function-under-test-raised")
            continue
        ck.count(f"e2e:{sc['kind']}:{sc['situation']}")
        changed = g.constants_changed()
        if changed:
            ck.violate({"type": "constants", "kind": sc["kind"], "fn_spec": sc["fn_spec"], "inputs": sc["inputs"],
                        "current": sc.get("current")}, changed)
        for rec in records:
            ck.evaluated()
            if rec["case"] is None:
                # the whole run raised / aborted: isolate one offending case
                bad_case = None
                for t in rec["cases"]:
                    try:
                        sub = ku.run(run_scenario(ck, r, sc, want_cases=[t]))
                    except g.FunctionRaised:
                        continue
                    if sub and sub[0]["case"] is None:
                        bad_case = t
                        break
                frag, must = (bad_case[1], bad_case[2]) if bad_case else (None, None)
                ck.violate(scenario_case(sc, frag, must), f"the runner did not judge the case: {rec['got']}")
                continue
            label = rec["label"]
            ck.count(f"e2e:{label}")
            ck.count(f"e2e:class:{ku.outcome_class(rec['out'])}")
            ck.count(f"e2e:effect:{rec['eff']['e']}")
            ref = verdict_ref(rec["case"], rec["out"], rec["eff"])
            if ref != rec["must_pass"]:
                raise Infra(f"generator bug: {label} labelled must_pass={rec['must_pass']} but reference says {ref}: "
                            f"{json.dumps(rec['case'], default=str)[:400]}")
            if not label.endswith("truth"):
                ck.nontriv(json.dumps(["e", sc["kind"], label, to_wire(rec["case"].get("expectReturn")
                                                                       or rec["case"].get("expectResource")
                                                                       or rec["case"].get("expectOutcome")
                                                                       or rec["case"].get("expectDelete"))],
                                      default=str))
            ck.sample({"type": "e2e", "kind": sc["kind"], "situation": sc["situation"], "label": label,
                       "case": rec["case"], "pass": rec["got"]}, limit=8)
            if rec["got"] != rec["must_pass"]:
                what = (f"{label}: the assertion describes what the Function did but the case FAILED"
                        if rec["must_pass"] else f"{label}: a deviating assertion PASSED")
                ck.violate(scenario_case(sc, rec["case"], rec["must_pass"]), what)
            elif rec.get("got_again", rec["got"]) != rec["got"]:
                ck.count("e2e:rerun-differs")
                ck.violate(scenario_case(sc, rec["case"], rec["must_pass"]),
                           f"{label}: the same prepared FunctionTest judged this case {rec['got']} on its first run "
                           f"and {rec['got_again']} on its second")
            pending.append((sc, rec))
    if pending:
        reqs = [verdict_request(rec["case"], rec["out"], rec["eff"]) for _, rec in pending]
        for (sc, rec), ans in zip(pending, drv.ask(reqs)):
            if ans.get("pass") != rec["got"]:
                ck.disagree(scenario_case(sc, rec["case"], rec["must_pass"]), ans, rec["got"], "verdict-vs-test_pass")


# --------------------------------------------------------------------------- multi-case histories

def expectation_of_written(m):
    """the truthful expectResource for an object the mock holds after a create/patch"""
    return drop_empty_annotations(strip_key_only(m))


async def run_cases_observed(kind, fn_spec, base: dict, cases: list, rerun=True):
    """one FunctionTest through the real prepare/run -> [(test_pass, out, eff)] for the executed cases,
    or a string if the runner raised / results and observations do not line up"""
    from koreo import result

    fn, ft = await g.prepare_ft_async(kind, fn_spec, dict(base, testCases=copy.deepcopy(cases)))
    if not result.is_unwrapped_ok(ft):
        raise Infra(f"generated FunctionTest did not prepare: {ft}")
    with g.observe(record_requests=True) as log:
        try:
            res = await g.run_ft_async(ft)
        except g.FunctionRaised:
            raise
        except Exception as e:
            return f"raised:{type(e).__name__}: {e}"
    if len(log) != len(res.test_results):
        return f"skip: {len(res.test_results)} results for {len(log)} cases that reached the Function"
    first = [bool(tr.test_pass) for tr in res.test_results]
    if not rerun:
        return [(bool(tr.test_pass), ob["out"], sent_effect(ob)) for tr, ob in zip(res.test_results, log)]
    try:
        res2 = await g.run_ft_async(ft)      # the same prepared FunctionTest again
    except g.FunctionRaised:
        raise
    except Exception as e:
        return f"raised on the second run:{type(e).__name__}: {e}"
    second = [bool(tr.test_pass) for tr in res2.test_results]
    if second != first:
        return f"rerun: the same prepared FunctionTest gave {first} and then {second}"
    return [(bool(tr.test_pass), ob["out"], sent_effect(ob)) for tr, ob in zip(res.test_results, log)]


def history_steps(r, fn_spec, inputs, in_sync, has_current):
    """case modifiers whose behaviour is known in kind: W = whatever the un-modified case does (create / patch /
    recreate / delete), W2 = the same for another object, N* = cases that do NOT touch the API"""
    steps = [("W", {}), ("W", {})]
    steps.append(("W2", {"inputOverrides": {"name": "other-" + inputs["name"], "payload": g.small_value(r, 1)}}))
    for trip in r.sample(list(g.TRIPS), r.choice([1, 2, 3])):
        steps.append((f"N-pre-{trip}", {"inputOverrides": {"trip": {trip: True}}}))
    if in_sync is not None:
        steps.append(("N-in-sync", {"currentResource": copy.deepcopy(in_sync)}))
        for trip in r.sample(list(g.TRIPS), r.choice([1, 2])):
            cur = copy.deepcopy(in_sync)
            cur["status"] = {"trip": {trip: True}}
            steps.append((f"N-post-{trip}", {"currentResource": cur}))
    if has_current:
        # overlays apply to the threaded resource (the base one here), whatever it makes the Function do
        steps.append(("overlay-status", {"overlayResource": {"status": {"trip": {r.choice(list(g.TRIPS)): True}}}}))
        # the live object picks up metadata the Function does not manage (whatever that makes the Function do)
        steps.append(("overlay-foreign-metadata", {"overlayResource": {"metadata": {
            "uid": r.choice(["5c1f-0a", "9d2e"]), "labels": {"injected-by": "mesh"},
            **({"finalizers": ["mesh.example/guard"]} if r.random() < 0.5 else {})}}}))
    return steps


def gen_history(r):
    fn_spec = g.resource_function_spec(r)
    fn_spec["apiConfig"].pop("readonly", None)
    mode = r.random()
    if mode < 0.7:
        fn_spec["apiConfig"].pop("deleteIfExists", None)
    inputs = g.gen_inputs(r, None)
    situation = "fresh"
    if fn_spec["apiConfig"].get("deleteIfExists"):
        situation = "existing-match"            # the un-modified case deletes
    elif r.random() < 0.4:
        situation = "existing-drift"            # the un-modified case patches / recreates / (never) does nothing
    return {"kind": "ResourceFunction", "fn_spec": fn_spec, "inputs": inputs, "situation": situation}


async def run_history(r, sc):
    """-> (cases, records | str).  A create/patch/delete case followed by cases that do not touch the API,
    asserted with what the EARLIER case sent / did; every case judged against what it did itself."""
    kind, fn_spec, inputs = sc["kind"], sc["fn_spec"], sc["inputs"]
    current = await realise(r, sc)
    in_sync = await realise(r, dict(sc, situation="existing-match"))
    if in_sync is not None:
        in_sync.pop("status", None)
    base = {"inputs": inputs}
    if current is not None:
        base["currentResource"] = current
    sc["current"] = current
    pool = history_steps(r, fn_spec, inputs, in_sync, current is not None)
    seq = [pool[0]] + [r.choice(pool) for _ in range(r.choice([3, 4, 5, 6, 7]))]
    # pass 1: what does each step do from the base state (all variant, placeholder assertion)
    probe_cases = [dict(copy.deepcopy(frag), variant=True, label=f"p{i}", expectOutcome={"ok": {}})
                   for i, (_, frag) in enumerate(seq)]
    seen = await run_cases_observed(kind, fn_spec, base, probe_cases, rerun=False)
    if isinstance(seen, str) or len(seen) != len(seq):
        return probe_cases, (seen if isinstance(seen, str) else "skip: not every variant probe case ran")
    cases = []
    written, deleted = [], False        # what earlier cases of the FINAL list sent / did
    for i, ((tag, frag), (_, out, eff)) in enumerate(zip(seq, seen)):
        c = dict(copy.deepcopy(frag), label=f"h{i}:{tag}")
        choice = r.random()
        label = None
        if eff["e"] != "wrote" and written and choice < 0.7:
            c["expectResource"] = copy.deepcopy(r.choice(written))
            label = "history:resource-sent-by-earlier-case"
        elif eff["e"] == "wrote" and written and choice < 0.3:
            c["expectResource"] = copy.deepcopy(r.choice(written))
            label = "history:resource-of-earlier-case-on-a-writing-case"
        elif eff["e"] != "deleted" and deleted and choice < 0.85:
            c["expectDelete"] = True
            label = "history:delete-done-by-earlier-case"
        else:
            own = build_assertions(r, kind, out, eff, index_free=True, current=frag.get("currentResource", current))
            truthful = r.random() < 0.7
            pick = r.choice([t for t in own if t[2] == truthful] or own)
            c.update(copy.deepcopy(pick[1]))
            label = "own:" + pick[0]
        c["label"] += ":" + label
        # cases that are expected to pass may be non-variant (their state is threaded on); deviating ones stay
        # variant so that the run goes on
        c["variant"] = True if (label.startswith("history") or r.random() < 0.7) else False
        if not c["variant"] and not verdict_ref(c, out, eff):
            c["variant"] = True
        cases.append(c)
        if eff["e"] == "wrote":
            written.append(expectation_of_written(eff["m"]))
        if eff["e"] == "deleted":
            deleted = True
    return cases, await run_cases_observed(kind, fn_spec, base, cases)


def history_case(sc, cases, upto: int):
    return {"type": "history", "kind": sc["kind"], "fn_spec": sc["fn_spec"], "inputs": sc["inputs"],
            "current": sc.get("current"), "cases": cases[:upto + 1], "index": upto}


def history_verdicts(sc, cases):
    """re-run a stored history; -> description of the first wrong verdict or None"""
    base = {"inputs": sc["inputs"]}
    if sc.get("current") is not None:
        base["currentResource"] = sc["current"]
    try:
        recs = ku.run(run_cases_observed(sc["kind"], sc["fn_spec"], base, cases))
    except g.FunctionRaised:
        return None
    if isinstance(recs, str):
        return None if recs.startswith("skip:") else recs if recs.startswith("rerun:") else \
            f"the runner did not judge the cases: {recs}"
    for c, (got, out, eff) in zip(cases, recs):
        want = verdict_ref(c, out, eff)
        if got != want:
            return (f"case {c.get('label')}: " + ("the assertion holds for what this case did but it FAILED" if want
                    else "the assertion does not hold for what THIS case did but it PASSED"))
    return None


def shrink_history(sc, cases, idx):
    """drop cases before the wrongly judged one while it stays wrongly judged"""
    target = cases[idx]

    def fails(prefix):
        return history_verdicts(sc, prefix + [target]) is not None

    try:
        if fails([]):
            return [target]
        keep = common.ddmin(cases[:idx], fails)
    except Exception:
        keep = cases[:idx]
    return keep + [target]


def run_histories(ck: Check, drv: LeanDriver, r, n: int):
    pending = []
    for _ in range(n):
        sc = gen_history(r)
        try:
            cases, recs = ku.run(run_history(r, sc))
        except g.FunctionRaised:
            ck.count("history:skipped:function-under-test-raised")
            continue
        ck.count(f"history:{sc['situation']}")
        changed = g.constants_changed()
        if changed:
            ck.violate({"type": "constants", "kind": sc["kind"], "fn_spec": sc["fn_spec"], "inputs": sc["inputs"],
                        "current": sc.get("current")}, changed)
        if isinstance(recs, str):
            ck.evaluated()
            if recs.startswith("skip:"):
                ck.count("history:skipped:setup-or-overlay-error")
            else:
                ck.violate(history_case(sc, cases, len(cases) - 1),
                           recs if recs.startswith("rerun:") else f"the runner did not judge the cases: {recs}")
            continue
        for i, (c, (got, out, eff)) in enumerate(zip(cases, recs)):
            ck.evaluated()
            lab = c["label"].split(":", 2)[2]
            ck.count(f"history:{lab if lab.startswith('history') else 'own'}")
            ck.count(f"history:effect:{eff['e']}")
            want = verdict_ref(c, out, eff)
            ck.nontriv(hashlib.sha1(json.dumps(["h", to_wire(sc["inputs"]), i, to_wire({k: v for k, v in c.items()})],
                                               default=str).encode()).hexdigest()[:16])
            if got != want:
                small = shrink_history(sc, cases, i)
                ck.violate(history_case(sc, small, len(small) - 1),
                           history_verdicts(sc, small) or f"case {c['label']} judged {got}, should be {want}")
            pending.append((sc, cases, i, c, got, out, eff))
        ck.sample({"type": "history", "labels": [c["label"] for c in cases],
                   "pass": [x[0] for x in recs]}, limit=10)
    if pending:
        reqs = [verdict_request(c, out, eff) for _, _, _, c, _, out, eff in pending]
        for (sc, cases, i, c, got, out, eff), ans in zip(pending, drv.ask(reqs)):
            if ans.get("pass") != got:
                ck.disagree(history_case(sc, cases, i), ans, got, "verdict-vs-test_pass(history)")


# --------------------------------------------------------------------------- verdicts over mock conversations

def gen_live_object(r):
    """a live Kubernetes object as a case's resource: what a Function would have created, plus what the API
    server and other controllers add to it (foreign metadata, status)"""
    md = {"name": r.choice(["n", "alpha"]), "namespace": "ns"}
    if r.random() < 0.5:
        md["labels"] = {"app": r.choice(g.SAFE_STR)}
    ann = {g.LAST_APPLIED: "{}"}
    if r.random() < 0.3:
        ann["team"] = r.choice(g.SAFE_STR)
    md["annotations"] = ann
    if r.random() < 0.3:
        md["ownerReferences"] = [{"apiVersion": "v1", "kind": "Owner", "name": "o", "uid": "uid-0"}]
    cur = {"apiVersion": "v1", "kind": "K", "metadata": md, "spec": g.gen_obj(r, 1)}
    if r.random() < 0.6:
        cur["status"] = r.choice([{"ready": True}, {"phase": "Bound", "n": 2}, {}])
    if r.random() < 0.85:
        cur = add_foreign_metadata(r, cur)
    return cur


def gen_mock_verdict_case(r):
    """(current, calls): a conversation whose last mutating request is usually a PATCH over a live object"""
    cur = r.choice([None, {}, "live", "live", "live", "live", "live", "live"])
    if cur == "live":
        cur = gen_live_object(r)
    calls = [{"c": "get"}] if r.random() < 0.8 else []
    k = r.random()
    if k < 0.08:
        return cur, calls
    if k < 0.16:
        return cur, calls + [{"c": "delete"}]
    if cur:
        # the body a Function sends: its own target (name/namespace/its labels/annotations), a changed spec
        md = {kk: copy.deepcopy(v) for kk, v in cur["metadata"].items()
              if kk in ("name", "namespace", "ownerReferences")}
        if "labels" in cur["metadata"] and r.random() < 0.7:
            md["labels"] = {kk: v for kk, v in cur["metadata"]["labels"].items() if kk not in FOREIGN_LABELS}
            if not md["labels"]:
                del md["labels"]
        md["annotations"] = {kk: v for kk, v in cur["metadata"]["annotations"].items()
                             if kk in (g.LAST_APPLIED, "team")}
        body = {"apiVersion": cur["apiVersion"], "kind": cur["kind"], "metadata": md, "spec": g.gen_obj(r, 1)}
        if r.random() < 0.1:
            del body["metadata"]
    else:
        body = gen_live_object(r)
        body.pop("status", None)
    calls = calls + [{"c": "write", "verb": "PATCH" if cur else "POST", "body": body}]
    if r.random() < 0.05:
        calls.append({"c": "get"})
    return cur, calls


async def real_mock_materialized(ftrun, cur, calls):
    """the conversation with the real `MockApi`; -> what `_run_test_case` reads back for the verdict"""
    class Held:
        def __init__(self, api=None, resource=None, namespace=None, **_):
            self.raw = resource

    api = ftrun.MockApi(current_resource=copy.deepcopy(cur))
    for c in calls:
        if c["c"] == "get":
            [o async for o in api.async_get(Held, "name", namespace="ns")]
        elif c["c"] == "delete":
            async with api.call_api("DELETE", version="v1", url="things/name", namespace="ns"):
                pass
        else:
            async with api.call_api(c.get("verb") or ("PATCH" if cur else "POST"), version="v1", url="things",
                                    namespace="ns", data=json.dumps(c["body"])):
                pass
    return api.materialized, bool(api._delete_called)


def mock_verdict_got(ftrun, cur, calls, case: dict, out):
    try:
        mat, deleted = ku.run(real_mock_materialized(ftrun, cur, calls))
        if "expectResource" in case:
            got = ftrun._validate_resource_match(expected=copy.deepcopy(case["expectResource"]),
                                                 materialized=mat, actual_outcome=out).test_pass
        else:
            got = deleted == case["expectDelete"]
        return bool(got)
    except Exception as e:
        return f"raised:{type(e).__name__}"


def mock_verdict_assertions(r, cur, calls, eff):
    """[(label, case, must_pass)] for one conversation: the truthful expectResource and one-step deviations,
    among them expectations that list members of the live object which were never sent"""
    out = []
    if eff["e"] == "wrote" and isinstance(eff["m"], dict) and eff["m"]:
        truth = expectation_of_written(eff["m"])
        out.append(("truth", {"expectResource": g.shuffle_keys(r, truth)}, True))
        for k, dev in never_sent_deviations(r, truth, cur, limit=4):
            out.append((k, {"expectResource": dev}, None))
        devs = g.deviations(r, truth)
        for k, dev in r.sample(devs, min(2, len(devs))):
            if isinstance(dev, dict) and dev:
                out.append((k, {"expectResource": dev}, None))
        if cur:
            # what the live object looked like / the bare body are not what was sent (unless they coincide)
            out.append(("live-object", {"expectResource": expectation_of_written(cur)}, None))
            body = [c for c in calls if c["c"] == "write"][-1]["body"]
            if isinstance(body, dict) and body:
                out.append(("bare-body", {"expectResource": expectation_of_written(body)}, None))
    else:
        plausible = expectation_of_written(cur) if cur else {"apiVersion": "v1", "kind": "K", "metadata": {"name": "n"}}
        out.append(("nothing-written", {"expectResource": plausible}, False))
    out.append(("delete:truth", {"expectDelete": eff["e"] == "deleted"}, True))
    return out


def run_mock_verdicts(ck: Check, drv: LeanDriver, ftrun, r, n: int):
    """`MockApi` + `_validate_resource_match` as `_run_test_case` combines them, on conversations over live
    objects with foreign metadata; truth = the requests (`gen_ft.effect_of_requests`), never the mock's record"""
    from koreo import result

    if not (hasattr(ftrun, "MockApi") and hasattr(ftrun, "_validate_resource_match")):
        ck.notes.append("MockApi/_validate_resource_match not found by name: mock verdict unit skipped (end to end only)")
        return
    todo = []
    for _ in range(n):
        cur, calls = gen_mock_verdict_case(r)
        eff = dict(g.effect_of_requests(cur, calls), _cur=cur or None, _calls=calls)
        out = result.Retry(message="Patching", delay=r.choice([0, 7, 30])) if r.random() < 0.9 else \
            gen_outcome_obj(r, result, r.choice(["ok", "permFail", "skip"]))
        for label, case, must in mock_verdict_assertions(r, cur, calls, eff):
            todo.append((label, cur, calls, case, out, eff))
    answers = drv.ask([verdict_request(case, out, eff) for _, _, _, case, out, eff in todo])
    for (label, cur, calls, case, out, eff), ans in zip(todo, answers):
        ck.evaluated()
        want = verdict_ref(case, out, eff)
        got = mock_verdict_got(ftrun, cur, calls, case, out)
        ck.count(f"mock-verdict:{label}:{'pass' if want else 'fail'}")
        ck.count(f"mock-verdict:effect:{eff['e']}{':over-live-object' if cur and eff['e'] == 'wrote' else ''}")
        stored = {"type": "mock-verdict", "cur": cur, "calls": calls, "case": case, "out": g.out_wire(out)}
        if label != "truth":
            ck.nontriv(hashlib.sha1(json.dumps(["mv", to_wire(stored)], default=str).encode()).hexdigest()[:16])
        ck.sample(dict(stored, label=label, holds=want), limit=6)
        if got != want:
            ck.violate(shrink_mock_verdict(ftrun, stored) if len(ck.violations) < 12 else stored,
                       f"{label}: verdict {got} but the assertion {'holds' if want else 'does not hold'} for the "
                       f"requests the Function made (a patch replaces the top-level keys it names)")
        if "error" in ans:
            ck.disagree(stored, ans, got, "driver-error")
        elif not isinstance(got, str) and ans.get("pass") != got:
            ck.disagree(stored, ans, got, "verdict∘Mock.effectOf-vs-_validate_resource_match∘MockApi")


def mock_verdict_bad(ftrun, stored: dict):
    """description of the wrong verdict on a stored mock-verdict case, or None"""
    cur, calls, case = stored["cur"], stored["calls"], stored["case"]
    out = outcome_from_wire(stored["out"])
    eff = g.effect_of_requests(cur, calls)
    want = verdict_ref(case, out, eff)
    got = mock_verdict_got(ftrun, cur, calls, case, out)
    if got == want:
        return None
    return f"verdict {got} but the assertion {'holds' if want else 'does not hold'} for the requests made"


def shrink_mock_verdict(ftrun, stored: dict) -> dict:
    """greedy: drop members of the live object / the body / the expectation while the verdict stays wrong"""
    def variants(st):
        for where in ("cur", "body", "exp"):
            if where == "cur":
                v = st["cur"]
            elif where == "body":
                ws = [i for i, c in enumerate(st["calls"]) if c["c"] == "write"]
                if not ws:
                    continue
                v = st["calls"][ws[-1]]["body"]
            else:
                v = st["case"].get("expectResource")
            if not isinstance(v, dict):
                continue
            for p in g.paths(v):
                x = g.get_at(v, p)
                if not isinstance(x, dict):
                    continue
                for k in list(x):
                    d = dict(x)
                    del d[k]
                    nv = g.set_at(v, p, d)
                    if not nv:
                        continue
                    c = copy.deepcopy(st)
                    if where == "cur":
                        c["cur"] = nv
                    elif where == "body":
                        c["calls"][ws[-1]]["body"] = nv
                    else:
                        c["case"]["expectResource"] = nv
                    yield c
        if len(st["calls"]) > 1:
            for i, c0 in enumerate(st["calls"]):
                if c0["c"] == "get":
                    c = copy.deepcopy(st)
                    del c["calls"][i]
                    yield c

    budget = 300
    changed = True
    while changed and budget > 0:
        changed = False
        for c in variants(stored):
            budget -= 1
            if budget <= 0:
                break
            try:
                if mock_verdict_bad(ftrun, c):
                    stored, changed = c, True
                    break
            except Exception:
                pass
    return stored


# --------------------------------------------------------------------------- verdicts do not depend on what ran before

OWNER_FN = {
    "apiConfig": {"apiVersion": "verif.koreo.dev/v1", "kind": "FtProbe", "plural": "ftprobes",
                  "name": "=inputs.name", "namespace": "ft-ns"},
    "resource": {"metadata": {"labels": {"app": "a"},
                              "ownerReferences": [{"apiVersion": "v1", "kind": "Owner", "name": "owner0", "uid": "uid-0"}]},
                 "spec": {"size": "=inputs.size", "tags": ["b", "a"], "x-koreo-compare-as-set": ["tags"]}},
    "return": {"size": "=resource.spec.size"},
}
OWNER_SENT = {"apiVersion": "verif.koreo.dev/v1", "kind": "FtProbe",
              "metadata": {"name": "alpha", "namespace": "ft-ns", "labels": {"app": "a"},
                           "ownerReferences": [{"apiVersion": "v1", "kind": "Owner", "name": "owner0", "uid": "uid-0"}]},
              "spec": {"size": 3, "tags": ["b", "a"]}}


def stability_cases(r):
    cases = [{"label": "truth", "variant": True, "expectResource": copy.deepcopy(OWNER_SENT)}]
    for k, dev in owner_reference_deviations(r, OWNER_SENT) + g.deviations(r, OWNER_SENT)[:3]:
        if isinstance(dev, dict) and dev:
            cases.append({"label": k, "variant": True, "expectResource": dev})
    cases.append({"label": "outcome", "variant": True, "expectOutcome": {"retry": {"message": "creating", "delay": 0}}})
    cases.append({"label": "delete", "variant": True, "expectDelete": False})
    return cases


def stability_verdicts(cases):
    """the FunctionTest, then real reconciles against an EXISTING resource (steady state, drift → patch) through
    another FunctionTest, then the same FunctionTest again -> (before, after, wrong) ; wrong = description | None"""
    base = {"inputs": {"name": "alpha", "size": 3}}
    sc = {"kind": "ResourceFunction", "fn_spec": OWNER_FN, "inputs": base["inputs"], "current": None}
    before = ku.run(run_cases_observed("ResourceFunction", OWNER_FN, base, cases))
    existing = {"inputs": base["inputs"], "currentResource": dict(copy.deepcopy(OWNER_SENT), status={"ready": True})}
    ku.run(run_cases_observed("ResourceFunction", OWNER_FN, existing, [
        {"label": "steady", "expectOutcome": {"ok": {}}},
        {"label": "drift", "inputOverrides": {"size": 4}, "expectOutcome": {"retry": {"message": "", "delay": 0}}},
    ]))
    after = ku.run(run_cases_observed("ResourceFunction", OWNER_FN, base, cases))
    if isinstance(before, str) or isinstance(after, str):
        return before, after, f"the runner did not judge the cases: {before if isinstance(before, str) else after}"
    for which, recs in (("first run", before), ("run after reconciles against an existing resource", after)):
        for c, (got, out, eff) in zip(cases, recs):
            want = verdict_ref(c, out, eff)
            if got != want:
                return before, after, (f"{which}, case {c['label']}: " + ("truthful assertion FAILED" if want
                                                                         else "deviating assertion PASSED"))
    vb, va = [x[0] for x in before], [x[0] for x in after]
    if vb != va:
        return before, after, f"the same FunctionTest is judged differently before and after other reconciles: {vb} vs {va}"
    return before, after, None


def run_stability(ck: Check, drv: LeanDriver, r, n: int):
    for _ in range(n):
        cases = stability_cases(r)
        ck.evaluated()
        ck.count("stability:twice-with-reconciles-between")
        try:
            before, after, bad = stability_verdicts(cases)
        except g.FunctionRaised:
            continue
        changed = g.constants_changed()
        case = {"type": "stability", "cases": cases}
        if bad:
            ck.violate(case, bad)
        if changed:
            ck.violate(case, changed)
        ck.nontriv(hashlib.sha1(json.dumps(["s", [to_wire(c) for c in cases]], default=str).encode()).hexdigest()[:16])


# --------------------------------------------------------------------------- corpus / replay

def outcome_from_wire(w: dict):
    from koreo import result

    c = w["c"]
    if c == "ok":
        return common.from_wire(w["v"])
    if c == "retry":
        return result.Retry(message=w.get("m"), delay=int(w["d"]))
    return {"depSkip": result.DepSkip, "skip": result.Skip, "permFail": result.PermFail}[c](message=w.get("m"))


def expected_outcome_from_spec(spec: dict):
    from koreo import result

    if "ok" in spec:
        return None
    if "retry" in spec:
        return result.Retry(message=spec["retry"]["message"], delay=int(spec["retry"]["delay"]))
    for c, cls in (("depSkip", result.DepSkip), ("skip", result.Skip), ("permFail", result.PermFail)):
        if c in spec:
            return cls(message=spec[c]["message"])
    raise Infra(f"bad expectOutcome {spec}")


def check_verdict_case(ftrun, case: dict):
    actual = outcome_from_wire(case["out"])
    eff = {"e": case["eff"]["e"]}
    if eff["e"] == "wrote":
        eff["m"] = common.from_wire(case["eff"]["m"])
    spec = case["spec"]
    try:
        if case["which"] == "outcome":
            got = ftrun._validate_outcome_match(expected=expected_outcome_from_spec(spec["expectOutcome"]),
                                                actual=actual).test_pass
        elif case["which"] == "return":
            got = ftrun._validate_return_match(expected=copy.deepcopy(spec["expectReturn"]), actual=actual).test_pass
        else:
            mat = None if eff["e"] == "none" else {} if eff["e"] == "deleted" else copy.deepcopy(eff["m"])
            got = ftrun._validate_resource_match(expected=copy.deepcopy(spec["expectResource"]), materialized=mat,
                                                 actual_outcome=actual).test_pass
        got = bool(got)
    except Exception as e:
        got = f"raised:{type(e).__name__}"
    want = verdict_ref(spec, actual, eff)
    return None if got == want else f"{case['which']} verdict {got} but the assertion {'holds' if want else 'does not hold'}"


def check_case(ftrun, case: dict):
    """evaluate the property on one stored case; returns a description of the violation or None"""
    if case["type"] == "match":
        return match_oracle(ftrun, case["t"], case["a"])
    if case["type"] == "verdict":
        return check_verdict_case(ftrun, case)
    if case["type"] == "mock-verdict":
        return mock_verdict_bad(ftrun, case)
    if case["type"] == "history":
        return history_verdicts(case, case["cases"])
    if case["type"] == "stability":
        g.constants_changed()
        _, _, bad = stability_verdicts(case["cases"])
        return bad or g.constants_changed()
    if case["type"] == "constants":
        g.constants_changed()
        sc = {"kind": case["kind"], "fn_spec": case["fn_spec"], "inputs": case["inputs"], "current": case.get("current"),
              "situation": "replay"}
        try:
            ku.run(run_scenario(None, rng("replay"), sc))
        except g.FunctionRaised:
            pass
        return g.constants_changed()
    if case["type"] == "strip":
        try:
            got = ftrun._strip_last_applied_annotation(copy.deepcopy(case["m"]))
        except Exception as e:
            return f"raised {e!r}"
        want = strip_key_only(case["m"])
        return None if g.json_eq(drop_empty_annotations(got), drop_empty_annotations(want)) else "strip mismatch"
    if case["type"] == "e2e":
        if case.get("case") is None:
            return None
        sc = {"kind": case["kind"], "fn_spec": case["fn_spec"], "inputs": case["inputs"], "current": case.get("current"),
              "situation": "replay"}
        try:
            recs = ku.run(run_scenario(None, rng("replay"), sc,
                                       want_cases=[("replay", case["case"], case["must_pass"])]))
        except g.FunctionRaised:
            return None
        if not recs:
            return "the case did not run"
        rec = recs[0]
        if rec["case"] is None:
            return f"the runner did not judge the case: {rec['got']}"
        want = case["must_pass"]
        if want is None:
            want = verdict_ref(rec["case"], rec["out"], rec["eff"])
        if rec["got"] != want:
            return "truthful assertion failed" if want else "deviating assertion passed"
        if rec.get("got_again", rec["got"]) != rec["got"]:
            return f"first run {rec['got']}, second run of the same prepared FunctionTest {rec['got_again']}"
        return None
    return None


def replay_corpus(ck: Check, ftrun):
    if not CORPUS.is_dir():
        return
    for f in sorted(CORPUS.glob("*.json")):
        data = json.loads(f.read_text())
        for case in data.get("cases", [data] if "type" in data else []):
            ck.evaluated()
            ck.count("corpus")
            bad = check_case(ftrun, case)
            if bad:
                ck.violate(case, f"corpus {f.name}: {bad}")


def run(tier: str) -> int:
    from koreo.function_test import run as ftrun

    ck = Check("C19", tier)
    ck.trusted = [
        "Lean 4.33.0 kernel; axioms of every theorem ⊆ {propext, Classical.choice, Quot.sound}",
        "models lean/Koreo/ExactCompare.lean and lean/Koreo/FunctionTest.lean hand-transcribed from "
        "src/koreo/function_test/run.py (repaired by fixes/F6-runner-typed-set, F8-strip-annotation, "
        "F9-runner-map-directed-type); constants regenerated by harness/extractors/FtConsts.py",
        "harness/c19.py + harness/gen_ft.py: unit differential of the comparator, end-to-end FunctionTests; "
        "reference `eqmod_ref` written from the property text",
        "Python `==`/`str()`/`set`/`str.strip`/`str.lower` on JSON scalars (modelled in ExactCompare.lean); "
        "celpy and kr8s only carry values to the runner",
    ]
    ck.assumptions = [
        "expectations are well formed: directive entries have the documented shape, no map-directed member is keyed "
        "by a directive name, map keys unique (Python dicts)",
        "floats are multiples of 1/8 below 1e16 in magnitude; cased characters in messages are ASCII",
        "for a patch, 'the object sent' is read as the object the mock holds afterwards (current resource with the "
        "patch body's top-level keys replaced); an empty metadata.annotations map counts as absent",
    ]
    ck.prove(extractors=["FtConsts"])
    drv = LeanDriver("C19")

    changed = g.constants_changed()
    if changed:
        ck.violate({"type": "constants-at-start"}, changed)
    import time
    phases = ck.cov.setdefault("phase_seconds", {})

    def timed(name, f, *a):
        t0 = time.time()
        f(*a)
        phases[name] = round(phases.get(name, 0) + time.time() - t0, 1)

    phases["prove"] = round(time.time() - ck.t0, 1)
    timed("stability", run_stability, ck, drv, rng("c19-stability"), 3 if tier == "quick" else 20)
    timed("corpus", replay_corpus, ck, ftrun)
    r = rng("c19")
    n_unit = 20000 if tier == "quick" else 300000
    n_e2e = 220 if tier == "quick" else 5000
    n_hist = 90 if tier == "quick" else 2000
    timed("unit", run_unit, ck, drv, ftrun, r, n_unit)
    timed("unit-verdicts", run_unit_verdicts, ck, drv, ftrun, rng("c19-verdicts"), n_unit // 4)
    timed("mock-verdicts", run_mock_verdicts, ck, drv, ftrun, rng("c19-mock-verdicts"), 1200 if tier == "quick" else 20000)
    timed("e2e", run_e2e, ck, drv, rng("c19-e2e"), n_e2e)
    timed("histories", run_histories, ck, drv, rng("c19-history"), n_hist)
    if tier == "thorough":
        ck.leanchecker()

    def widen(ck2: Check):
        run_unit(ck2, drv, ftrun, rng("c19-wide"), 100000)
        run_unit_verdicts(ck2, drv, ftrun, rng("c19-wide-verdicts"), 30000)
        run_mock_verdicts(ck2, drv, ftrun, rng("c19-wide-mock-verdicts"), 8000)
        run_e2e(ck2, drv, rng("c19-wide-e2e"), 1500)
        run_histories(ck2, drv, rng("c19-wide-history"), 800)

    ck.violations.sort(key=lambda v: len(json.dumps(v["case"], default=str)))   # smallest witnesses first
    return ck.finish(
        widen=widen,
        rule="unit: (expected, actual) pairs = truth + one perturbation (changed/retyped leaf, missing/extra key, list "
             "reorder/length, set-list reorder/retype/missing/extra/type, map-list reorder/missing/extra/member/key/type) "
             "over objects with set- and map-directives; end to end: generated Value/ResourceFunctions × situations "
             "(fresh, existing matching/drifted/foreign resource, status trips, readonly, deleteIfExists, input trips) "
             "× every assertion kind, truthful and one-step deviating; multi-case histories (a create/patch/delete "
             "case followed by cases that do not touch the API — precondition trips, in-sync no-op, postcondition "
             "trips — asserted with the EARLIER case's object / delete, variant and non-variant); existing resources "
             "carry foreign metadata (uid, resourceVersion, finalizers, injected labels/annotations) and the truth of "
             "every expectResource is derived from the REQUESTS recorded at the mock's boundary (body, for a patch over "
             "the case's resource with top-level replace), with deviations that list never-sent members; mock-verdict "
             "unit: GET/PATCH/POST/DELETE conversations with the real MockApi over such live objects judged by "
             "_validate_resource_match; non-trivial = any non-truth pair / assertion, "
             "distinct by content",
    )


def replay(path: str) -> int:
    from koreo.function_test import run as ftrun

    data = json.load(open(path))
    rc = 0
    for v in data.get("violations", []):
        bad = check_case(ftrun, v["case"])
        print("replay:", json.dumps(v["case"], default=str)[:600], "::", bad)
        rc = rc or (1 if bad else 0)
    return rc
