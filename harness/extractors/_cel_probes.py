"""Fact tables obtained by PROBING the real code under VERIF_REPO (imported, not read):

  * extractor probes  — small lark trees covering every node type at every position the reference extractor
                        looks at (visited node, receiver of `.`, of a call, of `[]`, index expression, primary
                        child, the `children[0]` descent, literal token types, child counts) plus the parsed
                        odd-receiver expressions -> the key set `extract_argument_structure` returns, or "raised";
  * name probes       — expressions in a step's `inputs` of a real `prepare_workflow` -> the step's recorded
                        dependencies / error class and the workflow's parent properties;
  * overlay probes    — a cached ValueFunction + a ResourceFunction with an `overlayRef` to it -> which inputs the
                        real `_prepare_overlays` reports as missing;
  * gate probes       — schema-violating specs of the five kinds -> PermFail with nothing compiled or looked up.

A behaviour-preserving refactor leaves these tables unchanged, whatever shape the code takes; a behavioural change
that matters to the model shows up as a changed row (and the Lean obligation over the table then fails).
"""
from __future__ import annotations

import copy

from lark import Token, Tree

from gen_cel import KINDS, ODD

POSITIONS = ["top", "dot-root", "idx-root", "arg-root", "idx-term", "prim-child", "idx-descent"]


def T(k, *c):
    return Tree(k, list(c))


def tok(ty, v):
    return Token(ty, v)


def ident(s):
    return T("ident", tok("IDENT", s))


def prim(p):
    return T("primary", p)


def mem(x):
    return T("member", x)


def var(s):
    return mem(prim(ident(s)))


def lift(m):
    return T("expr", T("conditionalor", T("conditionaland", T("relation", T("addition", T("multiplication", T("unary", m)))))))


def lit(ty, v):
    return T("literal", tok(ty, v))


def litexpr(ty, v):
    return lift(mem(prim(lit(ty, v))))


def mdot(m, n):
    return T("member_dot", m, tok("IDENT", n))


def midx(m, e):
    return T("member_index", m, e)


def marg(m, n, *args):
    return T("member_dot_arg", m, tok("IDENT", n), *([T("exprlist", *args)] if args else []))


def canon(k):
    if k == "member_dot":
        return mdot(var("a"), "b")
    if k == "member_index":
        return midx(var("a"), litexpr("STRING_LIT", "'b'"))
    if k == "member_dot_arg":
        return marg(var("a"), "f", litexpr("INT_LIT", "1"))
    if k == "primary":
        return prim(ident("a"))
    if k == "ident":
        return ident("a")
    if k == "literal":
        return lit("STRING_LIT", "'s'")
    if k == "expr":
        return litexpr("STRING_LIT", "'e'")
    return None


def variants(k, full=True):
    out = [T(k)]
    if full:
        out.append(T(k, tok("IDENT", "q")))
    c = canon(k)
    if c is not None:
        out.append(c)
    return out


def synthetic_trees():
    """[(position, kind, tree)]"""
    P, seen = [], set()

    def add(pos, k, tree):
        key = str(tree)
        if key not in seen:
            seen.add(key)
            P.append((pos, k, tree))

    for k in KINDS:
        add("top", k, T(k, var("a"), tok("IDENT", "b")))
        if k != "member_dot":      # (a Tree as the member name would be printed with its repr)
            add("top", k, T(k, var("a"), litexpr("STRING_LIT", "'b'")))
        for r in variants(k):
            add("dot-root", k, mdot(mem(r), "z"))
            add("idx-root", k, midx(mem(r), litexpr("STRING_LIT", "'z'")))
            add("arg-root", k, mdot(mem(marg(mem(r), "f", litexpr("INT_LIT", "1"))), "z"))
            add("prim-child", k, mdot(mem(prim(r)), "z"))
        for r in variants(k, full=False):
            add("idx-term", k, midx(var("a"), r))
            add("idx-descent", k, midx(var("a"), lift(mem(prim(r)))))
    chain = lambda u: T("expr", T("conditionalor", T("conditionaland", T("relation", T("addition", T("multiplication", u))))))
    for e in [chain(T("unary", T("unary_not"), T("unary", var("b")))),
              chain(T("unary", T("unary_neg"), T("unary", var("b")))),
              T("expr", T("conditionalor", T("conditionalor", T("conditionaland", T("relation", T("addition", T("multiplication", T("unary", var("b"))))))),
                          T("conditionaland", T("relation", T("addition", T("multiplication", T("unary", var("c")))))))),
              T("expr", T("conditionalor", T("conditionaland", T("relation",
                          T("relation_lt", T("relation", T("addition", T("multiplication", T("unary", mem(mdot(var("b"), "c"))))))),
                          T("addition", T("multiplication", T("unary", var("d")))))))),
              T("expr"), lift(mem(T("member_object", var("Foo"))))]:
        add("idx-descent", "expr", midx(var("a"), e))
    for ty, txt in [("INT_LIT", "0"), ("INT_LIT", "-7"), ("INT_LIT", "0x1F"), ("UINT_LIT", "1u"), ("FLOAT_LIT", "1.5"),
                    ("STRING_LIT", "'x'"), ("STRING_LIT", '"x"'), ("STRING_LIT", "''"), ("STRING_LIT", '""'),
                    ("STRING_LIT", 'r"x"'), ("MLSTRING_LIT", '"""x"""'), ("MLSTRING_LIT", "'''x'''"),
                    ("BYTES_LIT", 'b"x"'), ("BOOL_LIT", "true"), ("NULL_LIT", "null"), ("STRING_LIT", "'a.b'"),
                    ("STRING_LIT", '"\'x\'"'), ("STRING_LIT", "xx"), ("IDENT", "i")]:
        add("literal-index", "literal", midx(var("a"), litexpr(ty, txt)))
        add("literal-receiver", "literal", mdot(mem(prim(lit(ty, txt))), "z"))
    add("length", "member_dot", T("member_dot"))
    add("length", "member_dot", T("member_dot", var("a")))
    add("length", "member_dot", T("member_dot", var("a"), tok("IDENT", "b"), tok("IDENT", "c")))
    add("length", "member_index", T("member_index"))
    add("length", "member_index", T("member_index", var("a")))
    add("length", "member_index", T("member_index", var("a"), litexpr("INT_LIT", "0"), litexpr("INT_LIT", "1")))
    add("length", "member_dot_arg", mdot(mem(T("member_dot_arg", var("a"), tok("IDENT", "f"))), "z"))
    add("length", "member_dot_arg", mdot(mem(T("member_dot_arg", var("a"), tok("IDENT", "f"), T("exprlist"), T("exprlist"))), "z"))
    add("length", "member_dot_arg", midx(mem(T("member_dot_arg", var("a"), tok("IDENT", "f"))), litexpr("INT_LIT", "0")))
    add("length", "primary", mdot(mem(T("primary")), "z"))
    add("length", "primary", mdot(mem(T("primary", ident("a"), ident("b"))), "z"))
    add("length", "member", mdot(T("member"), "z"))
    add("length", "member", mdot(tok("IDENT", "m"), "z"))
    add("length", "member", midx(T("member"), litexpr("INT_LIT", "0")))
    add("length", "ident", mdot(mem(prim(T("ident"))), "z"))
    add("length", "literal", mdot(mem(prim(T("literal"))), "z"))
    return P


PARSED = ODD + [
    "[inputs.fallback, 0][0] + steps.second.value", "steps.second.value + [inputs.fallback, 0][0]",
    "inputs.items[0x1]", "inputs.flags[0xFF] == 1", "steps.aaa.map(i, i.v + steps['bbb'].w).exists(j, j > steps.ccc.n)",
    "has(steps.aaa.b) ? steps['bbb'] : [steps.ccc]", "f(steps.aaa, g(steps.bbb[steps.ccc.k]))",
    "{steps.aaa: steps.bbb}[steps.ccc]", "Foo{a: steps.aaa, b: [steps.bbb]}", "!steps.aaa.ok && -steps.bbb.n < 3 || steps.ccc in [1]",
    "steps[\"aaa\"]['bbb'][0].ccc", "x.y.z", "a[b.c]", "a[b[c]]",
]


def extractor_probes(cel_env):
    """[(position, kind, tree, sorted keys | None)] — None = the call raised"""
    from koreo.cel.structure_extractor import extract_argument_structure

    rows = []
    for pos, k, t in synthetic_trees():
        rows.append((pos, k, t))
    for src in PARSED:
        rows.append(("parsed", src, cel_env.compile(src)))
    out = []
    for pos, k, t in rows:
        try:
            got = sorted(extract_argument_structure(t))
        except Exception:  # noqa: BLE001  (that it raises is the fact)
            got = None
        out.append((pos, k, t, got))
    return out


# --------------------------------------------------------------------------- names recorded by prepare_workflow

NAME_EXPRS = [
    "steps.aaa", "steps.aaa.b.c", 'steps["bbb"]', "steps['bbb'].x", "steps[0]", "steps.zzz", "steps.probe_last",
    "steps2.x", "stepsX.aaa", "steps_qqq.z", "xsteps.aaa", "inputs.steps.aaa", "parent.a", "parent.a.b",
    'parent["k"].v', "parent2.x", "parental.x", "xparent.a", "has(steps.aaa.x) && parent.y > 1",
    "[steps.aaa, steps.bbb][0]", "f(steps.aaa).g", "steps.aaa + steps.zzz", 'steps["""aaa"""]', "steps.aaa[parent.i]",
    "steps", "parent", "1 + 2", "(steps.qqq).v", "steps.aaa.map(i, i + parent.n)", "steps[inputs.k]",
]
KNOWN_LABELS = ["aaa", "bbb", "qqq"]


def name_probes(cel_env):
    """[(expression, tree of the encoded `inputs`, ("step", deps) | ("err", class) | ("raised",), parent props)]"""
    import koreo_util as ku
    from koreo.cel.prepare import prepare_map_expression
    from koreo.workflow import structure
    from koreo.workflow.prepare import prepare_workflow

    ku.reset()
    ku.run(ku.offer_value_function("probe_fn", {"return": {"v": "=inputs.v"}}))
    out = []
    for src in NAME_EXPRS:
        inputs = {"v": "=" + src}
        runner = prepare_map_expression(cel_env=cel_env, spec=inputs, location="probe")
        spec = {"steps": [{"label": l, "ref": {"kind": "ValueFunction", "name": "probe_fn"}} for l in KNOWN_LABELS]
                + [{"label": "probe_last", "ref": {"kind": "ValueFunction", "name": "probe_fn"}, "inputs": inputs}]}
        try:
            got = ku.run(prepare_workflow("probe-wf", copy.deepcopy(spec)))
            if not isinstance(got, tuple):
                obs, pp = ("gate",), []
            else:
                last = got[0].steps[-1]
                if isinstance(last, structure.ErrorStep):
                    obs = ("err", ku.outcome_class(last.outcome))
                else:
                    obs = ("step", sorted("<None>" if d is None else str(d) for d in last.dynamic_input_keys))
                pp = sorted(str(x) for x in got[0].dynamic_input_keys)
        except Exception:  # noqa: BLE001
            obs, pp = ("raised",), []
        out.append((src, runner.ast, obs, pp))
    ku.reset()
    return out


# --------------------------------------------------------------------------- overlayRef input check

OVERLAY_CASES = [
    (["inputs.x"], []), (["inputs.x"], ["x"]), (["inputs.x", "inputs.y.z"], ["x"]), (["inputs2.zone"], []),
    (["inputs.x", "inputs2.zone"], []), (["inputs.x", "inputs2.zone"], ["x"]), (['inputs[".zone"]', "inputs.a"], ["b"]),
    (['inputs["zone"]', "inputs[0]"], ["zone"]), (["inputsX", "steps.q", "parent.r"], []), (["inputs.a", "inputs.b", "inputs.c"], ["b"]),
    (["inputs_extra.y", "inputs.x", 'inputs[".k"]'], []), (["inputs[inputs.k]"], ["k"]), (["1 + 2"], []),
]


def overlay_probes():
    """[(dynamic_input_keys of the cached function, provided, ("complete",) | ("missing", names) | ("raised",) | ("other", cls))]"""
    import re

    import koreo_util as ku
    from koreo import cache
    from koreo.resource_function.prepare import prepare_resource_function
    from koreo.value_function.structure import ValueFunction

    ku.reset()
    out = []
    for i, (exprs, provided) in enumerate(OVERLAY_CASES):
        name = f"probe_vf_{i}"
        ku.run(ku.offer_value_function(name, {"return": {f"r{j}": "=" + e for j, e in enumerate(exprs)}}))
        vf = cache.get_resource_from_cache(resource_class=ValueFunction, cache_key=name)
        keys = sorted(vf.dynamic_input_keys) if vf is not None and hasattr(vf, "dynamic_input_keys") else []
        ov = {"overlayRef": {"kind": "ValueFunction", "name": name}}
        if provided:
            ov["inputs"] = {g: "=inputs." + g for g in provided}
        spec = {"apiConfig": {"apiVersion": "v1", "kind": "ConfigMap", "name": "n", "namespace": "ns"},
                "resource": {"data": {"k": "v"}}, "overlays": [ov]}
        try:
            got = ku.run(prepare_resource_function("probe-rf", copy.deepcopy(spec)))
            if not isinstance(got, tuple):
                obs = ("other", ku.outcome_class(got))
            else:
                overlays = got[0].crud_config.overlays
                cls = ku.outcome_class(overlays)
                if cls == "ok":
                    obs = ("complete",)
                elif cls == "permFail" and "expected the following inputs" in (overlays.message or ""):
                    obs = ("missing", sorted(re.findall(r'"([^"]*)"',
                                                        overlays.message.split("expected the following inputs", 1)[1])))
                else:
                    obs = ("other", cls)
        except Exception:  # noqa: BLE001
            obs = ("raised",)
        out.append((keys, list(provided), obs))
    ku.reset()
    return out


# --------------------------------------------------------------------------- the schema gate

def gate_probes():
    """[(kind, description, rejected with PermFail and nothing compiled / looked up before)]"""
    import celpy
    import koreo.cache
    import koreo.function_test.prepare
    import koreo.workflow.prepare
    import koreo_util as ku
    from koreo.function_test.prepare import prepare_function_test
    from koreo.resource_function.prepare import prepare_resource_function
    from koreo.resource_template.prepare import prepare_resource_template
    from koreo.value_function.prepare import prepare_value_function
    from koreo.workflow.prepare import prepare_workflow

    counts = {"n": 0}
    orig_compile = celpy.Environment.compile
    orig_get = koreo.cache.get_resource_from_cache

    def compile_(self, *a, **k):
        counts["n"] += 1
        return orig_compile(self, *a, **k)

    def get_(*a, **k):
        counts["n"] += 1
        return orig_get(*a, **k)

    patched = [(celpy.Environment, "compile", orig_compile, compile_), (koreo.cache, "get_resource_from_cache", orig_get, get_)]
    for mod in (koreo.workflow.prepare, koreo.function_test.prepare):
        cur = getattr(mod, "get_resource_from_cache", None)
        if cur is not None:
            patched.append((mod, "get_resource_from_cache", cur, get_))
    invalid = {
        "ValueFunction": (prepare_value_function, [{"return": 5}, {"preconditions": [{"assert": "=true"}], "return": {"a": "=1"}},
                                                   {"locals": {"a": "=1"}}]),
        "ResourceFunction": (prepare_resource_function, [
            {"resource": {"a": "=1"}}, {"apiConfig": {"apiVersion": "v1", "kind": "X", "name": "=inputs.n"}},
            {"apiConfig": {"apiVersion": "v1", "kind": "X", "name": "=inputs.n"}, "resource": {"a": "=1"}, "resourceTemplateRef": {"name": "=inputs.t"}}]),
        "ResourceTemplate": (prepare_resource_template, [{}, {"template": "x"}, {"context": {"a": 1}}]),
        "Workflow": (prepare_workflow, [{}, {"steps": [{"ref": {"kind": "ValueFunction", "name": "probe_fn"}, "skipIf": "=true"}]},
                                        {"steps": [{"label": "abc", "ref": {"kind": "ValueFunction", "name": "probe_fn"},
                                                    "refSwitch": {"switchOn": "=1", "cases": [{"case": "a", "kind": "ValueFunction", "name": "probe_fn"}]}}]}]),
        "FunctionTest": (prepare_function_test, [{}, {"functionRef": {"kind": "Workflow", "name": "x"}},
                                                 {"functionRef": {"kind": "ValueFunction", "name": "probe_fn"}, "testCases": [{"expectDelete": "no"}]}]),
    }
    out = []
    try:
        for obj, attr, _, new in patched:
            setattr(obj, attr, new)
        for kind, (prep, specs) in invalid.items():
            for i, spec in enumerate(specs):
                counts["n"] = 0
                try:
                    got = ku.run(prep("probe", copy.deepcopy(spec)))
                    okay = (not isinstance(got, tuple)) and ku.outcome_class(got) == "permFail" and counts["n"] == 0
                except Exception:  # noqa: BLE001
                    okay = False
                out.append((kind, i, okay))
    finally:
        for obj, attr, old, _ in patched:
            setattr(obj, attr, old)
    return out
