"""C10 translator piece: regenerates lean/Koreo/Gen/EvalSites.lean from the current sources.

  * every call of `evaluate` / `evaluate_predicates` / `evaluate_overlay` in the three reconcile
    modules, as (module, last constant piece of its `location=` text) — the model's `Site` type
    must list exactly these, so a new evaluation site breaks `sites_match_source`;
  * the shape of `check_for_celevalerror` (maps: key and value; lists and tuples: items);
  * for each of the three evaluators: the scan follows the celpy call inside the `try`, there is
    a handler for `celpy.CELEvalError` and a catch-all, and every handler returns a PermFail.
"""
from __future__ import annotations

import ast

from common import REPO
from extract import _sha, _write, lean_str

SRC = REPO / "src" / "koreo"
MODULES = {
    "vf": SRC / "value_function" / "reconcile.py",
    "rf": SRC / "resource_function" / "reconcile" / "__init__.py",
    "wf": SRC / "workflow" / "reconcile.py",
}
EVALUATORS = ("evaluate", "evaluate_predicates", "evaluate_overlay")


def _last_const(node) -> str | None:
    if isinstance(node, ast.Constant) and isinstance(node.value, str):
        return node.value
    if isinstance(node, ast.JoinedStr):
        consts = [p.value for p in node.values if isinstance(p, ast.Constant) and isinstance(p.value, str)]
        return consts[-1] if consts else ""
    return None


def _call_name(call: ast.Call) -> str | None:
    f = call.func
    if isinstance(f, ast.Name):
        return f.id
    if isinstance(f, ast.Attribute):
        return f.attr
    return None


def _returns_permfail(stmts) -> bool:
    rets = [n for s in stmts for n in ast.walk(s) if isinstance(n, ast.Return)]
    if not rets:
        return False
    for r in rets:
        v = r.value
        if not (isinstance(v, ast.Call) and _call_name(v) == "PermFail"):
            return False
    return True


def _unguarded_call(stmts, name: str) -> bool:
    """is `name(…)` called in these statements outside of any nested `try`?"""
    def walk(node) -> bool:
        if isinstance(node, ast.Try):
            # calls in the guarded body are fine; handlers / else / finally are not guarded by it
            return any(walk(x) for part in (node.handlers, node.orelse, node.finalbody) for x in part)
        if isinstance(node, ast.Call) and _call_name(node) == name:
            return True
        return any(walk(c) for c in ast.iter_child_nodes(node))
    return any(walk(s) for s in stmts)


def extract() -> dict:
    info: dict = {"files": {k: str(p) for k, p in MODULES.items()}}
    ok = True
    sites: list[tuple[str, str, str]] = []
    try:
        for mod, path in MODULES.items():
            info[f"sha_{mod}"] = _sha(path)
            tree = ast.parse(path.read_text())
            found = set()
            for n in ast.walk(tree):
                if isinstance(n, ast.Call) and _call_name(n) in EVALUATORS:
                    loc = next((k.value for k in n.keywords if k.arg == "location"), None)
                    if loc is None and len(n.args) >= 3:
                        loc = n.args[2]
                    if loc is None and len(n.args) == 4:
                        loc = n.args[3]
                    text = _last_const(loc) if loc is not None else None
                    if text is None:
                        ok = False
                        text = "?"
                    found.add((mod, _call_name(n), text))
            sites.extend(sorted(found))
    except Exception as e:
        ok = False
        info["error_sites"] = repr(e)

    scan = {"keys": False, "values": False, "items": False, "maps": [], "lists": []}
    evaluators: dict[str, dict] = {}
    try:
        epath = SRC / "cel" / "evaluation.py"
        info["sha_evaluation"] = _sha(epath)
        etree = ast.parse(epath.read_text())
        fns = {n.name: n for n in etree.body if isinstance(n, ast.FunctionDef)}
        fn = fns["check_for_celevalerror"]
        for m in [n for n in ast.walk(fn) if isinstance(n, ast.Match)]:
            for c in m.cases:
                classes = sorted({ast.unparse(p.cls).split(".")[-1] for p in ast.walk(c.pattern)
                                  if isinstance(p, ast.MatchClass)})
                for loop in [n for s in c.body for n in ast.walk(s) if isinstance(n, ast.For)]:
                    it = loop.iter
                    over_items = (isinstance(it, ast.Call) and isinstance(it.func, ast.Attribute)
                                  and it.func.attr == "items")
                    called_on = {c2.args[0].id for s in loop.body for c2 in ast.walk(s)
                                 if isinstance(c2, ast.Call) and _call_name(c2) == "check_for_celevalerror"
                                 and c2.args and isinstance(c2.args[0], ast.Name)}
                    if over_items and isinstance(loop.target, ast.Tuple) and len(loop.target.elts) == 2:
                        k, v = (e.id for e in loop.target.elts)
                        scan["keys"] = scan["keys"] or k in called_on
                        scan["values"] = scan["values"] or v in called_on
                        scan["maps"] = classes
                    elif isinstance(loop.target, ast.Name):
                        scan["items"] = scan["items"] or loop.target.id in called_on
                        scan["lists"] = classes
        for name in EVALUATORS:
            f = fns[name]
            tries = [n for n in ast.walk(f) if isinstance(n, ast.Try)]
            d = {"scan_after_eval": False, "catches_celevalerror": False, "catch_all": False,
                 "handlers_permfail": False, "handlers_cannot_raise": False}
            if len(tries) == 1:
                t = tries[0]
                ev = [n.lineno for s in t.body for n in ast.walk(s)
                      if isinstance(n, ast.Call) and isinstance(n.func, ast.Attribute) and n.func.attr == "evaluate"]
                sc = [n.lineno for s in t.body for n in ast.walk(s)
                      if isinstance(n, ast.Call) and _call_name(n) == "check_for_celevalerror"]
                d["scan_after_eval"] = bool(ev) and bool(sc) and min(sc) > min(ev)
                caught = [ast.unparse(h.type) if h.type is not None else "*" for h in t.handlers]
                d["catches_celevalerror"] = any(c.endswith("CELEvalError") for c in caught)
                d["catch_all"] = any(c in ("*", "Exception", "BaseException") for c in caught)
                d["handlers_permfail"] = bool(t.handlers) and all(_returns_permfail(h.body) for h in t.handlers)
                # F10: celpy's tree_dump can raise; an except-arm must not call it unguarded (an exception raised
                # inside one arm is not caught by its siblings)
                d["handlers_cannot_raise"] = not any(_unguarded_call(h.body, "tree_dump") for h in t.handlers)
            evaluators[name] = d
    except Exception as e:
        ok = False
        info["error_scan"] = repr(e)

    def b(x):
        return "true" if x else "false"

    # a dedicated CELEvalError handler is recorded but not required: the catch-all already answers PermFail
    ev_ok = bool(evaluators) and all(d["scan_after_eval"] and d["catch_all"] and d["handlers_permfail"]
                                     and d["handlers_cannot_raise"] for d in evaluators.values())
    lines = [
        "-- REGENERATED by harness/extractors/EvalSites.py from src/koreo/cel/evaluation.py and the three",
        "-- reconcile modules on every run; do not edit.",
        "namespace Koreo.Gen.EvalSites",
        f"def extractionOk : Bool := {b(ok)}",
        "/-- (module, evaluator, last constant piece of the location text) of every evaluation call -/",
        "def sites : List (String × String × String) := [",
        ",\n".join(f"  ({lean_str(m)}, {lean_str(e)}, {lean_str(t)})" for m, e, t in sites),
        "]",
        f"def scanChecksKeys : Bool := {b(scan['keys'])}",
        f"def scanChecksValues : Bool := {b(scan['values'])}",
        f"def scanChecksItems : Bool := {b(scan['items'])}",
        "def scanMapClasses : List String := [" + ", ".join(lean_str(c) for c in scan["maps"]) + "]",
        "def scanListClasses : List String := [" + ", ".join(lean_str(c) for c in scan["lists"]) + "]",
        f"def evaluatorsGuarded : Bool := {b(ev_ok)}",
        "end Koreo.Gen.EvalSites",
        "",
    ]
    changed = _write("EvalSites.lean", "\n".join(lines))
    info.update({"ok": ok, "rewritten": changed, "sites": sites, "scan": scan, "evaluators": evaluators})
    return info
