"""C13 translator piece: regenerates lean/Koreo/Gen/PredicateTable.lean from
src/koreo/predicate_helpers.py (the filter condition of `predicate_extractor` and the
ordered `case` table of `predicate_to_koreo_result`) and from src/koreo/cel/evaluation.py
(`evaluate_predicates`: scan before the structural match; both handlers return PermFail)."""
from __future__ import annotations

import ast

from common import REPO
from extract import _sha, _write, lean_str

SRC = REPO / "src" / "koreo"


def _ret_class(stmts):
    """what a case body returns: 'continue' (None) | result-class name | None (not understood)"""
    if not stmts or not isinstance(stmts[-1], ast.Return):
        return None
    v = stmts[-1].value
    if v is None or (isinstance(v, ast.Constant) and v.value is None):
        return "continue"
    if isinstance(v, ast.Call):
        f = v.func
        name = f.attr if isinstance(f, ast.Attribute) else f.id if isinstance(f, ast.Name) else None
        if name in ("DepSkip", "Skip", "Retry", "PermFail", "Ok"):
            return name
    return None


def extract() -> dict:
    path = SRC / "predicate_helpers.py"
    epath = SRC / "cel" / "evaluation.py"
    info = {"file": str(path), "sha": _sha(path) if path.exists() else None,
            "file2": str(epath), "sha2": _sha(epath) if epath.exists() else None}
    ok = True
    suffix = ""
    cases: list[tuple[str, str]] = []
    every_case_returns = False
    scan_first = False
    handlers_permfail = False
    try:
        tree = ast.parse(path.read_text())
        fns = {n.name: n for n in tree.body if isinstance(n, ast.FunctionDef)}
        # ---- predicate_extractor: the f-string  f"{predicates}<suffix>"  that carries the filter macro
        for n in ast.walk(fns["predicate_extractor"]):
            if isinstance(n, ast.JoinedStr):
                consts = [p.value for p in n.values if isinstance(p, ast.Constant) and isinstance(p.value, str)]
                if any(".filter(" in c for c in consts):
                    parts = n.values
                    if (len(parts) == 2 and isinstance(parts[0], ast.FormattedValue)
                            and isinstance(parts[1], ast.Constant) and not suffix):
                        suffix = parts[1].value
                    else:
                        ok = False
        if not suffix:
            ok = False
        # ---- predicate_to_koreo_result: for predicate in predicates: match predicate: case …
        fn = fns["predicate_to_koreo_result"]
        loops = [n for n in ast.walk(fn) if isinstance(n, ast.For)]
        matches = [n for n in ast.walk(fn) if isinstance(n, ast.Match)]
        if len(matches) != 1 or len(loops) > 1 or (loops and loops[0].body != [matches[0]]):
            ok = False
        else:
            m = matches[0]
            every_case_returns = True
            for c in m.cases:
                rc = _ret_class(c.body)
                if rc is None or c.guard is not None:
                    ok = False
                    every_case_returns = False
                    rc = rc or "?"
                p = c.pattern
                if isinstance(p, ast.MatchMapping):
                    keys = [k.value for k in p.keys if isinstance(k, ast.Constant)]
                    if len(keys) != len(p.keys) or "assert" not in keys or len(keys) != 2 or p.rest is not None:
                        ok = False
                    kind = [k for k in keys if k != "assert"]
                    cases.append((kind[0] if kind else "?", rc))
                elif isinstance(p, ast.MatchAs) and p.pattern is None:
                    cases.append(("_", rc))
                else:
                    ok = False
        # ---- evaluate_predicates: scan of the raw result comes before predicate_to_koreo_result,
        #      and every exception handler returns a PermFail
        etree = ast.parse(epath.read_text())
        efn = next(n for n in etree.body if isinstance(n, ast.FunctionDef) and n.name == "evaluate_predicates")
        tries = [n for n in efn.body if isinstance(n, ast.Try)]
        if len(tries) == 1:
            def first_call(name):
                ls = [n.lineno for st in tries[0].body for n in ast.walk(st)
                      if isinstance(n, ast.Call) and ast.unparse(n.func).split(".")[-1] == name]
                return min(ls) if ls else None
            i_scan, i_res = first_call("check_for_celevalerror"), first_call("predicate_to_koreo_result")
            scan_first = i_scan is not None and i_res is not None and i_scan < i_res
            hs = tries[0].handlers
            handlers_permfail = bool(hs) and all(_ret_class(h.body) == "PermFail" for h in hs)
            caught = {ast.unparse(h.type) if h.type is not None else "*" for h in hs}
            if not ({"Exception", "*"} & caught):
                handlers_permfail = False
        else:
            ok = False
    except Exception as e:  # unreadable source: the obligation breaks
        ok = False
        info["error"] = repr(e)
    lines = [
        "-- REGENERATED by harness/extractors/Predicates.py from src/koreo/predicate_helpers.py and",
        "-- src/koreo/cel/evaluation.py on every run; do not edit.",
        "namespace Koreo.Gen.PredicateTable",
        f"def extractionOk : Bool := {'true' if ok else 'false'}",
        f"def filterSuffix : String := {lean_str(suffix)}",
        "def cases : List (String × String) := [" + ", ".join(
            f"({lean_str(k)}, {lean_str(r)})" for k, r in cases) + "]",
        f"def everyCaseReturns : Bool := {'true' if every_case_returns else 'false'}",
        f"def scanBeforeMatch : Bool := {'true' if scan_first else 'false'}",
        f"def handlersReturnPermFail : Bool := {'true' if handlers_permfail else 'false'}",
        "end Koreo.Gen.PredicateTable",
        "",
    ]
    changed = _write("PredicateTable.lean", "\n".join(lines))
    info.update({"ok": ok, "rewritten": changed, "filter_suffix": suffix, "cases": cases,
                 "every_case_returns": every_case_returns, "scan_before_match": scan_first,
                 "handlers_return_permfail": handlers_permfail})
    return info
