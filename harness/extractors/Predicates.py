"""C13 translator piece: regenerates lean/Koreo/Gen/PredicateTable.lean.

The facts the theorems compare with the model are obtained by **probing the real functions** of the
tree under VERIF_REPO on a small fixed input table (so that a refactoring that keeps the behaviour
keeps the table, whatever its statement shapes are):

  * `predicate_extractor`  — compiled on assertion patterns (true / false / non-boolean at each
    position) and evaluated: which predicates survive, in which order, or an error;
  * `predicate_to_koreo_result` — outcome class per assertion kind, the order in which the kinds
    are tried (a predicate carrying two kind keys), "only the first remaining predicate decides",
    the conversion of a retry delay;
  * `evaluate_predicates` — on stand-in programs that raise / return a list with an error object
    in the first or in a later survivor / return something that is not a list.

A syntactic scan of the source is kept as a *secondary* signal: it reports "yes", "no" or
"unknown"; only a definite "no" breaks an obligation.
"""
from __future__ import annotations

import ast
import itertools

from common import REPO
from extract import _sha, _write, lean_str

SRC = REPO / "src" / "koreo"

KINDS = ["ok", "depSkip", "skip", "retry", "permFail"]
# (name, assertion values): t = true, f = false, n = not a boolean
PATTERNS = ["", "t", "f", "n", "tt", "tf", "ft", "ff", "tn", "nt", "fn", "nf", "ftf", "tff", "fnf", "fft"]


def _cls(o) -> str:
    if o is None:
        return "continue"
    return type(o).__name__


def _probe() -> dict:
    """run the real code; every entry is a plain string so that a crash shows up as a differing fact"""
    import celpy
    from celpy import celtypes

    from koreo.cel import evaluation
    from koreo.cel.functions import koreo_function_annotations
    from koreo.predicate_helpers import predicate_extractor, predicate_to_koreo_result

    def safe(fn):
        try:
            return fn()
        except BaseException as e:  # a fact, not a failure of the translator
            return f"raised:{type(e).__name__}"

    def pred(kind_bodies: dict):
        return {"assert": False, **kind_bodies}

    def body(kind, msg="m", delay=7):
        if kind == "ok":
            return {}
        if kind == "retry":
            return {"message": msg, "delay": delay}
        return {"message": msg}

    def result_of(preds):
        return predicate_to_koreo_result(celpy.json_to_cel(preds), location="L")

    facts: dict = {}

    # ---- outcome class per kind; unknown key; no key
    per_kind = {k: safe(lambda k=k: _cls(result_of([pred({k: body(k)})]))) for k in KINDS}
    per_kind["_"] = safe(lambda: _cls(result_of([pred({"warn": {"message": "m"}})])))
    facts["bare"] = safe(lambda: _cls(result_of([{"assert": False}])))

    # ---- the order in which the kinds are tried: a predicate that carries two kind keys
    beats = {k: 0 for k in KINDS}
    order_ok = True
    for a, b in itertools.combinations(KINDS, 2):
        got = safe(lambda a=a, b=b: _cls(result_of([pred({b: body(b), a: body(a)})])))
        if got == per_kind[a] and got != per_kind[b]:
            beats[a] += 1
        elif got == per_kind[b] and got != per_kind[a]:
            beats[b] += 1
        else:
            order_ok = False
    order = sorted(KINDS, key=lambda k: -beats[k])
    if sorted(beats.values()) != list(range(len(KINDS))):
        order_ok = False
    facts["cases"] = [(k, per_kind[k]) for k in order] + [("_", per_kind["_"])]
    facts["order_ok"] = order_ok

    # ---- only the first remaining predicate decides; its own message / delay are returned
    def first_only():
        out = []
        r1 = result_of([pred({"skip": body("skip", "first")}), pred({"permFail": body("permFail", "second")})])
        out.append(("skip first; permFail second", f"{_cls(r1)}:{getattr(r1, 'message', None)}"))
        r2 = result_of([pred({"ok": {}}), pred({"permFail": body("permFail", "second")})])
        out.append(("ok; permFail second", _cls(r2)))
        r3 = result_of([pred({"retry": body("retry", "wait", 9)}), pred({"skip": body("skip", "later")})])
        out.append(("retry 9 wait; skip later", f"{_cls(r3)}:{getattr(r3, 'message', None)}:{getattr(r3, 'delay', None)}"))
        r4 = result_of([])
        out.append(("empty", _cls(r4)))
        return out
    fo = safe(first_only)
    facts["first_only"] = fo if isinstance(fo, list) else [("probe", fo)]

    # ---- retry delay conversion
    delays = [("0", celtypes.IntType(0)), ("7", celtypes.IntType(7)), ("-1", celtypes.IntType(-1)),
              ("true", celtypes.BoolType(True)), ("false", celtypes.BoolType(False)),
              ('"12"', celtypes.StringType("12")), ('"1.0"', celtypes.StringType("1.0")),
              ('"abc"', celtypes.StringType("abc")), ("2.0", celtypes.DoubleType(2.0)),
              ("1.5", celtypes.DoubleType(1.5)), ("null", None), ("[1]", celtypes.ListType([celtypes.IntType(1)]))]

    def delay_fact(v):
        p = celtypes.MapType({celtypes.StringType("assert"): celtypes.BoolType(False),
                              celtypes.StringType("retry"): celtypes.MapType({
                                  celtypes.StringType("message"): celtypes.StringType("m"),
                                  celtypes.StringType("delay"): v})})
        r = predicate_to_koreo_result(celtypes.ListType([p]), location="L")
        if _cls(r) == "Retry":
            return str(int(r.delay)) if isinstance(r.delay, int) and not isinstance(r.delay, bool) else f"odd:{r.delay!r}"
        return "invalid" if _cls(r) == "PermFail" else _cls(r)
    facts["delays"] = [(name, safe(lambda v=v: delay_fact(v))) for name, v in delays]

    # ---- the filter program built by predicate_extractor
    env = celpy.Environment(annotations=koreo_function_annotations)
    src = {"t": "=true", "f": "=false", "n": '="x"'}

    def filter_fact(pat):
        if not pat:
            prog = predicate_extractor(env, [])
            return "none" if prog is None else "program"
        spec = [{"assert": src[c], "skip": {"message": f"{i}"}} for i, c in enumerate(pat)]
        prog = predicate_extractor(env, spec)
        if not isinstance(prog, celpy.Runner):
            return f"prepare:{_cls(prog)}"
        try:
            v = prog.evaluate({})
        except celpy.CELEvalError:
            return "error"
        if isinstance(v, celpy.CELEvalError):
            return "error"
        return "[" + ",".join(str(p["skip"]["message"]) for p in v) + "]"
    facts["filter"] = [(pat, safe(lambda pat=pat: filter_fact(pat))) for pat in PATTERNS]

    # ---- evaluate_predicates on stand-in programs
    class Prog:
        def __init__(self, act):
            self.act = act

        def evaluate(self, activation):
            return self.act()

    def raises(exc):
        def act():
            raise exc
        return act

    def skip_pred(msg):
        return celtypes.MapType({celtypes.StringType("assert"): celtypes.BoolType(False),
                                 celtypes.StringType("skip"): celtypes.MapType({celtypes.StringType("message"): msg})})
    err = celpy.CELEvalError("planted")
    stimuli = [
        ("raises CELEvalError", raises(celpy.CELEvalError("boom"))),
        ("raises ValueError", raises(ValueError("boom"))),
        ("returns an error value", lambda: celpy.CELEvalError("boom")),
        ("error in the first survivor", lambda: celtypes.ListType([skip_pred(err), skip_pred(celtypes.StringType("b"))])),
        ("error in a later survivor", lambda: celtypes.ListType([skip_pred(celtypes.StringType("a")), skip_pred(err)])),
        ("not a list", lambda: celtypes.MapType({})),
        ("clean: skip a; skip b", lambda: celtypes.ListType([skip_pred(celtypes.StringType("a")),
                                                            skip_pred(celtypes.StringType("b"))])),
        ("no survivor", lambda: celtypes.ListType([])),
    ]

    def ep_fact(act):
        r = evaluation.evaluate_predicates(Prog(act), {"inputs": celtypes.MapType({})}, "L")
        c = _cls(r)
        return f"{c}:{r.message}" if c == "Skip" else c
    facts["evaluate_predicates"] = [(name, safe(lambda act=act: ep_fact(act))) for name, act in stimuli]
    facts["no_program"] = safe(lambda: _cls(evaluation.evaluate_predicates(None, {}, "L")))
    return facts


def _syntactic(path, epath) -> dict:
    """secondary signal; 'unknown' whenever the shape is not one the scan knows"""
    out = {"filter_suffix": "unknown", "scan_before_match": "unknown"}
    try:
        tree = ast.parse(path.read_text())
        fns = {n.name: n for n in tree.body if isinstance(n, ast.FunctionDef)}
        suffixes = []
        for n in ast.walk(fns["predicate_extractor"]):
            if isinstance(n, ast.JoinedStr):
                parts = n.values
                consts = [p.value for p in parts if isinstance(p, ast.Constant) and isinstance(p.value, str)]
                if any(".filter(" in c for c in consts) and len(parts) == 2 and isinstance(parts[1], ast.Constant):
                    suffixes.append(parts[1].value)
        if len(suffixes) == 1:
            out["filter_suffix"] = suffixes[0]
    except Exception:
        pass
    try:
        etree = ast.parse(epath.read_text())
        efns = {n.name: n for n in etree.body if isinstance(n, ast.FunctionDef)}

        def lines(fn, name, depth=2):
            """line numbers (in the entry function) of calls that reach `name`, following module-level helpers"""
            res = []
            for n in ast.walk(fn):
                if isinstance(n, ast.Call):
                    callee = ast.unparse(n.func).split(".")[-1]
                    if callee == name:
                        res.append(n.lineno)
                    elif depth and callee in efns and callee != fn.name and lines(efns[callee], name, depth - 1):
                        res.append(n.lineno)
            return res
        fn = efns["evaluate_predicates"]
        scan, res = lines(fn, "check_for_celevalerror"), lines(fn, "predicate_to_koreo_result")
        if scan and res:
            out["scan_before_match"] = "yes" if min(scan) < min(res) else "no"
    except Exception:
        pass
    return out


def extract() -> dict:
    path = SRC / "predicate_helpers.py"
    epath = SRC / "cel" / "evaluation.py"
    info = {"file": str(path), "sha": _sha(path) if path.exists() else None,
            "file2": str(epath), "sha2": _sha(epath) if epath.exists() else None}
    ok = True
    try:
        facts = _probe()
    except Exception as e:  # the functions could not even be imported / called: the obligation breaks
        ok = False
        info["error"] = repr(e)
        facts = {"cases": [], "order_ok": False, "first_only": [], "delays": [], "filter": [],
                 "evaluate_predicates": [], "no_program": "?", "bare": "?"}
    syn = _syntactic(path, epath)

    def pairs(xs):
        return "[" + ", ".join(f"({lean_str(a)}, {lean_str(b)})" for a, b in xs) + "]"

    lines = [
        "-- REGENERATED by harness/extractors/Predicates.py on every run (facts probed from the real functions of the",
        "-- tree under VERIF_REPO + a secondary syntactic scan); do not edit.",
        "namespace Koreo.Gen.PredicateTable",
        f"def extractionOk : Bool := {'true' if ok else 'false'}",
        "/-- (kind key, outcome class), in the order in which the kinds are tried -/",
        f"def cases : List (String × String) := {pairs(facts['cases'])}",
        f"def orderDetermined : Bool := {'true' if facts['order_ok'] else 'false'}",
        f"def bareOutcome : String := {lean_str(facts['bare'])}",
        f"def firstOnly : List (String × String) := {pairs(facts['first_only'])}",
        f"def delays : List (String × String) := {pairs(facts['delays'])}",
        "/-- assertion pattern (t/f/n per position) ↦ surviving positions, or error -/",
        f"def filterProbe : List (String × String) := {pairs(facts['filter'])}",
        f"def evaluatePredicates : List (String × String) := {pairs(facts['evaluate_predicates'])}",
        f"def noProgram : String := {lean_str(facts['no_program'])}",
        "-- secondary, syntactic (\"unknown\" when the source has a shape the scan does not know)",
        f"def filterSuffix : String := {lean_str(syn['filter_suffix'])}",
        f"def scanBeforeMatch : String := {lean_str(syn['scan_before_match'])}",
        "end Koreo.Gen.PredicateTable",
        "",
    ]
    changed = _write("PredicateTable.lean", "\n".join(lines))
    info.update({"ok": ok, "rewritten": changed, "facts": facts, "syntactic": syn})
    return info
