"""C14 / C20 translator piece: regenerates lean/Koreo/Gen/CelTables.lean from

  * celpy's grammar as lark compiled it (every rule alternative, which terminals are filtered
    out of the tree, the `__x_star_n` helper rules),
  * src/koreo/cel/structure_extractor.py (the `x.data == "…"` sets of every if-chain, and for
    each `raise` whether the visiting loop catches that exception),
  * src/koreo/workflow/prepare.py (the two name patterns),
  * the five `prepare_*` coroutines (is the schema gate the first thing that does anything).

A rule / kind / terminal name the model does not know becomes an unknown constructor in the
generated file, i.e. a build failure of every theorem that mentions the tables.
"""
from __future__ import annotations

import ast
import hashlib
import re
from pathlib import Path

from common import LEAN, REPO

GEN = LEAN / "Koreo" / "Gen"
SRC = REPO / "src" / "koreo"

TOKS = ["IDENT", "UINT_LIT", "FLOAT_LIT", "INT_LIT", "MLSTRING_LIT", "STRING_LIT", "BYTES_LIT", "BOOL_LIT",
        "NULL_LIT"]

PREPARES = [
    ("value_function/prepare.py", "prepare_value_function"),
    ("resource_function/prepare.py", "prepare_resource_function"),
    ("resource_template/prepare.py", "prepare_resource_template"),
    ("workflow/prepare.py", "prepare_workflow"),
    ("function_test/prepare.py", "prepare_function_test"),
]


def _sha(p: Path) -> str:
    return hashlib.sha256(p.read_bytes()).hexdigest()[:16]


def lean_str(s: str) -> str:
    out = ['"']
    for ch in s:
        if ch == '"':
            out.append('\\"')
        elif ch == "\\":
            out.append("\\\\")
        elif ch == "\n":
            out.append("\\n")
        elif ch == "\t":
            out.append("\\t")
        elif ord(ch) < 32 or ord(ch) == 127:
            out.append("\\x%02x" % ord(ch))
        else:
            out.append(ch)
    out.append('"')
    return "".join(out)


def _ident(name: str) -> str:
    """a Lean constructor name for a rule / terminal name (unknown ones break the build, on purpose)"""
    return name if re.fullmatch(r"[A-Za-z_][A-Za-z0-9_]*", name) else "«" + name + "»"


# --------------------------------------------------------------------------- grammar

def grammar_rules():
    """[(origin, [sym…])] from lark's compiled rules of celpy's parser"""
    from celpy.celparser import CELParser

    CELParser()
    parser = CELParser.CEL_PARSER
    out = []
    helpers: dict[str, int] = {}

    def helper_id(name: str) -> int:
        if name not in helpers:
            m = re.search(r"_(\d+)$", name)
            helpers[name] = int(m.group(1)) if m else 1000 + len(helpers)
        return helpers[name]

    for r in parser.rules:
        o = r.origin.name
        o = str(o)
        origin = ("helper", helper_id(o)) if o.startswith("_") else ("rule", o)
        rhs = []
        for s in r.expansion:
            n = str(s.name)
            if s.is_term:
                rhs.append(("anon",) if getattr(s, "filter_out", False) else ("tk", n))
            elif n.startswith("_"):
                rhs.append(("inl", helper_id(n)))
            else:
                rhs.append(("nt", n))
        opts = r.options
        flags = bool(getattr(opts, "keep_all_tokens", False)) or bool(getattr(opts, "expand1", False)) or (r.alias is not None)
        out.append((origin, rhs, flags))
    return out, parser.options.start, bool(getattr(parser.options, "maybe_placeholders", False)), bool(parser.options.keep_all_tokens)


def lean_sym(s) -> str:
    if s[0] == "anon":
        return ".anon"
    if s[0] == "tk":
        return f".tk .{_ident(s[1])}"
    if s[0] == "nt":
        return f".nt .{_ident(s[1])}"
    return f".inl {s[1]}"


# --------------------------------------------------------------------------- extractor dispatch

RAISE_NAMES = {
    "_process_member_dot": ["dotLen", "dotRoot"],
    "_process_member_dot_arg": ["argLen", "argRoot"],
    "_process_member_index": ["idxLen", "idxEmpty", "idxTerm", "idxRoot"],
    "_process_primary": ["primLen", "primKind"],
}
SETS = {
    ("_process_member_dot", "root"): "dotRoots",
    ("_process_member_dot_arg", "root"): "argRoots",
    ("_process_member_index", "root"): "idxRoots",
    ("_process_member_index", "terminal"): "idxTerms",
    ("_process_primary", "primary"): "primKinds",
    ("extract_argument_structure", "thing"): "top",
}


def _data_compares(fn):
    """(variable, constant) for every `variable.data == "constant"` in source order"""
    out = []
    for n in ast.walk(fn):
        if isinstance(n, ast.Compare) and len(n.ops) == 1 and isinstance(n.ops[0], ast.Eq):
            l, r = n.left, n.comparators[0]
            if (isinstance(l, ast.Attribute) and l.attr == "data" and isinstance(l.value, ast.Name)
                    and isinstance(r, ast.Constant) and isinstance(r.value, str)):
                out.append((l.value.id, r.value, n.lineno, n.col_offset))
    out.sort(key=lambda t: (t[2], t[3]))
    return [(v, c) for v, c, _, _ in out]


def _raises(fn):
    out = []
    for n in ast.walk(fn):
        if isinstance(n, ast.Raise):
            exc = n.exc
            name = None
            if isinstance(exc, ast.Call) and isinstance(exc.func, ast.Name):
                name = exc.func.id
            elif isinstance(exc, ast.Name):
                name = exc.id
            out.append((n.lineno, name))
    out.sort()
    return [name for _, name in out]


def _rule_names() -> list[str]:
    """rule names in the order of the model's `Kind` constructors (= first appearance in cel.lark)"""
    try:
        from gen_cel import KINDS
        return list(KINDS)
    except Exception:
        return []


def extractor_dispatch():
    path = SRC / "cel" / "structure_extractor.py"
    tree = ast.parse(path.read_text())
    fns = {n.name: n for n in tree.body if isinstance(n, ast.FunctionDef)}
    ok = True
    problems = []
    sets: dict[str, list[str]] = {v: [] for v in SETS.values()}
    falls: dict[str, str] = {}
    # which exception classes does the visiting loop swallow?
    caught: set[str] = set()
    main = fns.get("extract_argument_structure")
    if main is None:
        return None, False, ["extract_argument_structure not found"]
    uses_iter_subtrees = any(isinstance(n, ast.Attribute) and n.attr == "iter_subtrees" for n in ast.walk(main))
    if not uses_iter_subtrees:
        ok = False
        problems.append("the visiting loop no longer uses iter_subtrees()")
    for n in ast.walk(main):
        if isinstance(n, ast.For):
            for t in ast.walk(n):
                if isinstance(t, ast.Try):
                    for h in t.handlers:
                        swallow = all(isinstance(b, (ast.Continue, ast.Pass)) for b in h.body)
                        if not swallow:
                            continue
                        if h.type is None:
                            caught.add("BaseException")
                        elif isinstance(h.type, ast.Name):
                            caught.add(h.type.id)
                        elif isinstance(h.type, ast.Tuple):
                            caught.update(e.id for e in h.type.elts if isinstance(e, ast.Name))
    # exception classes defined in the module and what they derive from
    bases = {n.name: [b.id for b in n.bases if isinstance(b, ast.Name)] for n in tree.body if isinstance(n, ast.ClassDef)}

    def is_caught(name):
        seen = set()
        todo = [name]
        while todo:
            c = todo.pop()
            if c is None or c in seen:
                continue
            seen.add(c)
            if c in caught:
                return True
            todo.extend(bases.get(c, ["Exception"] if c not in ("Exception", "BaseException") and c in bases else []))
            if c == "Exception":
                todo.append("BaseException")
            elif c not in bases and c != "BaseException":
                todo.append("Exception")   # a builtin exception class
        return False

    for fname, names in RAISE_NAMES.items():
        fn = fns.get(fname)
        if fn is None:
            ok = False
            problems.append(f"{fname} not found")
            for nm in names:
                falls[nm] = "raise"
            continue
        rs = _raises(fn)
        if len(rs) != len(names):
            ok = False
            problems.append(f"{fname}: {len(rs)} raise statements, expected {len(names)}")
        for i, nm in enumerate(names):
            falls[nm] = "skip" if i < len(rs) and is_caught(rs[i]) else "raise"
    for (fname, var), field in SETS.items():
        fn = fns.get(fname)
        if fn is None:
            continue
        for v, c in _data_compares(fn):
            if v == var and c not in sets[field]:
                sets[field].append(c)
            elif v != var and (fname, v) not in SETS:
                ok = False
                problems.append(f"{fname}: comparison on unexpected variable {v}.data")
    # the visiting loop may dispatch by comparison or through a table: every rule name it mentions counts
    rule_names = _rule_names()
    for n in ast.walk(main):
        if isinstance(n, ast.Constant) and isinstance(n.value, str) and n.value in rule_names \
                and n.value not in sets["top"]:
            sets["top"].append(n.value)
    # only membership matters to the code: list every set in the grammar's rule order
    order = {k: i for i, k in enumerate(rule_names)}
    for field in sets:
        sets[field].sort(key=lambda k: order.get(k, len(order)))
    return {"sets": sets, "falls": falls, "caught": sorted(caught), "sha": _sha(path), "file": str(path)}, ok, problems


# --------------------------------------------------------------------------- patterns and gates

def name_patterns():
    path = SRC / "workflow" / "prepare.py"
    tree = ast.parse(path.read_text())
    out = {}
    for n in tree.body:
        if isinstance(n, ast.Assign) and len(n.targets) == 1 and isinstance(n.targets[0], ast.Name):
            nm = n.targets[0].id
            v = n.value
            if nm in ("STEPS_NAME_PATTERN", "PARENT_NAME_PATTERN") and isinstance(v, ast.Call) \
                    and ast.unparse(v.func) == "re.compile" and len(v.args) == 1 and not v.keywords \
                    and isinstance(v.args[0], ast.Constant) and isinstance(v.args[0].value, str):
                out[nm] = v.args[0].value
    src = path.read_text()
    uses_match = ("STEPS_NAME_PATTERN.match(" in src and "PARENT_NAME_PATTERN.match(" in src
                  and "STEPS_NAME_PATTERN.search" not in src and "STEPS_NAME_PATTERN.fullmatch" not in src)
    return out, uses_match, _sha(path)


HARMLESS_CALLS = {"isinstance", "str", "len", "bool", "repr", "format", "dict", "type"}


def _harmless_call(c: ast.Call) -> bool:
    f = c.func
    if isinstance(f, ast.Name):
        return f.id in HARMLESS_CALLS or f.id.startswith("_location")
    if isinstance(f, ast.Attribute):
        if isinstance(f.value, ast.Name) and f.value.id in ("logger", "logging"):
            return True
        return f.attr in ("get", "format", "lower", "upper", "keys")   # spec.get(...), "…".format(...)
    return False


def inputs_pattern_and_join():
    """INPUTS_NAME_PATTERN and how `_prepare_overlays` joins the missing input names"""
    path = SRC / "resource_function" / "prepare.py"
    tree = ast.parse(path.read_text())
    pat = None
    for n in tree.body:
        if isinstance(n, ast.Assign) and len(n.targets) == 1 and isinstance(n.targets[0], ast.Name) \
                and n.targets[0].id == "INPUTS_NAME_PATTERN" and isinstance(n.value, ast.Call) \
                and ast.unparse(n.value.func) == "re.compile" and len(n.value.args) == 1 \
                and isinstance(n.value.args[0], ast.Constant):
            pat = n.value.args[0].value
    style = None
    fn = next((n for n in tree.body if isinstance(n, ast.FunctionDef) and n.name == "_prepare_overlays"), None)
    for n in ast.walk(fn) if fn else []:
        # `", ".join(<generator or iterable>)` whose iterable mentions `missing_inputs`
        if isinstance(n, ast.Call) and isinstance(n.func, ast.Attribute) and n.func.attr == "join" and len(n.args) == 1:
            arg = n.args[0]
            if "missing_inputs" not in {x.id for x in ast.walk(arg) if isinstance(x, ast.Name)}:
                continue
            if isinstance(arg, (ast.GeneratorExp, ast.ListComp)) and len(arg.generators) == 1:
                it = arg.generators[0].iter
                tgt = arg.generators[0].target
                formatted = isinstance(arg.elt, ast.JoinedStr) or (
                    isinstance(arg.elt, ast.Call) and ast.unparse(arg.elt.func) in ("str", "repr", "format"))
                uses_target = isinstance(tgt, ast.Name) and tgt.id in {x.id for x in ast.walk(arg.elt) if isinstance(x, ast.Name)}
                kind = "formatEach" if formatted and uses_target else "raw"
            else:
                it, kind = arg, "raw"
            is_sorted = any(isinstance(x, ast.Call) and ast.unparse(x.func) == "sorted" for x in ast.walk(it))
            style = (kind, is_sorted)
    return pat, style, _sha(path)


def _inert(st) -> bool:
    """a statement that neither compiles nor looks anything up: only logging, `_location(...)`,
    `spec.get(...)`-style reads and plain data"""
    if any(isinstance(n, (ast.Await, ast.Yield, ast.YieldFrom)) for n in ast.walk(st)):
        return False
    if not isinstance(st, (ast.Expr, ast.Assign, ast.AnnAssign, ast.Pass)):
        return False
    return all(_harmless_call(n) for n in ast.walk(st) if isinstance(n, ast.Call))


def _calls_validate(node) -> bool:
    return any(isinstance(n, ast.Call) and ast.unparse(n.func) == "schema.validate" for n in ast.walk(node))


def _returns_permfail(st: ast.If) -> bool:
    rets = [n for n in st.body if isinstance(n, ast.Return)]
    return bool(rets) and all(isinstance(r.value, ast.Call) and ast.unparse(r.value.func) == "PermFail" for r in rets)


def _gate_at(body, i) -> bool:
    """`if error := schema.validate(…): return PermFail(…)`, or the same split into an assignment and an `if`"""
    st = body[i]
    if isinstance(st, ast.If) and _calls_validate(st.test):
        others = [n for n in ast.walk(st.test) if isinstance(n, ast.Call) and ast.unparse(n.func) != "schema.validate"]
        return all(_harmless_call(c) for c in others) and _returns_permfail(st)
    if isinstance(st, (ast.Assign, ast.AnnAssign)) and _calls_validate(st) and i + 1 < len(body):
        tgt = st.targets[0] if isinstance(st, ast.Assign) else st.target
        nxt = body[i + 1]
        if isinstance(tgt, ast.Name) and isinstance(nxt, ast.If) and _returns_permfail(nxt):
            names = {n.id for n in ast.walk(nxt.test) if isinstance(n, ast.Name)}
            calls = [n for n in ast.walk(nxt.test) if isinstance(n, ast.Call)]
            return tgt.id in names and all(_harmless_call(c) for c in calls)
    return False


def schema_gates():
    out = []
    for rel, fname in PREPARES:
        path = SRC / rel
        gate = False
        try:
            tree = ast.parse(path.read_text())
            fn = next(n for n in tree.body if isinstance(n, (ast.AsyncFunctionDef, ast.FunctionDef)) and n.name == fname)
            for i, st in enumerate(fn.body):
                if _calls_validate(st):
                    gate = _gate_at(fn.body, i)
                    break
                if not _inert(st):
                    break
        except Exception:
            gate = False
        out.append((fname, gate))
    return out


# --------------------------------------------------------------------------- emit

def lean_cel(t) -> str:
    from lark import Tree

    if isinstance(t, Tree):
        return f"(.node .{_ident(str(t.data))} [" + ", ".join(lean_cel(c) for c in t.children) + "])"
    return f"(.tok .{_ident(str(t.type))} {lean_str(str(t.value))})"


def lean_strs(xs) -> str:
    return "[" + ", ".join(lean_str(x) for x in xs) + "]"


def _chunked(name: str, typ: str, rows: list, size: int = 25) -> list:
    """a long list literal, in pieces (the elaborator's recursion depth)"""
    out, names = [], []
    for n, i in enumerate(range(0, len(rows), size)):
        names.append(f"{name}_{n}")
        out.append(f"def {name}_{n} : List ({typ}) := [\n" + ",\n".join(rows[i:i + size]) + "]")
    out.append(f"def {name} : List ({typ}) := List.flatten [{', '.join(names)}]")
    return out


def _syntactic() -> dict:
    """the old scan of statement shapes — information for the evidence file only: it may not understand a
    refactored source, and nothing depends on it"""
    out = {}
    try:
        disp, dok, dprob = extractor_dispatch()
        out["dispatch"] = {"understood": bool(dok and disp), "sets": (disp or {}).get("sets"), "falls": (disp or {}).get("falls"),
                           "caught": (disp or {}).get("caught"), "remarks": dprob}
    except Exception as e:
        out["dispatch"] = {"understood": False, "remarks": [repr(e)]}
    try:
        pats, uses_match, _ = name_patterns()
        out["patterns"] = {"understood": bool(uses_match and len(pats) == 2), **pats}
    except Exception as e:
        out["patterns"] = {"understood": False, "remarks": [repr(e)]}
    try:
        ipat, jstyle, _ = inputs_pattern_and_join()
        out["inputs_pattern"] = ipat
        out["missing_join_style"] = list(jstyle) if jstyle else None
    except Exception as e:
        out["inputs_pattern"] = None
    try:
        out["gates"] = dict(schema_gates())
    except Exception:
        out["gates"] = None
    return out


def extract() -> dict:
    import importlib.util
    import sys

    info: dict = {}
    ok = True
    problems: list[str] = []
    try:
        rules, start, placeholders, keep_all = grammar_rules()
        if start != ["expr"] and start != "expr":
            ok = False
            problems.append(f"start symbol {start}")
        if placeholders or keep_all or any(f for _, _, f in rules):
            ok = False
            problems.append("a lark option that changes tree shapes is on (placeholders/keep_all_tokens/expand1/alias)")
    except Exception as e:
        rules, ok = [], False
        problems.append(f"grammar: {e!r}")

    # ---- facts obtained by probing the real code
    here = Path(__file__).resolve().parent
    spec = importlib.util.spec_from_file_location("extractors__cel_probes", here / "_cel_probes.py")
    probes_mod = importlib.util.module_from_spec(spec)
    sys.modules.setdefault("extractors__cel_probes", probes_mod)
    spec.loader.exec_module(probes_mod)
    ext_rows, name_rows, ov_rows, gate_rows, coverage = [], [], [], [], []
    raised_rows = 0
    try:
        import logging

        import celpy

        logging.disable(logging.CRITICAL)
        cel_env = celpy.Environment()
        for pos, k, t, got in probes_mod.extractor_probes(cel_env):
            ext_rows.append(f"  ({lean_cel(t)}, {'none' if got is None else 'some ' + lean_strs(got)})")
            raised_rows += got is None
            if pos in probes_mod.POSITIONS:
                coverage.append((pos, k))
        for src, ast_, obs, pp in probes_mod.name_probes(cel_env):
            if obs[0] == "step":
                o = f"(.step {lean_strs(obs[1])})"
            elif obs[0] == "err" and obs[1] in ("permFail", "retry"):
                o = f"(.err .{obs[1]})"
            else:
                o = ".raised"
            name_rows.append(f"  ({lean_cel(ast_)}, {o}, {lean_strs(pp)})")
        for keys, provided, obs in probes_mod.overlay_probes():
            o = ".complete" if obs[0] == "complete" else f"(.missing {lean_strs(obs[1])})" if obs[0] == "missing" else ".raised"
            if obs[0] == "other":
                ok = False
                problems.append(f"overlay probe ended as {obs}")
            ov_rows.append(f"  ({lean_strs(keys)}, {lean_strs(provided)}, {o})")
        for kind, i, okay in probes_mod.gate_probes():
            gate_rows.append(f"({lean_str(kind)}, {'true' if okay else 'false'})")
    except Exception as e:  # the code under test could not even be imported / probed
        ok = False
        problems.append(f"probing: {e!r}")

    lines = [
        "-- REGENERATED by harness/extractors/CelTables.py on every run; do not edit.",
        "--   rules:          celpy's cel.lark as lark compiled it",
        "--   probes:         small parse trees covering every node type at every position the reference extractor looks at",
        "--                   (+ parsed odd-receiver expressions) -> what the real extract_argument_structure returned",
        "--   nameProbes:     expressions in a step's inputs of a real prepare_workflow -> recorded dependencies / error, parent properties",
        "--   overlayProbes:  cached ValueFunction keys + provided inputs -> what the real _prepare_overlays reported missing",
        "--   gateProbes:     schema-violating specs -> rejected with PermFail before anything was compiled or looked up",
        "import Koreo.WorkflowPrep",
        "set_option maxRecDepth 10000",
        "namespace Koreo.Gen.CelTables",
        "open Koreo.CelAst Koreo.WorkflowPrep",
        f"def extractionOk : Bool := {'true' if ok else 'false'}",
        "def rules : Grammar := [",
    ]
    rl = []
    for origin, rhs, _ in rules:
        o = f".rule .{_ident(origin[1])}" if origin[0] == "rule" else f".helper {origin[1]}"
        rl.append(f"  ⟨{o}, [{', '.join(lean_sym(s) for s in rhs)}]⟩")
    lines.append(",\n".join(rl))
    lines.append("]")
    lines += _chunked("probes", "Cel × Option (List String)", ext_rows)
    lines.append("def probeCoverage : List (String × Kind) := ["
                 + ", ".join(f"({lean_str(p_)}, .{_ident(k)})" for p_, k in sorted(set(coverage))) + "]")
    lines.append(f"def knownLabels : List String := {lean_strs(probes_mod.KNOWN_LABELS)}")
    lines += _chunked("nameProbes", "Cel × NameObs × List String", name_rows, size=10)
    lines.append("def overlayProbes : List (List String × List String × OverlayObs) := [\n" + ",\n".join(ov_rows) + "]")
    lines.append("def gateProbes : List (String × Bool) := [" + ", ".join(gate_rows) + "]")
    lines += ["end Koreo.Gen.CelTables", ""]
    text = "\n".join(lines)
    GEN.mkdir(parents=True, exist_ok=True)
    p = GEN / "CelTables.lean"
    changed = not (p.exists() and p.read_text() == text)
    if changed:
        p.write_text(text)

    syn = _syntactic()
    info.update({
        "ok": ok, "rewritten": changed, "problems": problems, "rules": len(rules),
        "probes": {"extractor": len(ext_rows), "extractor_raised": raised_rows, "names": len(name_rows),
                   "overlay": len(ov_rows), "gate": len(gate_rows), "positions_x_kinds": len(set(coverage))},
        "syntactic_scan (information only)": syn,
        "sha": {"structure_extractor.py": _sha(SRC / "cel" / "structure_extractor.py"),
                "workflow/prepare.py": _sha(SRC / "workflow" / "prepare.py"),
                "resource_function/prepare.py": _sha(SRC / "resource_function" / "prepare.py")},
    })
    return info


if __name__ == "__main__":
    import json
    print(json.dumps(extract(), indent=1))
