"""C18/C19 translator piece: regenerates lean/Koreo/Gen/FtConsts.lean from

* src/koreo/constants.py  — LAST_APPLIED_ANNOTATION, KOREO_DIRECTIVE_KEYS
* src/koreo/function_test/run.py — the directive names `_validate_dict_match` mentions and the separator
  of `_obj_to_key` (both as "whatever is found must be the model's": a refactor that hides them from
  this walk leaves the lists empty and raises no alarm); whether `_run_test_case` builds its own
  `MockApi` and how many `deepcopy` calls `_run_test_cases` makes are recorded in the evidence only.
"""
from __future__ import annotations

import ast

from common import REPO
from extract import _sha, _write, lean_str

SRC = REPO / "src" / "koreo"


def _const_env(tree: ast.Module) -> dict:
    """module-level NAME = <string | f-string over earlier names | set of strings>"""
    env: dict = {}

    def ev(node):
        if isinstance(node, ast.Constant) and isinstance(node.value, str):
            return node.value
        if isinstance(node, ast.Name) and node.id in env:
            return env[node.id]
        if isinstance(node, ast.JoinedStr):
            out = []
            for part in node.values:
                if isinstance(part, ast.Constant):
                    out.append(str(part.value))
                elif isinstance(part, ast.FormattedValue):
                    v = ev(part.value)
                    if not isinstance(v, str):
                        return None
                    out.append(v)
                else:
                    return None
            return "".join(out)
        if isinstance(node, ast.Set):
            vs = [ev(e) for e in node.elts]
            return set(vs) if all(isinstance(v, str) for v in vs) else None
        return None

    for st in tree.body:
        targets = []
        value = None
        if isinstance(st, ast.Assign):
            targets, value = st.targets, st.value
            # PREFIX = API_GROUP = "koreo.dev"
        elif isinstance(st, ast.AnnAssign) and st.value is not None:
            targets, value = [st.target], st.value
        v = ev(value) if value is not None else None
        if v is None:
            continue
        for t in targets:
            if isinstance(t, ast.Name):
                env[t.id] = v
    return env


def _fn(tree, name):
    return next((n for n in ast.walk(tree) if isinstance(n, (ast.FunctionDef, ast.AsyncFunctionDef)) and n.name == name), None)


def extract() -> dict:
    cpath = SRC / "constants.py"
    rpath = SRC / "function_test" / "run.py"
    info = {"file": str(cpath), "sha": _sha(cpath) if cpath.exists() else None,
            "file2": str(rpath), "sha2": _sha(rpath) if rpath.exists() else None}
    ok = True
    last_applied = ""
    directive_keys: list[str] = []
    get_names: list[str] = []
    seps: list[str] = []
    fresh_mock = False
    deepcopies = 0
    try:
        env = _const_env(ast.parse(cpath.read_text()))
        la = env.get("LAST_APPLIED_ANNOTATION")
        dk = env.get("KOREO_DIRECTIVE_KEYS")
        if isinstance(la, str):
            last_applied = la
        else:
            ok = False
        if isinstance(dk, set):
            directive_keys = sorted(dk)
        else:
            ok = False

        tree = ast.parse(rpath.read_text())
        # _validate_dict_match: every directive name it mentions (literal, or a name from constants.py)
        f = _fn(tree, "_validate_dict_match")
        if f is not None:
            for n in ast.walk(f):
                v = None
                if isinstance(n, ast.Constant) and isinstance(n.value, str):
                    v = n.value
                elif isinstance(n, ast.Name) and isinstance(env.get(n.id), str):
                    v = env[n.id]
                if v is not None and v.startswith("x-koreo-") and v not in get_names:
                    get_names.append(v)
            get_names.sort()
        # _obj_to_key: "<sep>".join(...)
        f = _fn(tree, "_obj_to_key")
        if f is not None:
            seps = sorted({n.func.value.value for n in ast.walk(f)
                           if isinstance(n, ast.Call) and isinstance(n.func, ast.Attribute) and n.func.attr == "join"
                           and isinstance(n.func.value, ast.Constant) and isinstance(n.func.value.value, str)})
        # informational only (not turned into proof obligations: a harmless refactor may move these)
        f = _fn(tree, "_run_test_case")
        if f is not None:
            fresh_mock = any(isinstance(n, ast.Call) and isinstance(n.func, ast.Name) and n.func.id == "MockApi"
                             for n in ast.walk(f))
        f = _fn(tree, "_run_test_cases")
        if f is not None:
            deepcopies = sum(1 for n in ast.walk(f)
                             if isinstance(n, ast.Call) and isinstance(n.func, ast.Attribute)
                             and n.func.attr == "deepcopy")
    except Exception as e:  # unreadable source: the theorem over `extractionOk` breaks
        ok = False
        info["error"] = repr(e)

    lines = [
        "-- GENERATED by harness/extractors/FtConsts.py from src/koreo/constants.py and",
        "-- src/koreo/function_test/run.py — do not edit.",
        "namespace Koreo.Gen.FtConsts",
        f"def extractionOk : Bool := {'true' if ok else 'false'}",
        f"def lastApplied : String := {lean_str(last_applied)}",
        "def directiveKeys : List String := [" + ", ".join(lean_str(k) for k in directive_keys) + "]",
        "def dictMatchDirectives : List String := [" + ", ".join(lean_str(k) for k in get_names) + "]",
        "def keySeps : List String := [" + ", ".join(lean_str(k) for k in seps) + "]",
        "end Koreo.Gen.FtConsts",
        "",
    ]
    changed = _write("FtConsts.lean", "\n".join(lines))
    info.update({"ok": ok, "changed": changed, "lastApplied": last_applied, "directiveKeys": directive_keys,
                 "dictMatchDirectives": get_names, "keySeps": seps,
                 "freshMockPerCase": fresh_mock, "deepcopiesPerCase": deepcopies})
    return info
