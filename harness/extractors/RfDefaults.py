"""C06/C07/C08 translator piece: regenerates lean/Koreo/Gen/RfDefaults.lean from

  * src/koreo/constants.py        delay constants, LAST_APPLIED_ANNOTATION, KOREO_DIRECTIVE_KEYS
                                  (the module is pure constants; it is executed with runpy)
  * src/koreo/resource_function/prepare.py   `spec.get(<flag>, <default>)` in `_prepare_api_config` /
                                  `_prepare_create`, the `case None:` answer of `_prepare_update`
                                  (ast walk; a pattern that is not found is reported as `none`,
                                  which only drops that conjunct — a *changed* default breaks it)
  * src/koreo/schema/resource-function.yaml  the CRD's `default:` values (fastjsonschema writes
                                  them into the spec before prepare sees it)
  * the *effective* defaults: a minimal spec that omits every flag, through the public
    `prepare_resource_function` (schema validation included), read off the prepared function.

Theorems `defaults_match_source` (Props/C07.lean) and `last_applied_key_matches_source`,
`directive_keys_match_source` (Props/C08.lean) tie the models to this file.
"""
from __future__ import annotations

import ast
import copy
import runpy

from common import REPO
from extract import _sha, _write, lean_str

SRC = REPO / "src" / "koreo"


def _b(v):
    return "true" if v else "false"


def _opt_b(v):
    return "none" if v is None else f"(some {_b(v)})"


def _opt_i(v):
    return "none" if v is None else f"(some ({int(v)} : Int))"


def _opt_s(v):
    return "none" if v is None else f"(some {lean_str(v)})"


def _const_value(node, consts):
    """a literal, or `constants.NAME` / `NAME` resolved against constants.py"""
    if isinstance(node, ast.Constant):
        return node.value
    if isinstance(node, ast.Attribute) and isinstance(node.value, ast.Name) and node.attr in consts:
        return consts[node.attr]
    if isinstance(node, ast.Name) and node.id in consts:
        return consts[node.id]
    return None


def _spec_get_defaults(fn: ast.FunctionDef, consts) -> dict:
    """{key: default} for every `spec.get("key", default)` in the function"""
    out = {}
    for n in ast.walk(fn):
        if (isinstance(n, ast.Call) and isinstance(n.func, ast.Attribute) and n.func.attr == "get"
                and isinstance(n.func.value, ast.Name) and n.func.value.id == "spec" and len(n.args) == 2
                and isinstance(n.args[0], ast.Constant)):
            out[n.args[0].value] = _const_value(n.args[1], consts)
    return out


def _update_none_case(fn: ast.FunctionDef, consts):
    """(`UpdateX` class name, delay) returned by `case None:` of `_prepare_update`"""
    for m in ast.walk(fn):
        if isinstance(m, ast.Match):
            for case in m.cases:
                p = case.pattern
                if isinstance(p, ast.MatchSingleton) and p.value is None:
                    for r in ast.walk(ast.Module(body=case.body, type_ignores=[])):
                        if isinstance(r, ast.Return) and isinstance(r.value, ast.Call):
                            f = r.value.func
                            name = f.attr if isinstance(f, ast.Attribute) else getattr(f, "id", None)
                            delay = None
                            for kw in r.value.keywords:
                                if kw.arg == "delay":
                                    delay = _const_value(kw.value, consts)
                            return name, delay
    return None, None


def _crd_defaults(path) -> dict:
    import yaml

    d = yaml.safe_load(path.read_text())
    spec = d["spec"]["versions"][0]["schema"]["openAPIV3Schema"]["properties"]["spec"]["properties"]
    api = spec["apiConfig"]["properties"]
    out = {k: api[k].get("default") for k in ("namespaced", "owned", "readonly", "deleteIfExists")}
    out["createEnabled"] = spec["create"]["properties"]["enabled"].get("default")
    out["createDelay"] = spec["create"]["properties"]["delay"].get("default")
    upd = spec["update"]
    dflt = upd.get("default") or {}
    out["updatePolicy"] = next(iter(dflt), None)
    out["patchDelay"] = upd["properties"]["patch"]["properties"]["delay"].get("default")
    out["recreateDelay"] = upd["properties"]["recreate"]["properties"]["delay"].get("default")
    out["policies"] = sorted(upd["properties"].keys())
    return out


def _effective() -> dict:
    """flags omitted from a minimal spec, through the public prepare (schema validation included)"""
    import asyncio
    import logging

    logging.disable(logging.CRITICAL)
    from koreo.resource_function.prepare import prepare_resource_function
    from koreo.resource_function import structure

    base = {"apiConfig": {"apiVersion": "verif.test/v1", "kind": "RfDefaultsProbe", "plural": "rfdefaultsprobes",
                          "name": "n", "namespace": "ns"},
            "resource": {"spec": {"a": 1}}}

    def prep(spec):
        loop = asyncio.new_event_loop()
        try:
            got = loop.run_until_complete(prepare_resource_function("probe", copy.deepcopy(spec)))
        finally:
            loop.close()
        return got[0] if isinstance(got, tuple) else None

    names = {structure.UpdatePatch: "patch", structure.UpdateRecreate: "recreate", structure.UpdateNever: "never"}
    out = {}
    f = prep(base)
    c = f.crud_config
    out.update(namespaced=bool(c.resource_api.namespaced), owned=bool(c.own_resource), readonly=bool(c.readonly),
               deleteIfExists=bool(c.delete_if_exists), createEnabled=bool(c.create.enabled),
               createDelay=int(c.create.delay), updatePolicy=names[type(c.update)], updateDelay=int(c.update.delay))
    f = prep({**base, "create": {"enabled": True}})
    out["createDelayWhenEnabledOnly"] = int(f.crud_config.create.delay)
    f = prep({**base, "update": {"patch": {}}})
    out["patchDelay"] = int(f.crud_config.update.delay)
    f = prep({**base, "update": {"recreate": {}}})
    out["recreateDelay"] = int(f.crud_config.update.delay)
    return out


def extract() -> dict:
    cpath = SRC / "constants.py"
    ppath = SRC / "resource_function" / "prepare.py"
    ypath = SRC / "schema" / "resource-function.yaml"
    info = {"files": [str(cpath), str(ppath), str(ypath)],
            "sha": [_sha(p) if p.exists() else None for p in (cpath, ppath, ypath)]}
    ok = True
    consts, src, crd, eff = {}, {}, {}, {}
    upd_name, upd_delay = None, None
    try:
        consts = {k: v for k, v in runpy.run_path(str(cpath)).items() if k.isupper()}
        for k in ("DEFAULT_CREATE_DELAY", "DEFAULT_PATCH_DELAY", "DEFAULT_LOAD_RETRY_DELAY",
                  "LAST_APPLIED_ANNOTATION", "KOREO_DIRECTIVE_KEYS"):
            if k not in consts:
                ok = False
    except Exception as e:
        ok = False
        info["constants_error"] = repr(e)
    try:
        tree = ast.parse(ppath.read_text())
        fns = {n.name: n for n in tree.body if isinstance(n, ast.FunctionDef)}
        if "_prepare_api_config" in fns:
            src.update(_spec_get_defaults(fns["_prepare_api_config"], consts))
        if "_prepare_create" in fns:
            d = _spec_get_defaults(fns["_prepare_create"], consts)
            src["createEnabled"] = d.get("enabled")
            src["createDelay"] = d.get("delay")
        if "_prepare_update" in fns:
            upd_name, upd_delay = _update_none_case(fns["_prepare_update"], consts)
    except Exception as e:  # the ast part is best effort: conjuncts become `none`
        info["ast_error"] = repr(e)
    try:
        crd = _crd_defaults(ypath)
    except Exception as e:
        info["crd_error"] = repr(e)
    try:
        eff = _effective()
    except Exception as e:
        ok = False
        info["effective_error"] = repr(e)

    pol = {"UpdatePatch": "patch", "UpdateRecreate": "recreate", "UpdateNever": "never"}.get(upd_name or "")

    def sb(d, k):
        v = d.get(k)
        return v if isinstance(v, bool) else None

    def si(d, k):
        v = d.get(k)
        return v if isinstance(v, int) and not isinstance(v, bool) else None

    lines = [
        "-- REGENERATED by harness/extractors/RfDefaults.py from src/koreo/constants.py,",
        "-- src/koreo/resource_function/prepare.py and src/koreo/schema/resource-function.yaml on every run; do not edit.",
        "namespace Koreo.Gen.RfDefaults",
        f"def extractionOk : Bool := {_b(ok)}",
        "-- effective: flags omitted from a spec, through schema validation + prepare_resource_function",
        f"def effNamespaced : Bool := {_b(eff.get('namespaced', False))}",
        f"def effOwned : Bool := {_b(eff.get('owned', False))}",
        f"def effReadonly : Bool := {_b(eff.get('readonly', True))}",
        f"def effDeleteIfExists : Bool := {_b(eff.get('deleteIfExists', True))}",
        f"def effCreateEnabled : Bool := {_b(eff.get('createEnabled', False))}",
        f"def effCreateDelay : Int := {int(eff.get('createDelay', -1))}",
        f"def effCreateDelayEnabledOnly : Int := {int(eff.get('createDelayWhenEnabledOnly', -1))}",
        f"def effUpdatePolicy : String := {lean_str(eff.get('updatePolicy', '?'))}",
        f"def effUpdateDelay : Int := {int(eff.get('updateDelay', -1))}",
        f"def effPatchDelay : Int := {int(eff.get('patchDelay', -1))}",
        f"def effRecreateDelay : Int := {int(eff.get('recreateDelay', -1))}",
        "-- `spec.get(key, default)` found in prepare.py (none = pattern not found)",
        f"def srcNamespaced : Option Bool := {_opt_b(sb(src, 'namespaced'))}",
        f"def srcOwned : Option Bool := {_opt_b(sb(src, 'owned'))}",
        f"def srcReadonly : Option Bool := {_opt_b(sb(src, 'readonly'))}",
        f"def srcDeleteIfExists : Option Bool := {_opt_b(sb(src, 'deleteIfExists'))}",
        f"def srcCreateEnabled : Option Bool := {_opt_b(sb(src, 'createEnabled'))}",
        f"def srcCreateDelay : Option Int := {_opt_i(si(src, 'createDelay'))}",
        f"def srcUpdatePolicy : Option String := {_opt_s(pol)}",
        f"def srcUpdateDelay : Option Int := {_opt_i(upd_delay if isinstance(upd_delay, int) else None)}",
        "-- `default:` in the CRD (none = not declared)",
        f"def crdNamespaced : Option Bool := {_opt_b(sb(crd, 'namespaced'))}",
        f"def crdOwned : Option Bool := {_opt_b(sb(crd, 'owned'))}",
        f"def crdReadonly : Option Bool := {_opt_b(sb(crd, 'readonly'))}",
        f"def crdDeleteIfExists : Option Bool := {_opt_b(sb(crd, 'deleteIfExists'))}",
        f"def crdCreateEnabled : Option Bool := {_opt_b(sb(crd, 'createEnabled'))}",
        f"def crdCreateDelay : Option Int := {_opt_i(si(crd, 'createDelay'))}",
        f"def crdUpdatePolicy : Option String := {_opt_s(crd.get('updatePolicy'))}",
        f"def crdPatchDelay : Option Int := {_opt_i(si(crd, 'patchDelay'))}",
        f"def crdRecreateDelay : Option Int := {_opt_i(si(crd, 'recreateDelay'))}",
        "-- constants.py",
        f"def defaultCreateDelay : Int := {int(consts.get('DEFAULT_CREATE_DELAY', -1))}",
        f"def defaultPatchDelay : Int := {int(consts.get('DEFAULT_PATCH_DELAY', -1))}",
        f"def defaultLoadRetryDelay : Int := {int(consts.get('DEFAULT_LOAD_RETRY_DELAY', -1))}",
        f"def lastAppliedAnnotation : String := {lean_str(str(consts.get('LAST_APPLIED_ANNOTATION', '')))}",
        "def directiveKeys : List String := ["
        + ", ".join(lean_str(k) for k in sorted(consts.get("KOREO_DIRECTIVE_KEYS", []))) + "]",
        "end Koreo.Gen.RfDefaults",
        "",
    ]
    changed = _write("RfDefaults.lean", "\n".join(lines))
    info.update({"ok": ok, "rewritten": changed, "effective": eff, "prepare_py": {k: src.get(k) for k in src},
                 "update_none_case": [upd_name, upd_delay], "crd": crd,
                 "constants": {k: (sorted(v) if isinstance(v, (set, frozenset)) else v) for k, v in consts.items()
                               if k.startswith("DEFAULT_") or k in ("LAST_APPLIED_ANNOTATION", "KOREO_DIRECTIVE_KEYS")}})
    return info
