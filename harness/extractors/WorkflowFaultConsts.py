"""Translator piece for the fault model (C09)  ->  lean/Koreo/Gen/WorkflowFaultConsts.lean

What the fault branches of src/koreo/workflow/reconcile.py build and how
src/koreo/resource_function/reconcile/__init__.py answers API errors are established by PROBING the real functions on a
small fixed table of inputs, not by looking at statement shapes (a behaviour-preserving restructuring — early returns,
helpers, other names — leaves every fact as it is; a changed behaviour changes the table and breaks the theorem):

  * `rfTable`: `reconcile_resource_function` against the in-memory API for every combination of
        flags      patch | never | recreate | readonly | create disabled | deleteIfExists
        situation  object absent | matching | differing
        fault      none, or the GET / the mutation failing with raise-before, raise-after, 404, 409, 500, 403, 429,
                   a ServerError without response, or never answering
    each row = (answer: Ok / Retry(delay) / PermFail / an escaping exception / a hang, situation afterwards, the API
    requests issued).  `Props/C09.lean` proves `rfPass objMach` equal to it row by row (`rf_table_matches_source`).
  * the two task groups of `reconcile_workflow`: a one-step workflow (and a one-iteration forEach) whose PATCH never
    answers / raises — does the pass return, after how long, which outcome class and delay does the step get, and
    does the condition emitted for it say what `_condition_helper` says for that outcome (defect F1 if not).

Constants are read from the imported modules.  An extractor that cannot probe writes `extractionOk = false`.
"""
from __future__ import annotations

import asyncio
import copy
import hashlib

from common import LEAN, REPO

KINDS = ["raise-before", "raise-after", 404, 409, 500, "hang", 403, 429, "no-response"]
LEAN_KIND = {"raise-before": ".raiseBefore", "raise-after": ".raiseAfter", 404: ".e404", 409: ".e409", 500: ".e500",
             "hang": ".hang", 403: ".e4xx", 429: ".e4xx", "no-response": ".noResp"}
CREATE_DELAY, UPDATE_DELAY = 7, 5
API_VERSION, KIND, PLURAL, NS, NAME = "probe.verif.dev/v1", "FaultProbe", "faultprobes", "ns", "p"
KEY = (API_VERSION, PLURAL, NS, NAME)
CFGS = {     # name -> (spec fragments, Lean flags)
    "patch": ({"update": {"patch": {"delay": UPDATE_DELAY}}}, {}),
    "never": ({"update": {"never": {}}}, {"policy": ".never"}),
    "recreate": ({"update": {"recreate": {"delay": UPDATE_DELAY}}}, {"policy": ".recreate"}),
    "readonly": ({"readonly": True}, {"readonly": "true"}),
    "nocreate": ({"create": {"enabled": False}}, {"createEnabled": "false"}),
    "delete": ({"deleteIfExists": True}, {"deleteIfExists": "true"}),
}
STATES = ["absent", "matching", "differing"]


def _spec(name):
    frag = CFGS[name][0]
    api = {"apiVersion": API_VERSION, "kind": KIND, "plural": PLURAL, "name": NAME, "namespace": NS}
    for k in ("readonly", "deleteIfExists"):
        if k in frag:
            api[k] = frag[k]
    return {"apiConfig": api, "resource": {"spec": {"want": 1}},
            "create": frag.get("create", {"delay": CREATE_DELAY}),
            "update": frag.get("update", {"patch": {"delay": UPDATE_DELAY}}), "return": {"v": 1}}


def _situation(objects):
    o = objects.get(KEY)
    if o is None:
        return "absent"
    return "matching" if (o.get("spec") or {}).get("want") == 1 else "differing"


def _probe_rf():
    """[(cfg, state, fault (j, kind)|None, answer, state after, [methods])]"""
    import celpy
    import koreo_util as ku
    from cluster import Cluster
    from vloop import run_virtual
    from koreo.cache import get_resource_from_cache
    from koreo.resource_function.reconcile import reconcile_resource_function
    from koreo.resource_function.structure import ResourceFunction

    ku.reset()

    async def offer():
        for name in CFGS:
            await ku.offer_resource_function(f"probe.{name}", _spec(name))

    ku.run(offer())
    rows = []
    for name in CFGS:
        fn = get_resource_from_cache(resource_class=ResourceFunction, cache_key=f"probe.{name}")
        if fn is None or not hasattr(fn, "crud_config"):
            raise RuntimeError(f"probe Function {name} was not prepared: {fn}")
        for st in STATES:
            objs = {}
            if st != "absent":
                objs[KEY] = {"apiVersion": API_VERSION, "kind": KIND,
                             "metadata": {"name": NAME, "namespace": NS, "ownerReferences": [dict(ku.OWNER_REF)]},
                             "spec": {"want": 1 if st == "matching" else 2}}
            for fault in [None] + [(j, k) for j in (0, 1) for k in KINDS]:
                cl = Cluster(objects=copy.deepcopy(objs), faults=({fault[0]: fault[1]} if fault else None))

                async def go():
                    return await asyncio.wait_for(reconcile_resource_function(
                        api=cl, location="probe", function=fn, owner=(NS, dict(ku.OWNER_REF)),
                        inputs=celpy.json_to_cel({})), 5.0)

                try:
                    res, _, _ = run_virtual(go())
                    c = ku.outcome_class(res.outcome)
                    ans = f"retry:{int(res.outcome.delay)}" if c == "retry" else c
                except (asyncio.TimeoutError, TimeoutError):
                    ans = "hung"
                except (KeyboardInterrupt, SystemExit):
                    raise
                except BaseException:
                    ans = "raised"
                rows.append((name, st, fault, ans, _situation(cl.objects), [e["method"] for e in cl.log]))
    ku.reset()
    return rows


def _probe_groups():
    """{'steps'|'items': {'cancelled'|'exception': {returned, elapsed, class, delay, cond_type, cond_reason, expected_reason}}}"""
    import celpy
    import koreo_util as ku
    from cluster import Cluster
    from vloop import run_virtual
    from koreo.cache import get_resource_from_cache
    from koreo.workflow import reconcile as wfr
    from koreo.workflow.structure import Workflow

    out = {}
    for group in ("steps", "items"):
        out[group] = {}
        for branch, fault in (("cancelled", "hang"), ("exception", "raise-before")):
            ku.reset()

            async def offer():
                await ku.offer_resource_function("probe.g", _spec("patch"))
                step = {"label": "stp", "ref": {"kind": "ResourceFunction", "name": "probe.g"},
                        "condition": {"type": "Cstp", "name": "stp"}}
                if group == "items":
                    step["forEach"] = {"itemIn": '=["a"]', "inputKey": "item"}
                await ku.offer_workflow("probe.wf", {"steps": [step]})

            ku.run(offer())
            wf = get_resource_from_cache(resource_class=Workflow, cache_key="probe.wf")
            objs = {KEY: {"apiVersion": API_VERSION, "kind": KIND,
                          "metadata": {"name": NAME, "namespace": NS, "ownerReferences": [dict(ku.OWNER_REF)]},
                          "spec": {"want": 2}}}
            cl = Cluster(objects=objs, faults={1: fault})      # the PATCH
            rec = {"returned": False}
            try:
                res, elapsed, _ = run_virtual(wfr.reconcile_workflow(
                    api=cl, workflow_key="probe", owner=(NS, dict(ku.OWNER_REF)), trigger=celpy.json_to_cel({}),
                    workflow=wf))
                o = res.result
                c = ku.outcome_class(o)
                cond = res.conditions[0]
                expected = wfr._condition_helper(condition_type="x", thing_name="x", outcome=o, workflow_key="probe")
                rec = {"returned": True, "elapsed": elapsed, "class": {"retry": "Retry", "permFail": "PermFail"}.get(c, c),
                       "delay": int(o.delay) if c == "retry" else 0, "cond_type": cond.get("type"),
                       "cond_reason": cond.get("reason"), "expected_reason": expected.get("reason"),
                       "conditions": len(res.conditions)}
            except (KeyboardInterrupt, SystemExit):
                raise
            except BaseException as e:
                rec["error"] = repr(e)
            out[group][branch] = rec
    ku.reset()
    return out


def _b(x) -> str:
    return "true" if x else "false"


def _s(x) -> str:
    return '"' + str(x if x is not None else "?").replace("\\", "\\\\").replace('"', '\\"') + '"'


def _lean_cfg(name, load_delay):
    flags = {"deleteIfExists": "false", "readonly": "false", "createEnabled": "true", "policy": ".patch"}
    flags.update(CFGS[name][1])
    return ("{ deleteIfExists := %s, readonly := %s, createEnabled := %s, policy := %s, loadDelay := %d, "
            "createDelay := %d, updateDelay := %d }" % (flags["deleteIfExists"], flags["readonly"], flags["createEnabled"],
                                                        flags["policy"], load_delay, CREATE_DELAY, UPDATE_DELAY))


def _lean_ans(ans, st):
    if ans == "ok":
        return f".ok .{st}"
    if ans.startswith("retry:"):
        return f".retry {int(ans[6:])}"
    return {"permFail": ".permFail", "raised": ".raised", "hung": ".hung"}.get(ans, ".hung")


def extract() -> dict:
    wpath = REPO / "src" / "koreo" / "workflow" / "reconcile.py"
    rpath = REPO / "src" / "koreo" / "resource_function" / "reconcile" / "__init__.py"
    info = {"files": [str(wpath), str(rpath)], "method": "behavioural probe of the real functions"}
    ok = True
    consts = {"STEP_TIMEOUT": 0, "TIMEOUT_RETRY_DELAY": 0, "UNKNOWN_ERROR_RETRY_DELAY": 0, "DEFAULT_LOAD_RETRY_DELAY": 0}
    rows, groups = [], {}
    try:
        info["sha"] = hashlib.sha256(wpath.read_bytes() + rpath.read_bytes()).hexdigest()[:16]
        from koreo import constants as kconst
        from koreo.workflow import reconcile as wfr

        consts = {"STEP_TIMEOUT": int(wfr.STEP_TIMEOUT), "TIMEOUT_RETRY_DELAY": int(wfr.TIMEOUT_RETRY_DELAY),
                  "UNKNOWN_ERROR_RETRY_DELAY": int(wfr.UNKNOWN_ERROR_RETRY_DELAY),
                  "DEFAULT_LOAD_RETRY_DELAY": int(kconst.DEFAULT_LOAD_RETRY_DELAY)}
        rows = _probe_rf()
        groups = _probe_groups()
    except Exception as e:  # cannot probe: the tie theorems must fail, not the extractor
        ok = False
        info["error"] = repr(e)

    def g(group, branch, field, default=None):
        return ((groups.get(group) or {}).get(branch) or {}).get(field, default)

    for group in ("steps", "items"):
        for branch in ("cancelled", "exception"):
            if not g(group, branch, "returned"):
                ok = ok and False if not groups else ok      # a pass that does not return is a fact, not a failed extraction
    if not rows or not groups:
        ok = False
    lines = [
        "-- REGENERATED by harness/extractors/WorkflowFaultConsts.py by probing src/koreo/workflow/reconcile.py and",
        "-- src/koreo/resource_function/reconcile/__init__.py; do not edit.",
        "import Koreo.WorkflowFaults",
        "namespace Koreo.Gen.WorkflowFaultConsts",
        "open Koreo.WorkflowFaults",
        f"def extractionOk : Bool := {_b(ok)}",
        f"def stepTimeout : Nat := {consts['STEP_TIMEOUT']}",
        f"def timeoutRetryDelay : Int := {consts['TIMEOUT_RETRY_DELAY']}",
        f"def unknownErrorRetryDelay : Int := {consts['UNKNOWN_ERROR_RETRY_DELAY']}",
        f"def loadRetryDelay : Int := {consts['DEFAULT_LOAD_RETRY_DELAY']}",
    ]
    for group in ("steps", "items"):
        contained = all(g(group, b, "returned") for b in ("cancelled", "exception"))
        in_time = g(group, "cancelled", "elapsed") == consts["STEP_TIMEOUT"] and g(group, "exception", "elapsed") == 0
        lines.append(f"def {group}Contained : Bool := {_b(contained)}")
        lines.append(f"def {group}TimeoutIsStepTimeout : Bool := {_b(in_time)}")
        for branch in ("cancelled", "exception"):
            b = branch.capitalize()
            lines.append(f"def {group}{b}Class : String := {_s(g(group, branch, 'class'))}")
            lines.append(f"def {group}{b}Delay : Int := {g(group, branch, 'delay', 0) or 0}")
    for branch in ("cancelled", "exception"):
        b = branch.capitalize()
        from_outcome = g("steps", branch, "returned") and g("steps", branch, "cond_reason") == g("steps", branch, "expected_reason")
        lines.append(f"def steps{b}CondFromOutcome : Bool := {_b(from_outcome)}")
        lines.append(f"def steps{b}CondType : String := {_s(g('steps', branch, 'cond_type'))}")
    lines.append("/-- (flags, situation, fault, answer, situation afterwards, API requests) observed on the real code -/")
    lines.append("def rfTable : List (RfCfg × ObjState × Option (Nat × FaultKind) × RAns ObjState × ObjState × List Method) := [")
    meth = {"GET": ".get", "POST": ".post", "PATCH": ".patch", "DELETE": ".delete"}
    body = []
    for name, st, fault, ans, after, calls in rows:
        f = "none" if fault is None else f"some ({fault[0]}, {LEAN_KIND[fault[1]]})"
        body.append(f"  ({_lean_cfg(name, consts['DEFAULT_LOAD_RETRY_DELAY'])}, .{st}, {f}, {_lean_ans(ans, st)}, .{after}, "
                    f"[{', '.join(meth.get(m, '.get') for m in calls)}])")
    lines.append(",\n".join(body))
    lines += ["]", "end Koreo.Gen.WorkflowFaultConsts", ""]
    text = "\n".join(lines)
    gen = LEAN / "Koreo" / "Gen"
    gen.mkdir(parents=True, exist_ok=True)
    p = gen / "WorkflowFaultConsts.lean"
    changed = not (p.exists() and p.read_text() == text)
    if changed:
        p.write_text(text)
    summary = {}
    for name, st, fault, ans, after, calls in rows:
        summary[ans.split(":")[0]] = summary.get(ans.split(":")[0], 0) + 1
    info.update({"ok": ok, "rewritten": changed, "consts": consts, "groups": groups, "rf_rows": len(rows),
                 "rf_answers": summary})
    return info
