"""Translator piece for the fault model (C09): what the time-out / exception branches of the two task groups in
src/koreo/workflow/reconcile.py build, and how src/koreo/resource_function/reconcile/__init__.py answers API
errors  ->  lean/Koreo/Gen/WorkflowFaultConsts.lean

Read with `ast` (no import of koreo):

  * `_reconcile_steps` and `_for_each_reconciler`: the `async with asyncio.timeout(X), asyncio.TaskGroup()` is inside a
    `try` whose handler is a bare `except:` that only passes (faults are contained); X is STEP_TIMEOUT;
    the post-loop is `if task.cancelled() … elif task.exception() … elif task.done()`; the outcome class and the
    delay constant of the first two branches;
  * `_reconcile_steps` only: the `outcome=` argument of the `_condition_helper` call in those two branches — is it the
    outcome itself (`x.result`, or the Retry expression) or the `StepResult` tuple (defect F1) — and its condition type;
  * `load_api_resource`: every `except` handler either treats the object as absent (404 / NotFound) or returns
    `Retry(delay=DEFAULT_LOAD_RETRY_DELAY)`;  `_create_api_resource`: the `try` around `.create()` maps a 409
    `ServerError` to Retry, any other `ServerError` and any other exception to PermFail;
  * whether the awaits of `.patch(…)` / `.delete()` in `reconcile_krm_resource` are inside a `try` (they are not:
    their exceptions escape the Function and are contained by the task group).

`Props/C09.lean` ties the model's constants and branch table to this file.
"""
from __future__ import annotations

import ast
import hashlib

from common import LEAN, REPO

CONSTS = ("STEP_TIMEOUT", "TIMEOUT_RETRY_DELAY", "UNKNOWN_ERROR_RETRY_DELAY")


def _consts(tree):
    out = {}
    for node in tree.body:
        if isinstance(node, ast.Assign) and len(node.targets) == 1 and isinstance(node.targets[0], ast.Name):
            if isinstance(node.value, ast.Constant) and isinstance(node.value.value, int):
                out[node.targets[0].id] = node.value.value
    return out


def _func(tree, name):
    for n in ast.walk(tree):
        if isinstance(n, (ast.FunctionDef, ast.AsyncFunctionDef)) and n.name == name:
            return n
    return None


def _is_call_attr(node, attr):
    """`<something>.attr(...)`"""
    return isinstance(node, ast.Call) and isinstance(node.func, ast.Attribute) and node.func.attr == attr


def _outcome_ctor(node):
    """(class name, delay expr) of `result.Retry(...)` / `Retry(...)` / `PermFail(...)`, else None"""
    if not isinstance(node, ast.Call):
        return None
    f = node.func
    name = f.attr if isinstance(f, ast.Attribute) else f.id if isinstance(f, ast.Name) else None
    if name not in ("Retry", "PermFail", "Ok", "Skip", "DepSkip"):
        return None
    delay = next((k.value for k in node.keywords if k.arg == "delay"), None)
    return name, delay


def _value_of(expr, consts):
    if isinstance(expr, ast.Constant) and isinstance(expr.value, int):
        return expr.value
    if isinstance(expr, ast.Name):
        return consts.get(expr.id)
    return None


def _group(fn, consts):
    """facts about the task group of one function"""
    info = {"contained": False, "timeout_is_step_timeout": False}
    for t in [n for n in ast.walk(fn) if isinstance(n, ast.Try)]:
        withs = [n for n in t.body if isinstance(n, ast.AsyncWith)]
        if not withs:
            continue
        items = withs[0].items
        has_tg = any(_is_call_attr(i.context_expr, "TaskGroup") for i in items)
        to = [i.context_expr for i in items if _is_call_attr(i.context_expr, "timeout")]
        if not has_tg:
            continue
        info["timeout_is_step_timeout"] = bool(to) and len(to[0].args) == 1 and isinstance(to[0].args[0], ast.Name) \
            and to[0].args[0].id == "STEP_TIMEOUT"
        # every exception (BaseException included) is swallowed, nothing else happens in the handler
        info["contained"] = (len(t.handlers) == 1
                             and (t.handlers[0].type is None
                                  or (isinstance(t.handlers[0].type, ast.Name) and t.handlers[0].type.id == "BaseException"))
                             and all(isinstance(s, ast.Pass) for s in t.handlers[0].body)
                             and not t.finalbody and not t.orelse)
    return info


def _branches(fn, consts):
    """the cancelled / exception branches of the post-loop: {branch: {class, delay, cond_from_outcome, cond_type}}"""
    out = {}
    for loop in [n for n in ast.walk(fn) if isinstance(n, ast.For)]:
        for st in loop.body:
            if not isinstance(st, ast.If):
                continue
            chain = []
            cur = st
            while isinstance(cur, ast.If):
                chain.append((cur.test, cur.body))
                cur = cur.orelse[0] if len(cur.orelse) == 1 and isinstance(cur.orelse[0], ast.If) else None
            tests = [t.func.attr if _is_call_attr(t, t.func.attr if isinstance(t, ast.Call) and isinstance(t.func, ast.Attribute) else "") else None
                     for t, _ in chain]
            if tests[:3] != ["cancelled", "exception", "done"]:
                continue
            for (test, body), branch in zip(chain[:2], ("cancelled", "exception")):
                ctors = [c for n in body for c in [_outcome_ctor(x) for x in ast.walk(n)] if c]
                # names bound in this branch to a StepResult(...) tuple / to a bare outcome
                tuple_names, outcome_names = set(), set()
                for n in body:
                    if isinstance(n, ast.Assign) and len(n.targets) == 1 and isinstance(n.targets[0], ast.Name):
                        v = n.value
                        if isinstance(v, ast.Call) and isinstance(v.func, ast.Name) and v.func.id == "StepResult":
                            tuple_names.add(n.targets[0].id)
                        elif _outcome_ctor(v):
                            outcome_names.add(n.targets[0].id)
                cond_from_outcome = None
                cond_type = None
                for n in body:
                    for call in [x for x in ast.walk(n) if isinstance(x, ast.Call)]:
                        if isinstance(call.func, ast.Name) and call.func.id == "_condition_helper":
                            arg = next((k.value for k in call.keywords if k.arg == "outcome"), None)
                            ct = next((k.value for k in call.keywords if k.arg == "condition_type"), None)
                            cond_type = ct.value if isinstance(ct, ast.Constant) else None
                            if isinstance(arg, ast.Attribute) and arg.attr == "result" and isinstance(arg.value, ast.Name) \
                                    and arg.value.id in tuple_names:
                                cond_from_outcome = True
                            elif isinstance(arg, ast.Name) and arg.id in outcome_names:
                                cond_from_outcome = True
                            elif arg is not None and _outcome_ctor(arg):
                                cond_from_outcome = True
                            else:
                                cond_from_outcome = False
                classes = {c[0] for c in ctors}
                delays = {_value_of(c[1], consts) for c in ctors}
                out[branch] = {"class": classes.pop() if len(classes) == 1 else None,
                               "delay": delays.pop() if len(delays) == 1 else None,
                               "cond_from_outcome": cond_from_outcome, "cond_type": cond_type}
    return out


def _returns(stmts):
    """outcome classes returned anywhere in the statements"""
    out = []
    for s in stmts:
        for n in ast.walk(s):
            if isinstance(n, ast.Return) and n.value is not None:
                c = _outcome_ctor(n.value)
                out.append((c[0], c[1]) if c else ("?", None))
    return out


def _handler_name(h):
    t = h.type
    if t is None:
        return "*"
    if isinstance(t, ast.Attribute):
        return t.attr
    if isinstance(t, ast.Name):
        return t.id
    return "?"


def _rf_table(tree):
    info = {}
    load = _func(tree, "load_api_resource")
    ok = load is not None
    load_retry = False
    if load is not None:
        tries = [n for n in load.body if isinstance(n, ast.Try)]
        ok = ok and len(tries) == 1
        if tries:
            kinds = {}
            for h in tries[0].handlers:
                rets = _returns(h.body)
                kinds[_handler_name(h)] = rets
            info["load_handlers"] = {k: [r[0] for r in v] for k, v in kinds.items()}
            # NotFoundError: absent (no return); ServerError: Retry unless 404; Exception: Retry
            load_retry = (kinds.get("NotFoundError") == []
                          and [r[0] for r in kinds.get("ServerError", [])] == ["Retry"]
                          and [r[0] for r in kinds.get("Exception", [])] == ["Retry"]
                          and all(isinstance(r[1], ast.Name) and r[1].id == "DEFAULT_LOAD_RETRY_DELAY"
                                  for k in ("ServerError", "Exception") for r in kinds.get(k, [])))
    create = _func(tree, "_create_api_resource")
    conflict_retry = other_permfail = exc_permfail = False
    if create is not None:
        for t in [n for n in ast.walk(create) if isinstance(n, ast.Try)]:
            if not any(_is_call_attr(x, "create") for s in t.body for x in ast.walk(s)):
                continue
            for h in t.handlers:
                name = _handler_name(h)
                if name == "ServerError":
                    ifs = [s for s in h.body if isinstance(s, ast.If)]
                    has_409 = any(isinstance(c, ast.Constant) and c.value == 409 for i in ifs for c in ast.walk(i.test))
                    conflict_retry = has_409 and any([r[0] for r in _returns(i.body)] == ["Retry"] for i in ifs)
                    rest = [s for s in h.body if not isinstance(s, ast.If)]
                    other_permfail = [r[0] for r in _returns(rest)] == ["PermFail"]
                elif name == "Exception":
                    exc_permfail = [r[0] for r in _returns(h.body)] == ["PermFail"]
    krm = _func(tree, "reconcile_krm_resource")
    guarded = {"patch": None, "delete": None}
    if krm is not None:
        in_try = set()
        for t in [n for n in ast.walk(krm) if isinstance(n, ast.Try)]:
            for s in t.body:
                for x in ast.walk(s):
                    in_try.add(id(x))
        for x in ast.walk(krm):
            for m in ("patch", "delete"):
                if _is_call_attr(x, m) and isinstance(x.func.value, ast.Name) and x.func.value.id == "api_resource":
                    g = id(x) in in_try
                    guarded[m] = g if guarded[m] is None else (guarded[m] and g)
    info.update({"load_errors_retry": load_retry, "create_conflict_retry": conflict_retry,
                 "create_other_permfail": other_permfail, "create_exception_permfail": exc_permfail,
                 "patch_guarded": guarded["patch"], "delete_guarded": guarded["delete"]})
    ok = ok and create is not None and krm is not None and guarded["patch"] is not None and guarded["delete"] is not None
    return ok, info


def _b(x) -> str:
    return "true" if x else "false"


def _s(x) -> str:
    return '"' + str(x if x is not None else "?").replace("\\", "\\\\").replace('"', '\\"') + '"'


def extract() -> dict:
    wpath = REPO / "src" / "koreo" / "workflow" / "reconcile.py"
    rpath = REPO / "src" / "koreo" / "resource_function" / "reconcile" / "__init__.py"
    info = {"files": [str(wpath), str(rpath)]}
    ok = True
    consts, groups, branches, rf = {}, {}, {}, {}
    try:
        wsrc, rsrc = wpath.read_bytes(), rpath.read_bytes()
        info["sha"] = hashlib.sha256(wsrc + rsrc).hexdigest()[:16]
        wtree = ast.parse(wsrc)
        consts = _consts(wtree)
        for key, fname in (("steps", "_reconcile_steps"), ("items", "_for_each_reconciler")):
            fn = _func(wtree, fname)
            if fn is None:
                ok = False
                continue
            groups[key] = _group(fn, consts)
            branches[key] = _branches(fn, consts)
        rok, rf = _rf_table(ast.parse(rsrc))
        ok = ok and rok
    except Exception as e:  # unreadable source: the tie theorem must fail, not the extractor
        ok = False
        info["error"] = repr(e)

    def br(key, branch, field):
        return (branches.get(key, {}).get(branch) or {}).get(field)

    for key in ("steps", "items"):
        for branch in ("cancelled", "exception"):
            if br(key, branch, "class") is None or br(key, branch, "delay") is None:
                ok = False
    if any(consts.get(c) is None for c in CONSTS):
        ok = False
    lines = [
        "-- REGENERATED by harness/extractors/WorkflowFaultConsts.py from src/koreo/workflow/reconcile.py and",
        "-- src/koreo/resource_function/reconcile/__init__.py; do not edit.",
        "namespace Koreo.Gen.WorkflowFaultConsts",
        f"def extractionOk : Bool := {_b(ok)}",
        f"def stepTimeout : Nat := {consts.get('STEP_TIMEOUT') or 0}",
        f"def timeoutRetryDelay : Int := {consts.get('TIMEOUT_RETRY_DELAY') or 0}",
        f"def unknownErrorRetryDelay : Int := {consts.get('UNKNOWN_ERROR_RETRY_DELAY') or 0}",
    ]
    for key in ("steps", "items"):
        g = groups.get(key, {})
        lines.append(f"def {key}Contained : Bool := {_b(g.get('contained'))}")
        lines.append(f"def {key}TimeoutIsStepTimeout : Bool := {_b(g.get('timeout_is_step_timeout'))}")
        for branch in ("cancelled", "exception"):
            b = branch.capitalize()
            lines.append(f"def {key}{b}Class : String := {_s(br(key, branch, 'class'))}")
            lines.append(f"def {key}{b}Delay : Int := {br(key, branch, 'delay') or 0}")
    for branch in ("cancelled", "exception"):
        b = branch.capitalize()
        lines.append(f"def steps{b}CondFromOutcome : Bool := {_b(br('steps', branch, 'cond_from_outcome'))}")
        lines.append(f"def steps{b}CondType : String := {_s(br('steps', branch, 'cond_type'))}")
    lines += [
        f"def loadErrorsRetry : Bool := {_b(rf.get('load_errors_retry'))}",
        f"def createConflictRetry : Bool := {_b(rf.get('create_conflict_retry'))}",
        f"def createOtherPermFail : Bool := {_b(rf.get('create_other_permfail'))}",
        f"def createExceptionPermFail : Bool := {_b(rf.get('create_exception_permfail'))}",
        f"def patchGuarded : Bool := {_b(rf.get('patch_guarded'))}",
        f"def deleteGuarded : Bool := {_b(rf.get('delete_guarded'))}",
        "end Koreo.Gen.WorkflowFaultConsts",
        "",
    ]
    text = "\n".join(lines)
    gen = LEAN / "Koreo" / "Gen"
    gen.mkdir(parents=True, exist_ok=True)
    p = gen / "WorkflowFaultConsts.lean"
    changed = not (p.exists() and p.read_text() == text)
    if changed:
        p.write_text(text)
    info.update({"ok": ok, "rewritten": changed, "consts": {c: consts.get(c) for c in CONSTS}, "groups": groups,
                 "branches": branches, "rf": rf})
    return info
