"""Shared machinery for the per-property checks (see DESIGN.md section 2).

Every check is `python harness/run.py <Cxx> <quick|thorough>`.  A check
  1. regenerates lean/Koreo/Gen/*.lean from the current sources (extract.py),
  2. builds the property's theorems and the driver (`lake build`, under a lock),
  3. audits the proofs (forbidden tokens, `#print axioms`),
  4. replays the corpus, runs the model/implementation correspondence and the
     property oracle on the implementation,
  5. decides the verdict and rewrites evidence/<id>.json.
"""
from __future__ import annotations

import fcntl
import hashlib
import json
import os
import random
import re
import subprocess
import sys
import time
from fractions import Fraction
from pathlib import Path

VERIF = Path(__file__).resolve().parent.parent
LEAN = VERIF / "lean"
REPO = Path(os.environ.get("VERIF_REPO", "/repo"))
os.environ.setdefault("KOREO_CORE_VERIF", "1")  # the (reserved) hook guard

# the implementation under test is whatever is in REPO's working tree now
sys.path.insert(0, str(REPO / "src"))

ALLOWED_AXIOMS = {"propext", "Classical.choice", "Quot.sound"}
FORBIDDEN = re.compile(
    r"\b(sorry|admit|native_decide|bv_decide|implemented_by|unsafe)\b|^\s*axiom\s|maxHeartbeats\s+0\b"
)


class Infra(Exception):
    """infrastructure failure: exit 2, never a VIOLATION"""


def seed() -> int:
    try:
        return int(os.environ.get("VERIF_SEED", "0"))
    except ValueError:
        return 0


def rng(salt: str = "") -> random.Random:
    return random.Random(f"{seed()}:{salt}")


# --------------------------------------------------------------------------- wire

class Flt:
    """a float restricted to eighths (what the Lean model calls `flt e`)"""

    __slots__ = ("e",)

    def __init__(self, e: int):
        self.e = e


def to_wire(v):
    """Python JSON value -> wire (see lean/Driver/Wire.lean)."""
    if v is None or isinstance(v, (bool, str)):
        return v
    if isinstance(v, int):
        return {"i": str(v)}
    if isinstance(v, float):
        e = Fraction(v) * 8
        if e.denominator != 1:
            raise ValueError(f"float {v!r} is not a multiple of 1/8")
        return {"f": str(e.numerator)}
    if isinstance(v, (list, tuple)):
        return [to_wire(x) for x in v]
    if isinstance(v, dict):
        return {"m": [[str(k), to_wire(x)] for k, x in v.items()]}
    raise ValueError(f"cannot put {type(v)} on the wire")


def from_wire(w):
    if w is None or isinstance(w, (bool, str)):
        return w
    if isinstance(w, list):
        return [from_wire(x) for x in w]
    if isinstance(w, dict):
        if "i" in w:
            return int(w["i"])
        if "f" in w:
            return int(w["f"]) / 8
        if "m" in w:
            return {k: from_wire(x) for k, x in w["m"]}
    raise ValueError(f"bad wire value {w!r}")


def canon(v):
    """canonical, type-faithful text of a JSON value (bool != int != float; dict order kept)"""
    return json.dumps(to_wire(v), sort_keys=False, ensure_ascii=True)


def canon_unordered(v):
    """like canon but dict order ignored"""

    def go(x):
        if isinstance(x, dict):
            return {"m": sorted(([str(k), go(y)] for k, y in x.items()), key=lambda kv: kv[0])}
        if isinstance(x, (list, tuple)):
            return [go(y) for y in x]
        return to_wire(x)

    return json.dumps(go(v), ensure_ascii=True)


# --------------------------------------------------------------------------- lean

def _lake(args: list[str], timeout: int = 3000) -> subprocess.CompletedProcess:
    lock = LEAN / ".lake.lock"
    with open(lock, "w") as fh:
        fcntl.flock(fh, fcntl.LOCK_EX)
        try:
            return subprocess.run(
                ["lake", *args], cwd=LEAN, capture_output=True, text=True, timeout=timeout
            )
        except FileNotFoundError as e:
            raise Infra(f"lake not found: {e}")
        except subprocess.TimeoutExpired as e:
            raise Infra(f"lake timed out: {e}")


def lean_build(targets: list[str]) -> tuple[bool, str]:
    """Build; (ok, output).  A failing build is a broken proof obligation, not an infra error."""
    p = _lake(["build", *targets])
    out = (p.stdout or "") + (p.stderr or "")
    return p.returncode == 0, out


def _strip_comments(src: str) -> str:
    src = re.sub(r"/-.*?-/", lambda m: "\n" * m.group(0).count("\n"), src, flags=re.S)
    return re.sub(r"--.*", "", src)


def theorem_names(prop: str) -> list[str]:
    src = _strip_comments((LEAN / "Koreo" / "Props" / f"{prop}.lean").read_text())
    ns = re.search(r"^namespace\s+(\S+)", src, flags=re.M)
    prefix = ns.group(1) + "." if ns else ""
    return [prefix + m.group(1) for m in re.finditer(r"^\s*theorem\s+([A-Za-z0-9_'.]+)", src, flags=re.M)]


def lean_sources_for(prop: str) -> list[Path]:
    """transitive Koreo.* imports of the property module"""
    seen: dict[str, Path] = {}
    todo = [f"Koreo.Props.{prop}"]
    while todo:
        m = todo.pop()
        if m in seen:
            continue
        p = LEAN / (m.replace(".", "/") + ".lean")
        if not p.exists():
            continue
        seen[m] = p
        for im in re.findall(r"^import\s+(Koreo\.\S+)", p.read_text(), flags=re.M):
            todo.append(im)
    return list(seen.values())


def lean_audit(prop: str) -> dict:
    """forbidden-token grep + `#print axioms` on every theorem of Props/<prop>.lean"""
    bad_tokens = []
    for p in lean_sources_for(prop):
        for i, line in enumerate(_strip_comments(p.read_text()).splitlines(), 1):
            if FORBIDDEN.search(line):
                bad_tokens.append(f"{p.relative_to(LEAN)}:{i}: {line.strip()}")
    names = theorem_names(prop)
    audit_dir = LEAN / ".lake" / "audit"
    audit_dir.mkdir(parents=True, exist_ok=True)
    f = audit_dir / f"{prop}.lean"
    f.write_text(f"import Koreo.Props.{prop}\n" + "".join(f"#print axioms {n}\n" for n in names))
    p = _lake(["env", "lean", str(f)])
    out = (p.stdout or "") + (p.stderr or "")
    axioms: dict[str, list[str]] = {}
    for m in re.finditer(r"'([^']+)' depends on axioms: \[([^\]]*)\]", out, flags=re.S):
        axioms[m.group(1)] = [a.strip() for a in m.group(2).replace("\n", " ").split(",") if a.strip()]
    for m in re.finditer(r"'([^']+)' does not depend on any axioms", out):
        axioms[m.group(1)] = []
    discharged = [n for n in names if n in axioms and set(axioms[n]) <= ALLOWED_AXIOMS]
    bad_axioms = {n: a for n, a in axioms.items() if not set(a) <= ALLOWED_AXIOMS}
    missing = [n for n in names if n not in axioms]
    used = sorted({a for v in axioms.values() for a in v})
    return {
        "theorems": names,
        "discharged": discharged,
        "bad_axioms": bad_axioms,
        "missing": missing,
        "bad_tokens": bad_tokens,
        "axioms_used": used,
        "ok": p.returncode == 0 and not bad_tokens and not bad_axioms and not missing and bool(names),
        "raw": out if p.returncode != 0 else "",
    }


class LeanDriver:
    """batch line protocol with the compiled Lean driver"""

    def __init__(self, model: str):
        self.model = model
        self.exe = LEAN / ".lake" / "build" / "bin" / f"driver_{model.lower()}"

    def ask(self, reqs: list) -> list:
        if not reqs:
            return []
        if not self.exe.exists():
            raise Infra("lean driver not built")
        data = "".join(json.dumps(r, ensure_ascii=True) + "\n" for r in reqs)
        p = subprocess.run([str(self.exe)], input=data, capture_output=True, text=True, timeout=3000)
        if p.returncode != 0:
            raise Infra(f"driver failed: {p.stderr[:500]}")
        lines = p.stdout.split("\n")  # not splitlines(): answers may contain U+0085 / U+2028
        if lines and lines[-1] == "":
            lines.pop()
        if len(lines) != len(reqs):
            raise Infra(f"driver answered {len(lines)} lines for {len(reqs)} requests")
        return [json.loads(l) for l in lines]


# --------------------------------------------------------------------------- shrinking

def ddmin(items: list, fails) -> list:
    """delta debugging on a list: a minimal sub-list on which `fails` still holds"""
    items = list(items)
    n = 2
    while len(items) >= 2:
        chunk = max(1, len(items) // n)
        reduced = False
        for i in range(0, len(items), chunk):
            cand = items[:i] + items[i + chunk:]
            try:
                if cand and fails(cand):
                    items, n, reduced = cand, max(n - 1, 2), True
                    break
            except Exception:
                pass
        if not reduced:
            if chunk == 1:
                break
            n = min(len(items), n * 2)
    return items


# --------------------------------------------------------------------------- findings

def known_findings(prop: str) -> list[dict]:
    out = []
    f = VERIF / "KNOWN_FINDINGS.txt"
    if not f.exists():
        return out
    for line in f.read_text().splitlines():
        line = line.strip()
        if not line.startswith("finding:"):
            continue
        m = re.match(r"finding:\s+property=(\S+)\s+class=(\S+)\s+witness=(\S+)\s+(.*)", line)
        if m and m.group(1) == prop:
            out.append({"class": m.group(2), "witness": m.group(3), "what": m.group(4)})
    return out


# --------------------------------------------------------------------------- a check run

class Check:
    """collects what one run did and decides the verdict (DESIGN.md 2.5)"""

    def __init__(self, prop: str, tier: str):
        self.prop, self.tier = prop, tier
        self.t0 = time.time()
        self.proof: dict = {}
        self.build_ok = True
        self.build_out = ""
        self.cov: dict = {"evaluations": 0, "samples": [], "distribution": {}}
        self.nontrivial: set = set()
        self.disagreements: list = []   # model vs implementation
        self.violations: list = []      # implementation vs property (oracle)
        self.known_hits: dict = {}      # finding class -> example
        self.assumptions: list[str] = []
        self.trusted: list[str] = []
        self.notes: list[str] = []
        self.extracted: dict = {}
        self.classifiers: dict = {}     # finding class -> predicate(case) -> bool

    # -- proof side
    def prove(self, extractors: list[str] | None = None, extra_targets: list[str] | None = None):
        """regenerate the Gen tables this property needs, build its theorems + driver, audit"""
        from extract import run_extract

        self.extracted = run_extract(extractors or [])
        driver = f"driver_{self.prop.lower()}"
        targets = [f"Koreo.Props.{self.prop}", driver] + (extra_targets or [])
        self.build_ok, self.build_out = lean_build(targets)
        if self.build_ok:
            self.proof = lean_audit(self.prop)
        else:
            self.proof = {"theorems": theorem_names(self.prop), "discharged": [], "ok": False,
                          "axioms_used": [], "bad_axioms": {}, "missing": [], "bad_tokens": []}
            # the driver may still be buildable without the property module
            ok2, _ = lean_build([driver])
            if not ok2:
                self.notes.append("driver does not build either")
        return self.build_ok and self.proof.get("ok", False)

    def leanchecker(self):
        mods = [f"Koreo.Props.{self.prop}"]
        p = _lake(["env", "leanchecker", *mods], timeout=3000)
        ok = p.returncode == 0
        self.cov["leanchecker"] = {"modules": mods, "ok": ok}
        if not ok:
            self.notes.append("leanchecker: " + ((p.stdout or "") + (p.stderr or ""))[-400:])
            self.proof["ok"] = False
        return ok

    # -- exploration side
    def count(self, key: str, n: int = 1):
        d = self.cov["distribution"]
        d[key] = d.get(key, 0) + n

    def sample(self, case, limit: int = 5):
        if len(self.cov["samples"]) < limit:
            self.cov["samples"].append(case)

    def evaluated(self, n: int = 1):
        self.cov["evaluations"] += n

    def nontriv(self, key):
        self.nontrivial.add(key if isinstance(key, (str, int, tuple)) else json.dumps(key, sort_keys=True, default=str))

    def disagree(self, case, model, impl, relation: str):
        self.disagreements.append({"relation": relation, "case": case, "model": model, "impl": impl})

    def clause_crashed(self, name: str, e: BaseException):
        """a sub-clause of a check raised: if the exception comes out of the tree under test it is a
        broken correspondence (the code now raises where it did not); otherwise it is harness trouble
        and only noted"""
        import traceback
        koreo_src = os.path.join(str(REPO), "src", "koreo")
        frames = traceback.extract_tb(e.__traceback__)
        if frames and any(f.filename.startswith(koreo_src) for f in frames[-3:]):
            self.disagree({"clause": name}, None, f"{type(e).__name__}: {e}",
                          "clause crashed inside the tree under test")
        else:
            self.notes.append(f"{name} not exercised: {e!r}")

    def violate(self, case, what: str):
        """the implementation breaks the property on `case` (already minimised if possible)"""
        for cls, pred in self.classifiers.items():
            try:
                if pred(case):
                    self.known_hits.setdefault(cls, {"case": case, "what": what, "count": 0})
                    self.known_hits[cls]["count"] += 1
                    return
            except Exception:
                pass
        self.violations.append({"case": case, "what": what})

    # -- verdict
    def finish(self, widen=None, rule: str = "", level: str = "proof", checker_cmd: str = "") -> int:
        prop = self.prop
        proof_ok = self.build_ok and self.proof.get("ok", False)
        replay_dir = VERIF / "replay"
        exit_code = 0
        lines = []
        findings = {f["class"]: f for f in known_findings(prop)}
        for cls, hit in self.known_hits.items():
            if cls in findings:
                lines.append(f"KNOWN-FINDING: property={prop} {findings[cls]['what']}")
            else:  # a classifier without a committed finding line is not a licence
                self.violations.append({"case": hit["case"], "what": hit["what"]})
        if not self.violations and (not proof_ok or self.disagreements) and widen is not None:
            try:
                widen(self)
            except Infra:
                raise
            except Exception as e:  # widening is best effort
                self.notes.append(f"widened search crashed: {e!r}")
        if self.violations:
            replay_dir.mkdir(exist_ok=True)
            path = replay_dir / f"{prop}-{seed()}.json"
            path.write_text(json.dumps({
                "property": prop, "seed": seed(), "tier": self.tier, "kind": "failing-input",
                "violations": self.violations[:20],
            }, indent=1, default=str))
            lines.append(f"VIOLATION property={prop} replay={path}")
            exit_code = 1
        elif not proof_ok or self.disagreements:
            replay_dir.mkdir(exist_ok=True)
            path = replay_dir / f"{prop}-{seed()}.json"
            broken = []
            if not self.build_ok:
                broken.append({"kind": "lean-build", "output": self.build_out[-3000:]})
            elif not self.proof.get("ok", False):
                broken.append({"kind": "audit", "detail": {k: self.proof.get(k) for k in
                                                            ("bad_axioms", "missing", "bad_tokens", "raw")}})
            for d in self.disagreements[:20]:
                broken.append({"kind": "correspondence", **d})
            path.write_text(json.dumps({
                "property": prop, "seed": seed(), "tier": self.tier, "kind": "unproved",
                "no_longer_checks": broken, "notes": self.notes,
            }, indent=1, default=str))
            lines.append(f"VIOLATION property={prop} replay={path} no-failing-input-found")
            exit_code = 1
        self.write_evidence(rule, level, checker_cmd, exit_code)
        for l in lines:
            print(l)
        print(f"[{prop}/{self.tier}] seed={seed()} theorems={len(self.proof.get('discharged', []))}/"
              f"{len(self.proof.get('theorems', []))} evaluations={self.cov['evaluations']} "
              f"nontrivial={len(self.nontrivial)} disagreements={len(self.disagreements)} "
              f"violations={len(self.violations)} known={list(self.known_hits)} "
              f"wall={time.time() - self.t0:.1f}s exit={exit_code}")
        return exit_code

    def write_evidence(self, rule: str, level: str, checker_cmd: str, exit_code: int):
        thms = self.proof.get("theorems", [])
        cov = dict(self.cov)
        cov.update({
            "obligations": len(thms),
            "discharged": len(self.proof.get("discharged", [])),
            "checker_cmd": checker_cmd or f"cd lean && lake build Koreo.Props.{self.prop} driver_{self.prop.lower()} && lake env lean .lake/audit/{self.prop}.lean  (#print axioms on every theorem; forbidden-token grep)",
            "trusted_base": self.trusted or [
                "Lean 4.33.0 kernel", "hand-written model tied to the code by this run's correspondence only",
                "harness/extract.py and harness/*.py (ordinary Python)"],
            "theorems": thms,
            "axioms_used": self.proof.get("axioms_used", []),
            "distinct_nontrivial": len(self.nontrivial),
            "rule": rule,
            "disagreements_checked": len(self.disagreements),
            "known_findings_hit": {k: v["count"] for k, v in self.known_hits.items()},
            "extracted": self.extracted,
            "notes": self.notes,
        })
        ev = {
            "property_id": self.prop, "tier": self.tier, "seed": seed(), "level": level,
            "coverage": cov, "assumptions": self.assumptions,
            "wall_s": round(time.time() - self.t0, 2), "violations": len(self.violations),
        }
        d = VERIF / "evidence"
        d.mkdir(exist_ok=True)
        (d / f"{self.prop}.json").write_text(json.dumps(ev, indent=1, default=str) + "\n")


def file_hash(paths) -> str:
    h = hashlib.sha256()
    for p in paths:
        h.update(Path(p).read_bytes())
    return h.hexdigest()[:16]
