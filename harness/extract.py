"""The translator: regenerates lean/Koreo/Gen/*.lean from /repo's current sources.

Only tables and constants are translated (an `ast` walk is robust there); the
theorems in Koreo/Props/* that mention `Koreo.Gen.*` are re-checked against what
the code says now on every run.  Each extractor returns a dict that goes into the
evidence file; an extractor that cannot read the source emits a Lean file whose
`extractionOk` is `false`, which breaks the corresponding theorem.
"""
from __future__ import annotations

import ast
import hashlib
from pathlib import Path

from common import LEAN, REPO

GEN = LEAN / "Koreo" / "Gen"
SRC = REPO / "src" / "koreo"


def _write(name: str, text: str) -> bool:
    GEN.mkdir(parents=True, exist_ok=True)
    p = GEN / name
    if p.exists() and p.read_text() == text:
        return False
    p.write_text(text)
    return True


def _sha(p: Path) -> str:
    return hashlib.sha256(p.read_bytes()).hexdigest()[:16]


def lean_str(s: str) -> str:
    out = ['"']
    for ch in s:
        o = ord(ch)
        if ch == '"':
            out.append('\\"')
        elif ch == "\\":
            out.append("\\\\")
        elif ch == "\n":
            out.append("\\n")
        elif ch == "\t":
            out.append("\\t")
        elif ch == "\r":
            out.append("\\r")
        elif o < 32 or o == 127:
            out.append("\\x%02x" % o)
        else:
            out.append(ch)
    out.append('"')
    return "".join(out)


# --------------------------------------------------------------------------- C03: result.py

CLS = {"DepSkip": "depSkip", "Skip": "skip", "Ok": "ok", "Retry": "retry", "PermFail": "permFail"}


def _isinstance_classes(test: ast.expr):
    """`isinstance(other, X)` / `isinstance(other, (X, Y))` -> (set of class names, negated)"""
    neg = False
    if isinstance(test, ast.UnaryOp) and isinstance(test.op, ast.Not):
        neg, test = True, test.operand
    if not (isinstance(test, ast.Call) and isinstance(test.func, ast.Name) and test.func.id == "isinstance"):
        return None
    if not (len(test.args) == 2 and isinstance(test.args[0], ast.Name) and test.args[0].id == "other"):
        return None
    t = test.args[1]
    names = [t] if isinstance(t, ast.Name) else list(t.elts) if isinstance(t, ast.Tuple) else None
    if names is None or not all(isinstance(n, ast.Name) and n.id in CLS for n in names):
        return None
    return {n.id for n in names}, neg


def _classify_return(stmts, own: str):
    """what a guarded block of `combine` returns: self | other | wrapSelf | None (unknown)"""
    rets = [n for s in stmts for n in ast.walk(s) if isinstance(n, ast.Return)]
    kinds = set()
    for r in rets:
        v = r.value
        if isinstance(v, ast.Name) and v.id in ("self", "other"):
            kinds.add(v.id)
        elif (isinstance(v, ast.Call) and isinstance(v.func, ast.Name) and v.func.id == own == "Ok"
              and "other" not in {n.id for n in ast.walk(v) if isinstance(n, ast.Name)}):
            kinds.add("wrap")  # Ok(data=_OkData([self.data]), location=self.location)
        else:
            return None
    if kinds == {"self"}:
        return "self"
    if kinds == {"other"}:
        return "other"
    if kinds == {"self", "wrap"} and own == "Ok":
        return "wrapSelf"
    return None


def extract_result_table() -> dict:
    path = SRC / "result.py"
    info = {"file": str(path), "sha": _sha(path)}
    ok = True
    table: dict[tuple[str, str], str] = {}
    sep = None
    delay_op = None
    try:
        tree = ast.parse(path.read_text())
        classes = {n.name: n for n in tree.body if isinstance(n, ast.ClassDef)}
        helpers = {n.name: n for n in tree.body if isinstance(n, ast.FunctionDef)}
        for own in CLS:
            fn = next(f for f in classes[own].body if isinstance(f, ast.FunctionDef) and f.name == "combine")
            for other in CLS:
                act = None
                for st in fn.body:
                    if isinstance(st, ast.If) and not st.orelse:
                        ic = _isinstance_classes(st.test)
                        if ic is None:
                            if _contains_return(st):
                                ok = False
                            continue
                        names, neg = ic
                        if (other in names) != neg:
                            act = _classify_return(st.body, own)
                            if act is None:
                                ok = False
                            break
                    elif isinstance(st, ast.Return):
                        v = st.value
                        if isinstance(v, ast.Name) and v.id in ("self", "other"):
                            act = v.id
                        elif isinstance(v, ast.Call) and isinstance(v.func, ast.Name) and v.func.id == own:
                            act = "merge"
                        else:
                            ok = False
                        break
                if act is None:
                    ok = False
                    act = "self"
                table[(own, other)] = act
            for s in _join_separators(fn, helpers):
                if sep is None:
                    sep = s
                elif sep != s:
                    ok = False
            for n in ast.walk(fn):
                if isinstance(n, ast.keyword) and n.arg == "delay" and own == "Retry":
                    v = n.value
                    if isinstance(v, ast.Call) and isinstance(v.func, ast.Name):
                        args = [ast.unparse(a) for a in v.args]
                        if sorted(args) == ["other.delay", "self.delay"]:
                            delay_op = v.func.id
                        else:
                            ok = False
                    else:
                        delay_op = "other:" + ast.unparse(v)
        # the seed of the fold and the empty-sequence answer
        for fname in ("combine", "unwrapped_combine"):
            f = next(n for n in tree.body if isinstance(n, ast.FunctionDef) and n.name == fname)
            src = ast.unparse(f)
            if "DepSkip()" not in src or "return Skip()" not in src or "reduce(" not in src:
                ok = False
    except Exception as e:  # unreadable source: the obligation breaks
        ok = False
        info["error"] = repr(e)
    if sep is None:
        sep, ok = "", False
    if delay_op is None:
        delay_op, ok = "?", False
    lines = [
        "-- REGENERATED by harness/extract.py from src/koreo/result.py on every run; do not edit.",
        "import Koreo.Result",
        "namespace Koreo.Gen.ResultTable",
        "open Koreo.Result",
        f"def extractionOk : Bool := {'true' if ok else 'false'}",
        "def table : Cls → Cls → Act",
    ]
    for own in CLS:
        for other in CLS:
            lines.append(f"  | .{CLS[own]}, .{CLS[other]} => .{table.get((own, other), 'self')}")
    lines += [
        f"def sep : String := {lean_str(sep)}",
        f"def delayOpName : String := {lean_str(delay_op)}",
        "end Koreo.Gen.ResultTable",
        "",
    ]
    changed = _write("ResultTable.lean", "\n".join(lines))
    info.update({"ok": ok, "rewritten": changed, "delay_op": delay_op, "sep": sep})
    return info


def _join_separators(fn, helpers, depth: int = 3) -> list[str]:
    """the constants `c` of every `c.join(...)` in `fn` and in the module-level helpers it calls
    (a refactor may move the joining of messages / locations into a helper)"""
    out = []
    seen = set()

    def walk(f, d):
        for n in ast.walk(f):
            if (isinstance(n, ast.Call) and isinstance(n.func, ast.Attribute) and n.func.attr == "join"
                    and isinstance(n.func.value, ast.Constant) and isinstance(n.func.value.value, str)):
                out.append(n.func.value.value)
            elif (isinstance(n, ast.Call) and isinstance(n.func, ast.Name) and n.func.id in helpers
                    and n.func.id not in seen and d > 0):
                seen.add(n.func.id)
                walk(helpers[n.func.id], d - 1)

    walk(fn, depth)
    return out


def _contains_return(node) -> bool:
    return any(isinstance(n, ast.Return) for n in ast.walk(node))


EXTRACTORS = {"ResultTable": extract_result_table}


def _discover():
    """extractors may also live in harness/extractors/<Name>.py (each defines `extract() -> dict`)"""
    import importlib.util

    d = Path(__file__).resolve().parent / "extractors"
    found = dict(EXTRACTORS)
    if d.is_dir():
        for f in sorted(d.glob("*.py")):
            if f.name.startswith("_"):
                continue
            spec = importlib.util.spec_from_file_location(f"extractors_{f.stem}", f)
            mod = importlib.util.module_from_spec(spec)
            spec.loader.exec_module(mod)
            found[f.stem] = mod.extract
    return found


def run_extract(only: list[str] | None = None) -> dict:
    """`only=None` runs every extractor; a check passes the names it depends on"""
    out = {}
    found = _discover() if only is None else None
    for name in (found if only is None else only):
        fn = (found or EXTRACTORS).get(name)
        if fn is None:
            fn = _discover()[name]
        out[name] = fn()
    return out


if __name__ == "__main__":
    import json

    print(json.dumps(run_extract(), indent=1))
