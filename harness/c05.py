"""C05 — Drift in any target-specified field triggers the configured correction.

proof:   lean/Koreo/Props/C05.lean (completeness of the comparator, policy dispatch, patch restores the target)
tie:     as C04, with the generator's drift stream: one deviation (change / retype / null / delete / shorten / extend /
         reorder / add or remove a set member / bool<->number / remove or re-key a keyed member / junk) at a
         target-specified path chosen uniformly over leaves and containers
oracle:  every drifted object gets exactly the policy's action (patch: one PATCH carrying the full target; recreate: one
         DELETE; never: nothing), Retry for the first two, and after the patch the object meets the target
"""
from __future__ import annotations

import copy
import json

import gen_rf45 as g
import rf45
from common import VERIF, Check, LeanDriver, known_findings, rng

PROP = "C05"


def set_bool_only(case) -> bool:
    """finding class set-directed-bool-number: the only deviation is a bool<->number swap of equal truth value
    inside an x-koreo-compare-as-set list"""
    if case.get("kind") == "unit":
        t, live = case["t"], case["live"]
    else:
        t, live = rf45.target_of(case["p"]), case["befores"][-1]
    if live is None or g.meets("excl", t, live):
        return False
    return _loose_meets(t, live)


def _loose_meets(t, live) -> bool:
    """Meets-excl with bool/number of equal truth value identified inside set-directed lists only"""
    def norm(tv, lv):
        if isinstance(tv, dict) and isinstance(lv, dict):
            sets, _, maps = g.spec_dirs(tv)
            nt, nl = {}, dict(lv)
            for k, x in tv.items():
                if k in sets and isinstance(x, list) and isinstance(lv.get(k), list) and k not in maps:
                    nt[k] = [int(y) if isinstance(y, bool) else y for y in x]
                    nl[k] = [int(y) if isinstance(y, bool) else y for y in lv[k]]
                elif k in maps and isinstance(x, list) and isinstance(lv.get(k), list):
                    ms_t, ms_l = [], list(lv[k])
                    for tm in x:
                        idx = next((i for i, m in enumerate(ms_l) if isinstance(m, dict) and isinstance(tm, dict)
                                    and g.member_key(m, maps[k]) == g.member_key(tm, maps[k])), None)
                        if idx is None:
                            ms_t.append(tm)
                        else:
                            a, b = norm(tm, ms_l[idx])
                            ms_t.append(a)
                            ms_l[idx] = b
                    nt[k], nl[k] = ms_t, ms_l
                elif k in lv and k not in g.DIRECTIVES:
                    nt[k], nl[k] = norm(x, lv[k])
                else:
                    nt[k] = x
            return nt, nl
        if isinstance(tv, list) and isinstance(lv, list) and len(tv) == len(lv):
            pairs = [norm(a, b) for a, b in zip(tv, lv)]
            return [a for a, _ in pairs], [b for _, b in pairs]
        return tv, lv

    nt, nl = norm(t, live)
    return g.meets("excl", nt, nl)


def scenarios(r, p):
    """create -> a pass that finds the object matching (no mutation) -> drift applied to the stored object
    (the server's bookkeeping applied: metadata-only edits leave metadata.generation alone) -> the pass that has
    to correct -> one more pass.  All passes of a scenario use one prepared function in one process."""
    t = rf45.target_of(p)
    meta_only = r.random() < 0.4

    def exclude(path):
        if rf45.identity_path(path):
            return True
        return meta_only and not (path and path[0] == ("k", "metadata"))

    def perturb(cur):
        if cur is None:
            return None
        cur = g.decorate_object(r, t, cur) if r.random() < 0.5 else cur
        d = g.drift(r, t, cur, exclude=exclude) or g.drift(r, t, cur, exclude=rf45.identity_path)
        return d[0] if d else cur

    def perturb_and_drop_owner(cur):
        cur = perturb(cur)
        if cur is not None and isinstance(cur.get("metadata"), dict):
            cur["metadata"].pop("ownerReferences", None)
        return cur

    if not p.get("createEnabled", True):      # may not create: present (provisioned elsewhere) x drifted x policy
        return rf45.synth_stored(p), ([None, perturb, None] if r.random() < 0.6 else [perturb, None, None])
    c = r.random()
    if c < 0.7:
        return None, [None, None, perturb, None]
    if c < 0.8:
        return None, [None, perturb, None]
    if c < 0.9:
        return None, [None, None, perturb, perturb]
    return None, [None, None, perturb_and_drop_owner, None]


WRITE_FAULTS = ["raise-before", "raise-before", 500, 503, 409, 429, "no-response", "raise-after"]


def failed_correction(r, p):
    """(stored, steps, faults): the corrective call itself fails — the PATCH / DELETE of the pass that found the
    drift is answered with an error or raises in flight (the second API call of that pass).  The drift is still
    there afterwards (except `raise-after`: applied, the client did not see the answer): the next pass has to
    correct it as if nothing had happened; so has a pass over a *new* drift later on."""
    stored, steps = scenarios(r, p)
    steps = list(steps)
    perturbs = [i for i, s in enumerate(steps) if s is not None]
    if not perturbs:
        return stored, steps, None
    i = perturbs[0]
    fault = {"at": 1, "fault": r.choice(WRITE_FAULTS)}
    c = r.random()
    if c < 0.5:            # drift, failed correction, correction, quiet pass
        steps = steps[:i + 1] + [None, None]
    elif c < 0.8:          # ... and a new drift after the repaired one
        steps = steps[:i + 1] + [None, None, steps[i], None]
    else:                  # the correction fails twice
        steps = steps[:i + 1] + [None, None, None]
        return stored, steps, {i: fault, i + 1: {"at": 1, "fault": r.choice(WRITE_FAULTS)}}
    return stored, steps, {i: fault}


def check_scenario(ck, drv, p, stored, steps, faults=None):
    got = rf45.run_scenario(ck, drv, p, stored, steps, faults=faults)
    if got is None:
        return
    obs, _ = got
    t = rf45.target_of(p)
    prev = None
    for n, o in enumerate(obs):
        if o["before"] is not None and g.wf(t) and not g.meets("excl", t, o["before"]):
            ck.nontriv(("e", rf45.cn(p["T"]), p["policy"], rf45.cn(o["before"])))
            ck.count(f"drifted-pass:{p['policy']}")
            if prev is not None and not prev["reqs"] and prev["o"]["c"] == "ok":
                ck.count("drifted-pass-after-a-matching-pass")
                if rf45.cn(rf45._outside_metadata(prev["before"])) == rf45.cn(rf45._outside_metadata(o["before"])):
                    ck.count("drifted-pass-after-a-matching-pass:metadata-only")
            if any(q.get("wfault") is not None for q in obs[:n]):
                ck.count("drifted-pass-after-a-failed-correction")
        if o.get("wfault") is not None:
            # the write of this pass failed in flight: its outcome is the API layer's error; the property
            # speaks about the passes that follow (the drift is still there, or there is a new one)
            ck.count(f"failed-correction:{p['policy']}:{o['wfault']['fault']}")
            prev = o
            continue
        bad = rf45.oracle_c05_pass(p, o)
        if bad:
            # the pass before belongs to the input: what the process saw earlier may matter
            befores = ([prev["before"]] if prev is not None and prev["before"] is not None else []) + [o["before"]]
            case = {"kind": "e2e", "p": p, "befores": befores}
            if faults:
                # with faults in the scenario the whole history on the present object belongs to the input
                s0 = n
                while s0 > 0 and obs[s0 - 1]["before"] is not None:
                    s0 -= 1
                case["befores"] = [q["before"] for q in obs[s0:n + 1]]
                fs = {str(k - s0): q["wfault"] for k, q in enumerate(obs[:n]) if k >= s0 and q.get("wfault") is not None}
                if fs:
                    case["faults"] = fs
            ck.violate(case, bad)
        prev = o


def replay_case(case, verbose=True) -> str | None:
    if case.get("kind") == "unit":
        iv = rf45.impl_vm(case["t"], case["live"], case["la"])
        bad = rf45.oracle_c05_unit(case, iv)
        if verbose:
            print("replay(unit):", json.dumps({k: case[k] for k in ("t", "live", "la")}), "->", iv, "::", bad)
        return bad
    p, befores = case["p"], case["befores"]
    steps = [(lambda cur, b=b: copy.deepcopy(b)) for b in befores]
    obs = rf45.Prepared(p).run_passes(None, steps, case.get("faults"))
    if obs and "prepare" in obs[0]:
        return None
    bad = rf45.oracle_c05_pass(p, obs[-1])
    if verbose:
        print("replay(e2e):", json.dumps(rf45.program_spec(p)[0])[:400], "->",
              [(o["o"], [q["m"] for q in o["reqs"]]) for o in obs], "::", bad)
    return bad


def run(tier: str) -> int:
    ck = Check(PROP, tier)
    ck.trusted = rf45.TRUSTED
    ck.assumptions = rf45.ASSUMPTIONS
    ck.classifiers["set-directed-bool-number"] = set_bool_only
    ck.prove(extractors=["Compare45"])
    drv = LeanDriver(PROP)
    listed = {f["class"] for f in known_findings(PROP)}

    for f in sorted((VERIF / "corpus" / PROP).glob("*.json")):
        for case in json.loads(f.read_text()).get("cases", []):
            ck.evaluated()
            ck.count("corpus")
            bad = replay_case(case, verbose=False)
            if bad:
                ck.violate({**case, "corpus": f.name}, bad)

    quick = tier == "quick"
    rf45.unit_phase(ck, drv, 20000 if quick else 300000,
                    {"decorated": 2, "drift": 7, "random": 1, "malformed": 1}, rf45.oracle_c05_unit, "c05-unit")
    rf45.update_phase(ck, drv)
    r = rng("c05-e2e")
    for _ in range(400 if quick else 4000):
        p = rf45.gen_program(r, nulls=r.random() < 0.05)
        stored, steps = scenarios(r, p)
        check_scenario(ck, drv, p, stored, steps)
    r = rng("c05-e2e-failed-correction")
    for _ in range(100 if quick else 1000):
        p = rf45.gen_program(r, policy=r.choice(["patch", "patch", "recreate", "default", None]))
        stored, steps, faults = failed_correction(r, p)
        check_scenario(ck, drv, p, stored, steps, faults)
    if not quick:
        ck.leanchecker()
    if listed:
        # inside a listed finding's class the correspondence is not required to hold (DESIGN 2.6)
        ck.disagreements = [d for d in ck.disagreements
                            if not any(c in listed and pred(d["case"]) for c, pred in ck.classifiers.items())]

    def widen(ck):
        rf45.unit_phase(ck, drv, 60000, {"drift": 8, "decorated": 1}, rf45.oracle_c05_unit, "c05-widen")
        r2 = rng("c05-widen-e2e")
        for _ in range(300):
            p = rf45.gen_program(r2)
            stored, steps = scenarios(r2, p)
            check_scenario(ck, drv, p, stored, steps)
            if r2.random() < 0.3:
                p = rf45.gen_program(r2)
                stored, steps, faults = failed_correction(r2, p)
                check_scenario(ck, drv, p, stored, steps, faults)

    return ck.finish(
        widen=widen,
        rule="unit: generated targets x live objects with one deviation at a target-specified path drawn uniformly over "
             "leaves and containers (kinds listed in the evidence distribution `drift-at:*`), plus decorated / random / "
             "malformed-target triples; non-trivial = well-formed target and live has drift (or meets), distinct by "
             "(target, live, last-applied). end to end: generated ResourceFunctions x each update policy, create, then "
             "perturb the stored object and reconcile twice; non-trivial = a pass that started from a drifted object, "
             "distinct by (target, policy, stored object)",
    )


def replay(path: str) -> int:
    data = json.load(open(path))
    cases = [v["case"] for v in data.get("violations", [])] or data.get("cases", [])
    rc = 0
    for case in cases:
        rc = max(rc, 1 if replay_case(case) else 0)
    return rc
