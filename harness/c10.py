"""C10 — expression failures surface as PermFail, never as crashes or leaked errors.

proof:   lean/Koreo/Props/C10.lean over lean/Koreo/EvalScan.lean, + Gen/EvalSites.lean
tie:     (a) the evaluation call sites of the three reconcile modules, the shape of
             check_for_celevalerror and the try/scan/except shape of the three evaluators,
             regenerated from the source (harness/extractors/EvalSites.py);
         (b) unit differential of check_for_celevalerror against the model's scan on random
             trees with error objects as values, list/tuple items and map keys;
         (c) ValueFunctions, ResourceFunctions (against harness/cluster.py) and Workflow steps
             with a failing sub-expression planted at a random position of a random site
             ("real" stream: celpy decides), or with celpy's answer at one site replaced by an
             arbitrary tree containing an error object / by a raised exception ("injected" stream:
             the theorems' "for every oracle").  A wrapper around celpy.InterpretedRunner.evaluate
             (third-party class, patched from here) records what celpy answered at each site; the
             same answers are the oracle of the compiled Lean model, whose evaluation log, outcome
             class and request methods must coincide with the implementation's.
oracle:  on what the real code did: no exception escapes; a failed evaluation ⇒ PermFail that
         names the location; every returned value / state / request body is free of error objects.
"""
from __future__ import annotations

import copy
import json

from common import Check, Infra, LeanDriver, rng

# ----------------------------------------------------------------------------- trees with error objects

ERR = {"e": 1}


def gen_tree(r, depth=0, force_err=False):
    """wire tree (see lean/Driver/C10.lean); `force_err` plants at least one error object"""
    def scalar():
        return r.choice([None, True, False, "s", "", {"i": "0"}, {"i": "7"}, {"i": "-3"}])

    if force_err and (depth >= 3 or r.random() < 0.25):
        return ERR
    if not force_err and (depth >= 3 or r.random() < 0.35):
        return ERR if r.random() < 0.08 else scalar()
    n = r.randint(0 if not force_err else 1, 3)
    where = r.randrange(n) if force_err and n else -1
    if r.random() < 0.5:
        return [gen_tree(r, depth + 1, force_err=(i == where)) for i in range(n)]
    kvs = []
    for i in range(n):
        if i == where and r.random() < 0.3:
            kvs.append([ERR, gen_tree(r, depth + 1)])          # the error object is the key
        else:
            key = ERR if (not force_err and r.random() < 0.03) else f"k{i}"
            kvs.append([key, gen_tree(r, depth + 1, force_err=(i == where))])
    return {"m": kvs}


def tree_has_err(w) -> bool:
    """independent of the model and of koreo: is there an error object in the wire tree?"""
    if w == ERR:
        return True
    if isinstance(w, list):
        return any(tree_has_err(x) for x in w)
    if isinstance(w, dict) and "m" in w:
        return any(k == ERR or tree_has_err(v) for k, v in w["m"])
    return False


_HASHABLE = {}


def hashable_error(celpy):
    """celpy.CELEvalError defines __eq__ and is therefore unhashable; a map *key* can only be an error
    object of a subclass that restores hashing (check_for_celevalerror matches subclasses too)"""
    if "cls" not in _HASHABLE:
        class HashableCELEvalError(celpy.CELEvalError):
            __hash__ = object.__hash__

        _HASHABLE["cls"] = HashableCELEvalError
    return _HASHABLE["cls"]


def tree_to_py(w, r, celpy, celtypes):
    """wire tree -> the Python object koreo would see (celtypes or plain containers, tuples too)"""
    if w == ERR:
        return celpy.CELEvalError("planted error object")
    if w is None or isinstance(w, bool):
        return celtypes.BoolType(w) if isinstance(w, bool) and r.random() < 0.5 else w
    if isinstance(w, str):
        return celtypes.StringType(w)
    if isinstance(w, list):
        items = [tree_to_py(x, r, celpy, celtypes) for x in w]
        c = r.random()
        return celtypes.ListType(items) if c < 0.6 else (tuple(items) if c < 0.8 else items)
    if "i" in w:
        return celtypes.IntType(int(w["i"]))
    if "m" in w:
        d = {}
        for k, v in w["m"]:
            key = hashable_error(celpy)("planted error key") if k == ERR else celtypes.StringType(k)
            d[key] = tree_to_py(v, r, celpy, celtypes)
        return celtypes.MapType(d) if r.random() < 0.7 else d
    raise ValueError(w)


def dedup_keys(w):
    """Python dicts have unique keys: keep the last binding of a repeated string key (first position)"""
    if isinstance(w, list):
        return [dedup_keys(x) for x in w]
    if isinstance(w, dict) and "m" in w:
        out, pos = [], {}
        for k, v in w["m"]:
            v = dedup_keys(v)
            if isinstance(k, str) and k in pos:
                out[pos[k]] = [k, v]
            else:
                if isinstance(k, str):
                    pos[k] = len(out)
                out.append([k, v])
        return {"m": out}
    return w


def py_to_tree(v, celpy, celtypes):
    """what celpy answered -> wire tree (error objects become {"e":1})"""
    if isinstance(v, BaseException):
        return ERR
    if v is None:
        return None
    if isinstance(v, (bool, celtypes.BoolType)):
        return bool(v)
    if isinstance(v, (celtypes.IntType, celtypes.UintType)) or (isinstance(v, int)):
        return {"i": str(int(v))}
    if isinstance(v, (float, celtypes.DoubleType)):
        return str(float(v))            # the models never look inside numbers
    if isinstance(v, (str, celtypes.StringType)):
        return str(v)
    if isinstance(v, dict):
        return {"m": [[ERR if isinstance(k, BaseException) else str(k), py_to_tree(x, celpy, celtypes)]
                      for k, x in v.items()]}
    if isinstance(v, (list, tuple)):
        return [py_to_tree(x, celpy, celtypes) for x in v]
    return str(v)


ERROR_TEXT_MARKERS = ("no such member", "divide by zero", "no such overload", "found no matching overload",
                      "CELEvalError", "separator may not be empty", "are required to build a reference",
                      "must contain a value", "Missing `", "index out of bounds", "Encoding error", "Decoding error",
                      "invalid_argument", "<class '", "planted error", "injected")


def error_text_in(v):
    """a string (key or leaf, JSON text inside strings included) that carries the text of an evaluation error"""
    if isinstance(v, str):
        for m in ERROR_TEXT_MARKERS:
            if m in v:
                return v[:160]
        return None
    if isinstance(v, dict):
        for k, x in v.items():
            hit = error_text_in(k) or error_text_in(x)
            if hit:
                return hit
        return None
    if isinstance(v, (list, tuple)):
        for x in v:
            hit = error_text_in(x)
            if hit:
                return hit
    return None


def py_has_err(v) -> bool:
    """an exception object anywhere in a Python value (keys included)"""
    if isinstance(v, BaseException):
        return True
    if isinstance(v, dict):
        return any(py_has_err(k) or py_has_err(x) for k, x in v.items())
    if isinstance(v, (list, tuple, set)):
        return any(py_has_err(x) for x in v)
    return False


# ----------------------------------------------------------------------------- recording / injecting celpy's answers

class Recorder:
    """wraps celpy.InterpretedRunner.evaluate: records (site, answer) and can replace the answer at one site"""

    current = None
    errors_created = 0

    def __init__(self):
        import celpy
        from celpy import celtypes

        self.celpy, self.celtypes = celpy, celtypes
        self.reset({}, {})
        cls = celpy.InterpretedRunner
        if not getattr(cls, "_verif_c10", False):
            orig = cls.evaluate
            rec_cls = Recorder
            # every failing sub-expression makes celpy (or a koreo custom function) construct a CELEvalError:
            # counting constructions during one evaluation tells whether *something* failed inside it, even
            # if a function further out swallowed the error object (third-party class, patched from here)
            err_init = celpy.CELEvalError.__init__

            def counting_init(self_, *a, **kw):
                rec_cls.errors_created += 1
                return err_init(self_, *a, **kw)

            celpy.CELEvalError.__init__ = counting_init

            def evaluate(runner, *a, **kw):
                rec = rec_cls.current
                if rec is None or not rec.active:
                    return orig(runner, *a, **kw)
                name = rec.name_of(runner)
                inj = rec.inject.get(name)
                if inj is not None:
                    kind, payload = inj
                    if kind == "raise":
                        rec.events.append([name, "raised"])
                        raise payload
                    rec.events.append([name, {"v": py_to_tree(payload, celpy, celtypes)}])
                    return payload
                before = rec_cls.errors_created
                try:
                    v = orig(runner, *a, **kw)
                except BaseException:
                    rec.events.append([name, "raised"])
                    raise
                created = rec_cls.errors_created - before
                rec.events.append([name, {"v": py_to_tree(v, celpy, celtypes)}])
                if created:
                    rec.failed_inside[len(rec.events) - 1] = created
                return v

            cls.evaluate = evaluate
            cls._verif_c10 = True
        Recorder.current = self

    def reset(self, sites, inject):
        self.sites = sites            # id(runner) -> (name, scope, is_first_site_of_scope)
        self.inject = inject          # site name -> ("raise", exc) | ("value", py)
        self.events = []
        self.failed_inside = {}       # event index -> CELEvalError objects constructed during that evaluation
        self.iter_count = {}          # scope -> iterations started
        self.active = False

    def name_of(self, runner):
        ent = self.sites.get(id(runner))
        if ent is None:
            return f"unknown[{id(runner)}]"
        name, scope, first = ent
        if scope is None:
            return name
        prefix, iterating = scope
        if not iterating:
            return prefix + name
        if first:
            self.iter_count[prefix] = self.iter_count.get(prefix, 0) + 1
        j = self.iter_count.get(prefix, 1) - 1
        return f"{prefix}iter[{j}]/{name}"


# ----------------------------------------------------------------------------- prepared objects -> model structure

def index_wire(ix):
    return [[k, v] if isinstance(v, int) else [k, index_wire(v)] for k, v in ix.items()]


def vf_wire(fn):
    return {"pre": bool(fn.preconditions), "locals": bool(fn.local_values),
            "ret": index_wire(fn.return_value.value_index) if fn.return_value else None}


def vf_sites(fn, prefix, scope, sites, first=True):
    """register the runners of a ValueFunction; returns nothing"""
    order = [(fn.preconditions, "preconditions"), (fn.local_values, "locals"),
             (fn.return_value.values if fn.return_value else None, "return")]
    seen_first = not first
    for runner, name in order:
        if runner is None:
            continue
        sites[id(runner)] = (prefix + name, scope, not seen_first)
        seen_first = True


def rf_wire(fn, structure):
    cc = fn.crud_config
    tmpl = cc.resource_template
    if isinstance(tmpl, structure.ResourceTemplateRef):
        template = "ref"
    elif tmpl is None:
        template = "absent"
    else:
        template = "inline" if tmpl.template else "inlineEmpty"
    overlays = []
    for ov in (cc.overlays or []):
        if isinstance(ov, structure.InlineOverlay):
            overlays.append({"kind": "inline", "skipIf": bool(ov.skip_if), "index": index_wire(ov.overlay.value_index)})
        else:
            overlays.append({"kind": "ref", "skipIf": bool(ov.skip_if), "inputs": bool(ov.inputs), "vf": vf_wire(ov.overlay)})
    return {
        "pre": bool(fn.preconditions), "locals": bool(fn.local_values),
        "namespaced": bool(cc.resource_api.namespaced), "readonly": bool(cc.readonly),
        "deleteIfExists": bool(cc.delete_if_exists), "owned": bool(cc.own_resource), "template": template,
        "overlays": overlays, "createEnabled": bool(cc.create.enabled),
        "createOverlay": index_wire(cc.create.overlay.value_index) if cc.create.overlay else None,
        "update": {"UpdatePatch": "patch", "UpdateRecreate": "recreate", "UpdateNever": "never"}[type(cc.update).__name__],
        "post": bool(fn.postconditions), "return": bool(fn.return_value),
    }


def rf_sites(fn, structure, scope, sites):
    cc = fn.crud_config
    tmpl = cc.resource_template
    order = [(fn.preconditions, "rf.preconditions"), (fn.local_values, "rf.locals"), (cc.resource_id, "rf.apiConfig")]
    if isinstance(tmpl, structure.ResourceTemplateRef):
        order.append((tmpl.name, "rf.templateName"))
    elif tmpl is not None:
        order.append((tmpl.template, "rf.resource"))
    seen_first = False
    for runner, name in order:
        if runner is None:
            continue
        sites[id(runner)] = (name, scope, not seen_first)
        seen_first = True
    for i, ov in enumerate(cc.overlays or []):
        if ov.skip_if:
            sites[id(ov.skip_if)] = (f"rf.overlays[{i}].skipIf", scope, False)
        if isinstance(ov, structure.InlineOverlay):
            sites[id(ov.overlay.values)] = (f"rf.overlays[{i}].overlay", scope, False)
        else:
            if ov.inputs:
                sites[id(ov.inputs)] = (f"rf.overlays[{i}].inputs", scope, False)
            vf_sites(ov.overlay, f"rf.overlays[{i}].ref.", scope, sites, first=False)
    if cc.create.overlay:
        sites[id(cc.create.overlay.values)] = ("rf.create.overlay", scope, False)
    if fn.postconditions:
        sites[id(fn.postconditions)] = ("rf.postconditions", scope, False)
    if fn.return_value:
        sites[id(fn.return_value)] = ("rf.return", scope, False)


# ----------------------------------------------------------------------------- failing sub-expressions and positions

# celpy built-ins that turn a failing argument into an ordinary value (measured on celpy 0.3.0): `string(x)` gives the
# error's text (also for a map/list holding the error), `type(x)` its class, `x == x` true, `size({"a": x})` 1,
# `x == "s"` / `x == true` / `x == null` false (`!=` true; comparing with a number, list or map is an error),
# `has({"a": x}.a)` false, `||` / `&&` absorb by CEL's definition, a conditional does not look at the branch not taken.
# The evaluation succeeds by celpy's own account — which is the oracle parameter of the model — and no koreo-owned code
# is involved, so the checks do not alarm on them (stream "absorbed": outcome unconstrained, counted).
def absorbing_exprs(root):
    m, d = f"{root}.missing", "1/0"
    return {
        "celpy:string": f"string({m})", "celpy:string+": f'"x: " + string(100 / 0)', "celpy:string(map)": f'string({{"a": {d}}})',
        "celpy:string(list)": f"string([{d}])", "celpy:string(fn)": 'string(split("a", ""))',
        "celpy:type": f"type({d}) == int", "celpy:eq-self": f"{d} == {d}", "celpy:eq-string": f'{m} == "gold"',
        "celpy:ne-string": f'{m} != "gold"', "celpy:eq-null": f"{d} == null", "celpy:size(map)": f'size({{"a": {d}}})',
        "celpy:has": f'has({{"a": {d}}}.a)', "celpy:or": f"true || ({d} == 1)", "celpy:and": f"false && ({d} == 1)",
        "celpy:untaken": f"true ? 1 : {d}",
    }


ABSORBING = [False]      # set while the "absorbed" stream plants


def failing_exprs(root):
    if ABSORBING[0]:
        return absorbing_exprs(root)
    base = {
        "div0": "1/0", "missing": f"{root}.missing", "missing2": f"{root}.missing.deeper", "wrongtype": "size(1)",
        "addmix": '"a" + 1', "index": f"{root}.items[9]", "split": 'split("a", "")', "to_ref": "to_ref({})",
        "self_ref": "self_ref({})", "group_ref": "group_ref({})", "kindless_ref": "kindless_ref({})",
        "b64decode": "b64decode(1)", "from_json": 'from_json("{")', "split_first": 'split_first("a", "")',
        "split_last": 'split_last("a", "")', "split_index": 'split_index("a", "b", 5)', "int_parse": 'int("http")',
    }
    # a failing sub-expression inside (or as) an argument of one of koreo's custom functions, at a place the
    # function's result depends on: the function must hand the failure on, not swallow or stringify it
    m = f"{root}.missing"
    d = "1/0"
    base.update({
        "in:to_json(arg)": f"to_json({m})",
        "in:to_json(map)": f'to_json({{"name": "n", "replicas": {m}.replicas}})',
        "in:to_json(list)": f"to_json([1, {d}])",
        "in:to_json(deep)": f'to_json({{"k": [{{"j": {d}}}]}})',
        "in:overlay(resource)": f'overlay({{"k": {m}}}, {{"b": 1}})',
        "in:overlay(overlay)": f'overlay({{"a": 1}}, {{"k": {d}}})',
        "in:overlay(nested)": f'overlay({{"k": {{"a": 1}}}}, {{"k": {{"j": {m}}}}})',
        "in:overlay(arg)": f"overlay({m}, {{}})",
        "in:flatten(item)": f"flatten([[1], [{d}]])",
        "in:flatten(list)": f"flatten([[1], {m}])",
        "in:flatten(arg)": f"flatten({m})",
        "in:lower": f"lower({m})",
        "in:strip": f'strip({m}, "a")', "in:strip(on)": f'strip("a", {d})',
        "in:rstrip": f'rstrip({m}, "a")',
        "in:split": f'split({m}, ",")', "in:split(on)": f'split("a,b", {d})',
        "in:split_first": f'split_first({m}, ",")', "in:split_last": f'split_last({m}, ",")',
        "in:split_index": f'split_index({m}, ",", 0)', "in:split_index(idx)": f'split_index("a,b", ",", {d})',
        "in:replace": f'replace({m}, "a", "b")', "in:replace(old)": f'replace("abc", {d}, "b")',
        "in:replace(new)": f'replace("abc", "a", {m})',
        "in:b64encode": f"b64encode({m})", "in:b64decode": f"b64decode({m})", "in:from_json": f"from_json({m})",
        "in:to_ref(name)": f'to_ref({{"name": {m}, "apiVersion": "v1", "kind": "K"}})',
        "in:to_ref(namespace)": f'to_ref({{"name": "n", "namespace": {d}}})',
        "in:to_ref(apiVersion)": f'to_ref({{"name": "n", "apiVersion": {d}}})',
        "in:to_ref(kind)": f'to_ref({{"name": "n", "kind": {m}}})',
        "in:to_ref(external)": f'to_ref({{"external": {d}}})',
        "in:to_ref(arg)": f"to_ref({m})",
        "in:group_ref(name)": f'group_ref({{"name": {m}, "apiVersion": "g/v1", "kind": "K"}})',
        "in:group_ref(apiGroup)": f'group_ref({{"name": "n", "apiGroup": {d}}})',
        "in:group_ref(kind)": f'group_ref({{"name": "n", "apiGroup": "g", "kind": {m}}})',
        "in:kindless_ref(name)": f'kindless_ref({{"name": {m}}})',
        "in:kindless_ref(namespace)": f'kindless_ref({{"name": "n", "namespace": {d}}})',
        "in:self_ref(name)": f'self_ref({{"apiVersion": "v1", "kind": "K", "metadata": {{"name": {d}, "namespace": "ns"}}}})',
        "in:self_ref(apiVersion)": f'self_ref({{"apiVersion": {m}, "kind": "K", "metadata": {{"name": "n", "namespace": "ns"}}}})',
        "in:self_ref(metadata)": f'self_ref({{"apiVersion": "v1", "kind": "K", "metadata": {d}}})',
        "in:config_connect_ready(arg)": f"config_connect_ready({m})",
        "in:config_connect_ready(status)": f'config_connect_ready({{"status": {d}}})',
        "in:config_connect_ready(conditions)": f'config_connect_ready({{"status": {{"conditions": {m}}}}})',
        "in:config_connect_ready(condition)": f'config_connect_ready({{"status": {{"conditions": [{d}]}}}})',
        "in:method": f'{{"k": {d}}}.to_json()',
    })
    return base


MAP_POSITIONS = {
    "top": lambda f: "=" + f,
    "nested": lambda f: {"a": {"b": "=" + f}},
    "listitem": lambda f: [1, "=" + f],
    "listmap": lambda f: [{"k": "=" + f}],
    "deeplist": lambda f: [[{"k": ["=" + f]}]],
    "macro_map": lambda f: f"=[1, 2].map(x, {f})",
    "macro_filter": lambda f: f"=[1, 2].filter(x, {f} == x)",
    "macro_all": lambda f: f"=[1, 2].all(x, {f} == x)",
    "macro_map_inner": lambda f: f'=[1, 2].map(x, {{"k": {f}}})',
    "celmap": lambda f: f'={{"k": {f}}}',
    "cellist": lambda f: f"=[{f}]",
    "celdeep": lambda f: f'={{"k": [{{"j": {f}}}]}}',
    "ternary": lambda f: f"=true ? {f} : 1",
    "mapkey": lambda f: f"={{{f}: 1}}",
}
SCALAR_POSITIONS = {
    "top": lambda f: "=" + f,
    "compare": lambda f: f"={f} == 1",
    "cellist": lambda f: f"=[1, {f}]",
    "macro_map": lambda f: f"=[1, 2].map(x, {f})",
}


def is_static(block) -> bool:
    """no Koreo Expression in the block (so the compiled CEL has no identifier at all)"""
    return '"=' not in json.dumps(block)


def plant_in_map(r, spec_map, root, block=None, key="zz"):
    """add a key (`key`) holding a failing sub-expression at a random position; returns (position, failure).
    If the whole site `block` is static, the plant is identifier-free too (no variable, no macro variable): the
    block then evaluates to the same (failing) value on every reconcile, whatever the inputs are"""
    exprs = failing_exprs(root)
    positions = sorted(MAP_POSITIONS)
    static = block is not None and is_static(block)
    if static:
        exprs = {k: v for k, v in failing_exprs("ROOT_VAR").items() if "ROOT_VAR" not in v}
        positions = [p for p in positions if not p.startswith("macro")]
    fname, f = r.choice(sorted(exprs.items()))
    pname = r.choice(positions)
    spec_map[key] = MAP_POSITIONS[pname](f)
    return ("static:" if static else "") + pname, fname


# the keys of a managed object that koreo itself writes after the template / the overlays were evaluated (the forced
# name/kind overlay: `_forced_overlay` — apiVersion, kind, metadata.name, metadata.namespace; a `metadata` that is not
# a map is replaced as a whole).  A failing sub-expression that the author wrote at one of them is a failing
# expression like any other — although its (error) value would be replaced a moment later.
FORCED_PATHS = [("apiVersion",), ("kind",), ("metadata",), ("metadata", "name"), ("metadata", "namespace")]


def plant_at_forced_key(r, obj_map, root, block=None):
    """plant at a key that the forced name/kind overlay overwrites afterwards; returns (position, failure)"""
    path = r.choice(FORCED_PATHS)
    target = obj_map
    for k in path[:-1]:
        if not isinstance(target.get(k), dict):
            target[k] = {}
        target = target[k]
    pos, fail = plant_in_map(r, target, root, block=block, key=path[-1])
    return f"{pos}@{'.'.join(path)}", fail


def resource_like_tree(r):
    """wire tree of a Kubernetes-object-shaped map whose only error object(s) sit at or below a key that the forced
    name/kind overlay replaces (injected stream: celpy's answer for a template / an overlay)"""
    path = r.choice(FORCED_PATHS)
    bad = ERR if r.random() < 0.6 else gen_tree(r, 2, force_err=True)
    meta = [["labels", {"m": [["l", "s"]]}]]
    top = [["spec", {"m": [["x", {"i": "7"}], ["list", [{"m": [["k", "s"]]}]]]}]]
    if path == ("metadata",):
        top.append(["metadata", bad])
    elif path[0] == "metadata":
        meta.insert(r.randint(0, 1), [path[1], bad])
        top.append(["metadata", {"m": meta}])
    else:
        top.append([path[0], bad])
        if r.random() < 0.7:
            top.append(["metadata", {"m": meta}])
    r.shuffle(top)
    return {"m": top}


def plant_scalar(r, root, positions=("top", "compare")):
    fname, f = r.choice(sorted(failing_exprs(root).items()))
    pname = r.choice(list(positions))
    return SCALAR_POSITIONS[pname](f), pname, fname


# ----------------------------------------------------------------------------- synthetic answers (injected stream)

def synthetic(r, rec):
    """("raise", exc) | ("value", python object with an error object inside)"""
    celpy, celtypes = rec.celpy, rec.celtypes
    c = r.random()
    if c < 0.2:
        return ("raise", celpy.CELEvalError("injected raise")), "raise-CELEvalError"
    if c < 0.3:
        return ("raise", r.choice([ValueError("injected"), KeyError("injected"), TypeError("injected"),
                                   RuntimeError("injected")])), "raise-other"
    if c < 0.45:
        # the error object sits exactly where koreo's own forced name/kind overlay writes afterwards
        w = dedup_keys(resource_like_tree(r))
    else:
        w = dedup_keys(gen_tree(r, 0, force_err=True))
    return ("value", tree_to_py(w, r, celpy, celtypes)), "value-with-error"


# ----------------------------------------------------------------------------- scenarios

INPUTS = {"n": 5, "s": "str", "flag": False, "items": [1, 2, 3]}
# every prepared Function / Workflow is reconciled more than once, with other inputs in between (a value kept from
# one reconcile to the next must go through the same scan): pass 0 INPUTS, pass 1 INPUTS_2, pass 2 INPUTS again
INPUTS_2 = {"n": 7, "s": "str", "flag": False, "items": [1, 2, 3], "extra": {"k": "v"}}


def pass_inputs(case):
    return [INPUTS, INPUTS_2, INPUTS][:case.get("passes", 2)]
TRUE_PRED = [{"assert": "=inputs.n > 0", "skip": {"message": "never"}}]
GVK = {"apiVersion": "verif.koreo.dev/v1", "kind": "Gizmo"}


def healthy_vf(r, overlay_for_rf=False):
    spec = {}
    if r.random() < 0.6:
        spec["preconditions"] = copy.deepcopy(TRUE_PRED)
    if r.random() < 0.7:
        spec["locals"] = ({"a": "=inputs.n + 1", "m": {"k": "=inputs.s"}} if r.random() < 0.7
                          else {"a": 6, "m": {"k": "fixed"}})          # a fully static block
    a = "=locals.a" if "locals" in spec else "=inputs.n"
    if overlay_for_rf:
        spec["return"] = {"spec": {"fromVf": a, "deep": {"er": "=inputs.s"}}}
    else:
        spec["return"] = {"v": a, "w": {"x": "=inputs.s", "y": [{"z": "=inputs.n"}]}}
    return spec


def plant_message(r, predicates, root):
    """a failing message or delay on a false assertion — the only false one, or the 2nd / 3rd false one behind
    assertions whose own members evaluate (every false assertion's members count, not only the deciding one's)"""
    fname, f = r.choice(sorted(failing_exprs(root).items()))
    member = r.choice(["message", "message", "delay"])
    bad = ({"assert": "=false", "skip": {"message": "=" + f}} if member == "message"
           else {"assert": "=1 == 2", "retry": {"message": "wait", "delay": 5, "note": "=" + f}})
    ahead = r.choice([0, 1, 1, 2])
    at = r.randint(0, len(predicates))
    block = [{"assert": "=false", r.choice(["skip", "depSkip"]): {"message": f"earlier {i}"}} for i in range(ahead)] + [bad]
    predicates[at:at] = block
    return f"{member}-of-false-assertion#{ahead + 1}", fname


def plant_vf(r, spec, root="inputs"):
    """plant a failing sub-expression at a random site of a ValueFunction spec; returns a description"""
    sites = [s for s in ("preconditions", "locals", "return") if s in spec]
    if ABSORBING[0]:        # an absorbed failure in a predicate lets the predicate decide: C13's subject, not planted here
        sites = [s for s in sites if s != "preconditions"]
    site = r.choice(sites)
    if site == "preconditions":
        which = r.choice(["assert", "message"])
        if which == "assert":
            expr, pos, fail = plant_scalar(r, root)
            spec["preconditions"].insert(r.randint(0, 1), {"assert": expr, "skip": {"message": "m"}})
        else:
            pos, fail = plant_message(r, spec["preconditions"], root)
        return {"site": site, "pos": pos, "fail": fail}
    target = spec[site]
    if site == "return" and r.random() < 0.4:
        target = target.setdefault("w", {}) if "w" in target else target.setdefault("spec", {})
    pos, fail = plant_in_map(r, target, root, block=spec[site] if site == "locals" else None)
    return {"site": site, "pos": pos, "fail": fail}


def healthy_rf(r, tag=""):
    """(spec, aux) — aux: the overlayRef ValueFunction spec and/or ResourceTemplate document, the scenario"""
    scenario = r.choice(["absent", "absent", "match", "differs", "differs", "readonly"])
    spec = {
        "apiConfig": {**GVK, "plural": "gizmos", "name": "=inputs.s", "namespace": "ns",
                      "owned": r.random() < 0.5},
        "return": {"v": "=resource.metadata.name", "w": [{"k": "=inputs.n"}]},
    }
    aux = {"scenario": scenario, "ovf_name": "ovf" + tag, "template_name": f"tmpl{tag}-str"}
    if scenario == "readonly":
        spec["apiConfig"]["readonly"] = True
    if r.random() < 0.6:
        spec["preconditions"] = copy.deepcopy(TRUE_PRED)
    if r.random() < 0.7:
        spec["locals"] = ({"a": "=inputs.n + 1", "m": {"k": "=inputs.s"}} if r.random() < 0.7
                          else {"a": 6, "m": {"k": "fixed"}})
    if r.random() < 0.25:
        spec["return"] = {"v": "fixed", "w": [{"k": 5}]}             # a fully static `return`
    a = "=locals.a" if "locals" in spec else "=inputs.n + 1"
    if "locals" in spec and r.random() < 0.4:
        # locals that no expression reads member-wise: unreferenced, or read only as the whole `locals` map
        a = "=inputs.n + 1"
        how = r.choice(["unreferenced", "whole-in-return", "whole-in-resource"])
        aux["locals_use"] = how
        if how == "whole-in-return":
            spec["return"]["all"] = "=locals"
    if r.random() < 0.2:
        spec["resourceTemplateRef"] = {"name": f'="tmpl{tag}-" + inputs.s'}
        aux["template"] = {**GVK, "spec": {"x": 6, "list": [{"k": "str"}]}}
    else:
        spec["resource"] = ({"spec": {"x": a, "list": [{"k": "=inputs.s"}]}, "metadata": {"labels": {"l": "=inputs.s"}}}
                            if r.random() < 0.75 else
                            {"spec": {"x": 6, "list": [{"k": "str"}]}, "metadata": {"labels": {"l": "str"}}})
        if aux.get("locals_use") == "whole-in-resource":
            spec["resource"]["spec"]["all"] = "=locals"
    overlays = []
    if r.random() < 0.7:
        ov = {"overlay": {"spec": {"y": "=inputs.n", "deep": {"er": "=inputs.s"}}}}
        if r.random() < 0.5:
            ov["skipIf"] = r.choice(["=inputs.n > 100", "=inputs.n > 100", "=inputs.n > 0"])
        overlays.append(ov)
    if r.random() < 0.5:
        ov = {"overlayRef": {"kind": "ValueFunction", "name": "ovf" + tag},
              "inputs": {"n": "=inputs.n", "s": "=inputs.s"} if r.random() < 0.75 else {"n": 5, "s": "str"}}
        if r.random() < 0.5:
            ov["skipIf"] = "=inputs.flag"
        overlays.append(ov)
        aux["ovf"] = healthy_vf(r, overlay_for_rf=True)
    if r.random() < 0.3:
        overlays.append({"overlay": {"metadata": {"labels": {"second": "=inputs.s"}}}})
    if r.random() < 0.4:
        overlays.append({"overlay": {"spec": {"extra": "=inputs.n"}}, "skipIf": r.choice(["=inputs.flag", "=!inputs.flag"])})
    r.shuffle(overlays)
    if overlays:
        spec["overlays"] = overlays
    if r.random() < 0.5:
        spec["create"] = {"overlay": {"spec": {"createdOnly": "=inputs.s"}}}
    if r.random() < 0.5:
        spec["update"] = r.choice([{"patch": {"delay": 5}}, {"recreate": {"delay": 5}}, {"never": {}}])
    if r.random() < 0.6:
        spec["postconditions"] = [{"assert": "=has(resource.metadata)", "retry": {"message": "wait", "delay": 5}}]
    return spec, aux


def plant_rf(r, spec, aux):
    """plant at a site that the scenario reaches; returns a description (or None if nothing suitable)"""
    scenario = aux["scenario"]
    sites = ["apiConfig"]
    for s in ("preconditions", "locals"):
        if s in spec:
            sites.append(s)
    if scenario != "readonly":
        sites.append("resource" if "resource" in spec else "templateName")
        for i, ov in enumerate(spec.get("overlays", [])):
            sites.append(("overlay", i))
            if "skipIf" in ov:
                sites.append(("skipIf", i))
            if "overlayRef" in ov:
                sites += [("ovInputs", i), ("ovf", i)]
        if scenario == "absent" and "create" in spec:
            sites.append("create")
    if scenario in ("match", "readonly") or (scenario == "differs" and spec.get("update") == {"never": {}}):
        if "postconditions" in spec:
            sites.append("postconditions")
        sites.append("return")
    if ABSORBING[0]:
        # (an absorbed failure in the object's name/namespace or template name changes which object is meant)
        sites = [s for s in sites if s not in ("preconditions", "postconditions", "apiConfig", "templateName")]
        if not sites:
            return {"site": None, "pos": None, "fail": "celpy:nothing-to-plant"}
    site = r.choice(sites)
    d = {"site": site if isinstance(site, str) else f"{site[0]}[{site[1]}]"}
    if site == "apiConfig":
        expr, d["pos"], d["fail"] = plant_scalar(r, "inputs", positions=("top",))
        spec["apiConfig"][r.choice(["name", "namespace"])] = expr
    elif site == "templateName":
        expr, d["pos"], d["fail"] = plant_scalar(r, "inputs", positions=("top",))
        spec["resourceTemplateRef"]["name"] = expr
    elif site in ("preconditions", "postconditions"):
        root = "inputs" if site == "preconditions" else "resource"
        if r.random() < 0.5:
            expr, d["pos"], d["fail"] = plant_scalar(r, root)
            spec[site].insert(r.randint(0, 1), {"assert": expr, "skip": {"message": "m"}})
        else:
            d["pos"], d["fail"] = plant_message(r, spec[site], root)
    elif site in ("locals", "return"):
        d["pos"], d["fail"] = plant_in_map(r, spec[site], "inputs", block=spec[site])
    elif site == "resource":
        res = spec["resource"]
        if not ABSORBING[0] and r.random() < 0.35:
            d["pos"], d["fail"] = plant_at_forced_key(r, res, "inputs", block=res)
        else:
            targets = [res]
            if isinstance(res.get("spec"), dict):
                targets.append(res["spec"])
            if isinstance(res.get("metadata"), dict) and isinstance(res["metadata"].get("labels"), dict):
                targets.append(res["metadata"]["labels"])
            d["pos"], d["fail"] = plant_in_map(r, r.choice(targets), "inputs", block=res)
    elif site == "create":
        if not ABSORBING[0] and r.random() < 0.25:
            d["pos"], d["fail"] = plant_at_forced_key(r, spec["create"]["overlay"], "inputs")
        else:
            target = r.choice([spec["create"]["overlay"], spec["create"]["overlay"]["spec"]])
            d["pos"], d["fail"] = plant_in_map(r, target, "inputs")
    else:
        kind, i = site
        ov = spec["overlays"][i]
        if kind != "skipIf" and "skipIf" in ov:
            ov["skipIf"] = r.choice(["=inputs.n > 100", "=inputs.flag"])         # the planted step itself applies
        if i > 0 and r.random() < 0.6:
            # an EARLIER overlay step is switched off: the failing step keeps its index in `spec.overlays`
            for j in r.sample(range(i), r.randint(1, i)):
                spec["overlays"][j]["skipIf"] = r.choice(["=inputs.n > 0", "=!inputs.flag", "=true"])
            d["earlier_skipped"] = True
        if kind == "overlay":
            if "overlay" in ov:
                target = ov["overlay"]
                inner = [v for v in target.values() if isinstance(v, dict)]
                if not ABSORBING[0] and r.random() < 0.25:
                    d["pos"], d["fail"] = plant_at_forced_key(r, target, "inputs")
                else:
                    if inner and r.random() < 0.5:
                        target = inner[0]
                    d["pos"], d["fail"] = plant_in_map(r, target, "inputs")
            else:
                d.update(plant_vf(r, aux["ovf"], root="resource"))
                d["site"] = f"ovf[{i}].{d['site']}"
        elif kind == "skipIf":
            ov["skipIf"], d["pos"], d["fail"] = plant_scalar(r, "inputs")
        elif kind == "ovInputs":
            d["pos"], d["fail"] = plant_in_map(r, ov["inputs"], "inputs", block=ov["inputs"])
        else:
            sub = plant_vf(r, aux["ovf"], root="resource")
            d.update(sub)
            d["site"] = f"ovf[{i}].{sub['site']}"
    return d


def healthy_wf(r):
    """a one- or two-step workflow; returns (functions, workflow spec, aux)"""
    fns = {}
    steps = []
    aux = {"rf": {}}
    n = r.choice([1, 1, 2])
    for k in range(n):
        label = f"step_{k}"
        kind = r.choice(["vf", "vf", "rf", "switch"])
        step = {"label": label, "condition": {"type": f"Step{k}", "name": f"step {k}"}}
        inputs = {"n": "=parent.n", "s": "=parent.s", "flag": "=parent.flag"}
        if k == 1 and r.random() < 0.7:
            inputs["prev"] = "=steps.step_0"
        elif r.random() < 0.25:
            inputs = {"n": 5, "s": "str", "flag": False}                # fully static step inputs
        step["inputs"] = inputs
        if r.random() < 0.4:
            step["skipIf"] = "=parent.flag"
        if r.random() < 0.4:
            step["forEach"] = {"itemIn": r.choice(["=parent.items", "=[1, 2]", "=parent.items.map(x, x + 1)"]),
                               "inputKey": "item"}
        if r.random() < 0.5:
            step["state"] = ({f"state_{k}": r.choice(["=value", '="fixed"']), "nested": {"a": '="n"', "b": [1, "=value"]}}
                             if r.random() < 0.6 else {f"state_{k}": "fixed", "nested": {"a": "n", "b": [1, 2]}})
        if kind == "vf":
            fns[f"vf-{k}"] = ("vf", healthy_vf(r))
            step["ref"] = {"kind": "ValueFunction", "name": f"vf-{k}"}
        elif kind == "rf":
            spec, a = healthy_rf(r, tag=str(k))
            # distinct objects per step and per iteration
            spec["apiConfig"]["name"] = (f'=inputs.s + "-{k}-" + string(inputs.item)' if "forEach" in step
                                         else f'=inputs.s + "-{k}"')
            fns[f"rf-{k}"] = ("rf", spec)
            aux["rf"][f"rf-{k}"] = a
            step["ref"] = {"kind": "ResourceFunction", "name": f"rf-{k}"}
        else:
            fns[f"vf-{k}-a"] = ("vf", healthy_vf(r))
            fns[f"vf-{k}-b"] = ("vf", healthy_vf(r))
            step["refSwitch"] = {"switchOn": r.choice(["=inputs.s", '="other"', "=inputs.n"]), "cases": [
                {"case": "str", "kind": "ValueFunction", "name": f"vf-{k}-a"},
                {"case": "fallback", "default": True, "kind": "ValueFunction", "name": f"vf-{k}-b"}]}
        steps.append(step)
    return fns, {"steps": steps}, aux


def plant_wf(r, fns, wf, aux):
    k = r.randrange(len(wf["steps"]))
    step = wf["steps"][k]
    sites = ["inputs", "fn"]
    for s in ("skipIf", "forEach", "state", "refSwitch"):
        if s in step:
            sites.append(s)
    if ABSORBING[0]:    # an absorbed failure among the forEach items changes which objects the iterations manage;
        # `"x" + string(err)` is a plain Python str, which refSwitch (celtypes.StringType | IntType) rejects as a type
        sites = [s for s in sites if s not in ("forEach", "refSwitch")]
    site = r.choice(sites)
    d = {"site": f"step[{k}].{site}"}
    if site == "inputs":
        d["pos"], d["fail"] = plant_in_map(r, step["inputs"], "parent", block=step["inputs"])
        if not ABSORBING[0] and r.random() < 0.4:
            # a step that would be skipped anyway: the failing `inputs` expression still decides (it comes first)
            step["skipIf"] = r.choice(["=!parent.flag", "=true", "=parent.n > 0"])
            d["pos"] += "+skipIf-true"
    elif site == "skipIf":
        step["skipIf"], d["pos"], d["fail"] = plant_scalar(r, "parent")
    elif site == "forEach":
        step["forEach"]["itemIn"], d["pos"], d["fail"] = plant_scalar(r, "parent", positions=("top", "cellist", "macro_map"))
    elif site == "refSwitch":
        step["refSwitch"]["switchOn"], d["pos"], d["fail"] = plant_scalar(r, "inputs", positions=("top",))
    elif site == "state":
        d["pos"], d["fail"] = plant_in_map(r, r.choice([step["state"], step["state"]["nested"]]), "value",
                                           block=step["state"])
    else:
        names = sorted(n for n in fns if n.split("-")[1] == str(k))
        name = r.choice(names)
        kind, spec = fns[name]
        if kind == "vf":
            if "forEach" in step and r.random() < 0.5:
                # fails in one iteration only
                spec["return"]["perItem"] = "=10 / (inputs.item - 2)"
                sub = {"site": "return", "pos": "per-iteration", "fail": "div0"}
            else:
                sub = plant_vf(r, spec)
        else:
            sub = plant_rf(r, spec, aux["rf"][name])
        d.update(sub)
        d["site"] = f"step[{k}].fn.{sub['site']}"
    return d


# ----------------------------------------------------------------------------- running the real code

SITE_HINT = {  # what the PermFail must mention when its `location` attribute is empty
    "preconditions": "spec.preconditions", "locals": "spec.locals", "return": "spec.return",
    "apiConfig": "spec.apiConfig", "templateName": "resourceTemplateRef", "resource": "spec.resource",
    "skipIf": "skipIf", "overlay": "overlay", "inputs": "inputs", "create.overlay": "spec.create.overlay",
    "postconditions": "spec.postconditions", "forEach": "forEach", "switchOn": "switchOn", "state": "state",
}


def hint_for(site_name: str) -> str:
    last = site_name.split("/")[-1]
    for key in ("create.overlay", "skipIf", "forEach", "switchOn", "state", "templateName", "apiConfig",
                "postconditions", "preconditions", "locals", "return", "resource", "inputs", "overlay"):
        if last.endswith(key):
            return SITE_HINT[key]
    return ""


def is_bad(answer) -> bool:
    return answer == "raised" or tree_has_err(answer["v"])


class Impl:
    def __init__(self):
        import celpy
        from celpy import celtypes

        import koreo_util as ku
        from koreo import result

        self.celpy, self.celtypes, self.ku, self.result = celpy, celtypes, ku, result
        self.rec = Recorder()

    # -- helpers
    def injection(self, case):
        inj = case.get("inject")
        if not inj:
            return {}
        import random

        r = random.Random(inj.get("flavor", 0))
        mode = inj["mode"]
        if mode == "raise-CELEvalError":
            return {inj["site"]: ("raise", self.celpy.CELEvalError("injected raise"))}
        if mode.startswith("raise-"):
            exc = {"ValueError": ValueError, "KeyError": KeyError, "TypeError": TypeError,
                   "RuntimeError": RuntimeError}[mode[6:]]("injected")
            return {inj["site"]: ("raise", exc)}
        return {inj["site"]: ("value", tree_to_py(inj["tree"], r, self.celpy, self.celtypes))}

    def outcome(self, o):
        ku = self.ku
        c = ku.outcome_class(o)
        d = {"c": c}
        if c != "ok":
            d["msg"], d["loc"] = o.message, o.location
        else:
            v = o.data if isinstance(o, self.result.Ok) else o
            d["err"] = py_has_err(v)
            d["errtext"] = error_text_in(v)
        return d

    def requests(self, cluster):
        return [{"method": e["method"], "name": e["name"], "err": py_has_err(e["body"]),
                 "errtext": error_text_in(e["body"])} for e in cluster.mutations()]

    # -- ValueFunction
    def run_vf(self, case):
        ku = self.ku
        from koreo.value_function.reconcile import reconcile_value_function

        async def go():
            ku.reset()
            fn = await ku.offer_value_function("f", case["spec"])
            if not isinstance(fn, tuple) and not hasattr(fn, "return_value"):
                return {"prepare": self.outcome(fn)}
            sites = {}
            vf_sites(fn, "vf.", None, sites)

            async def one_pass(inputs):
                self.rec.reset(sites, self.injection(case))
                obs = {"structure": vf_wire(fn)}
                self.rec.active = True
                try:
                    out = await reconcile_value_function("wf.spec.steps.s", fn, self.celpy.json_to_cel(inputs))
                    obs["outcome"] = self.outcome(out)
                except BaseException as e:  # nothing may escape
                    obs["escaped"] = repr(e)
                finally:
                    self.rec.active = False
                obs["events"] = self.rec.events
                obs["failed_inside"] = {str(i): n for i, n in self.rec.failed_inside.items()}
                return obs

            return await self.passes(case, one_pass)

        return ku.run(go())

    # -- ResourceFunction
    def live_object(self, aux, name="str"):
        sc = aux["scenario"]
        if sc == "absent":
            return None
        obj = {**GVK, "metadata": {"name": name, "namespace": "ns", "labels": {"l": "str"}},
               "spec": {"x": 6, "list": [{"k": "str"}], "y": 5, "deep": {"er": "str"}, "fromVf": 6}}
        if sc == "differs":
            obj["spec"]["x"] = 999
        return obj

    async def prepare_rf(self, name, spec, aux):
        ku = self.ku
        if "ovf" in aux:
            await ku.offer_value_function(aux["ovf_name"], aux["ovf"])
        if "template" in aux:
            await ku.offer_resource_template(aux["template_name"], {"template": aux["template"]})
        return await ku.offer_resource_function(name, spec)

    def run_rf(self, case):
        ku = self.ku
        from cluster import Cluster
        from koreo.resource_function import structure
        from koreo.resource_function.reconcile import reconcile_resource_function

        async def go():
            ku.reset()
            fn = await self.prepare_rf("rf", case["spec"], case["aux"])
            if not hasattr(fn, "crud_config"):
                return {"prepare": self.outcome(fn)}
            if not isinstance(fn.crud_config.overlays, (list, tuple)):
                return {"prepare": self.outcome(fn.crud_config.overlays)}
            live = self.live_object(case["aux"])
            sites = {}
            rf_sites(fn, structure, None, sites)

            async def one_pass(inputs):
                cl = Cluster()          # the same cluster situation on every pass
                if live is not None:
                    cl.put(GVK["apiVersion"], "gizmos", "ns", "str", live)
                self.rec.reset(sites, self.injection(case))
                obs = {"structure": rf_wire(fn, structure), "live": live}
                self.rec.active = True
                try:
                    res = await reconcile_resource_function(cl, "wf.spec.steps.s", fn, ("ns", dict(ku.OWNER_REF)),
                                                            self.celpy.json_to_cel(inputs))
                    obs["outcome"] = self.outcome(res.outcome)
                except BaseException as e:
                    obs["escaped"] = repr(e)
                finally:
                    self.rec.active = False
                obs["events"] = self.rec.events
                obs["failed_inside"] = {str(i): n for i, n in self.rec.failed_inside.items()}
                obs["requests"] = self.requests(cl)
                return obs

            return await self.passes(case, one_pass)

        return ku.run(go())

    # -- Workflow
    def run_wf(self, case):
        ku = self.ku
        from cluster import Cluster
        from koreo.resource_function import structure as rfs
        from koreo.value_function.structure import ValueFunction
        from koreo.workflow import structure as wfs
        from koreo.workflow.reconcile import reconcile_workflow

        async def go():
            ku.reset()
            live_puts = []
            for name, (kind, spec) in case["fns"].items():
                if kind == "vf":
                    await ku.offer_value_function(name, spec)
                else:
                    aux = case["aux"]["rf"][name]
                    await self.prepare_rf(name, spec, aux)
            wf = await ku.offer_workflow("wf", case["wf"])
            if not hasattr(wf, "steps") or not self.result.is_ok(wf.steps_ready):
                return {"prepare": self.outcome(wf if not hasattr(wf, "steps") else wf.steps_ready)}
            sites = {}
            steps_wire = []
            for k, st in enumerate(wf.steps):
                if not isinstance(st, wfs.Step):
                    return {"prepare": {"c": "error-step"}}
                prefix = f"step[{k}]/"
                iterating = st.for_each is not None
                for runner, nm in [(st.inputs, "step.inputs"), (st.skip_if, "step.skipIf"), (st.state, "step.state"),
                                   (st.for_each.source_iterator if st.for_each else None, "step.forEach")]:
                    if runner is not None:
                        sites[id(runner)] = (prefix + nm, None, False)
                scope = (prefix, iterating)

                def fn_wire(logic, first=True):
                    if isinstance(logic, ValueFunction):
                        sub = {}
                        vf_sites(logic, "vf.", scope, sub, first=first)
                        sites.update(sub)
                        return {"kind": "vf", "f": vf_wire(logic)}
                    sub = {}
                    rf_sites(logic, rfs, scope, sub)
                    if not first:
                        sub = {i: (n, s, False) for i, (n, s, _) in sub.items()}
                    sites.update(sub)
                    aux = case["aux"]["rf"][logic.name]
                    if not isinstance(logic.crud_config.overlays, (list, tuple)):
                        raise Infra("overlay prepare failed inside a workflow case")
                    return {"kind": "rf", "f": rf_wire(logic, rfs), "aux": aux}

                if isinstance(st.logic, wfs.LogicSwitch):
                    sites[id(st.logic.switch_on)] = ("step.switchOn", scope, True)
                    cases = [[c if not isinstance(c, int) else {"i": str(c)}, fn_wire(l, first=False)]
                             for c, l in st.logic.logic_map.items()]
                    logic = {"switch": cases,
                             "default": fn_wire(st.logic.default_logic, first=False) if st.logic.default_logic else None}
                else:
                    logic = {"fn": fn_wire(st.logic)}
                steps_wire.append({"deps": sorted(int(d.split("_")[1]) for d in st.dynamic_input_keys),
                                   "inputs": st.inputs is not None, "skipIf": st.skip_if is not None,
                                   "forEach": st.for_each.input_key if st.for_each else None,
                                   "logic": logic, "state": st.state is not None})
                # live objects for the step's ResourceFunction(s)
                for name, (kind, spec) in case["fns"].items():
                    if kind == "rf" and name.split("-")[1] == str(k):
                        aux = case["aux"]["rf"][name]
                        names = [f"str-{k}"] if not iterating else [f"str-{k}-{i}" for i in (1, 2, 3, 4)]
                        for nm in names:
                            live = self.live_object(aux, nm)
                            if live is not None:
                                live_puts.append((nm, live))

            async def one_pass(inputs):
                cl = Cluster()          # the same cluster situation on every pass
                for nm, live in live_puts:
                    cl.put(GVK["apiVersion"], "gizmos", "ns", nm, live)
                self.rec.reset(sites, self.injection(case))
                obs = {"steps": copy.deepcopy(steps_wire)}
                self.rec.active = True
                try:
                    res = await reconcile_workflow(cl, "wf", ("ns", dict(ku.OWNER_REF)), self.celpy.json_to_cel(inputs), wf)
                    obs["outcome"] = self.outcome(res.result)
                    obs["state_err"] = py_has_err(res.state)
                    obs["state_errtext"] = error_text_in(res.state)
                    obs["state_keys"] = sorted(str(k) for k in res.state.keys())
                    obs["state_errors"] = {str(k): str(v) for k, v in res.state_errors.items()}
                    obs["conditions"] = [{"type": c.get("type"), "reason": c.get("reason"), "location": c.get("location"),
                                          "message": c.get("message")} for c in res.conditions]
                except BaseException as e:
                    obs["escaped"] = repr(e)
                finally:
                    self.rec.active = False
                obs["events"] = self.rec.events
                obs["failed_inside"] = {str(i): n for i, n in self.rec.failed_inside.items()}
                obs["requests"] = self.requests(cl)
                return obs

            return await self.passes(case, one_pass)

        return ku.run(go())

    async def passes(self, case, one_pass):
        """reconcile the same prepared object once per entry of pass_inputs; the first observation carries the others"""
        all_obs = []
        for i, inputs in enumerate(pass_inputs(case)):
            o = await one_pass(inputs)
            o["pass"] = i
            all_obs.append(o)
        first = all_obs[0]
        first["later"] = all_obs[1:]
        return first

    def run(self, case):
        return {"vf": self.run_vf, "rf": self.run_rf, "wf": self.run_wf}[case["kind"]](case)


# ----------------------------------------------------------------------------- the property on one observation

REASON_CLASS = {"Ready": "ok", "Failure": "permFail", "Wait": "retry", "Skip": "skip", "DepSkip": "depSkip"}


def names_location(outcome, site_name) -> bool:
    """PermFail names the location: a non-empty `location`, or the site's path in the message"""
    if outcome.get("loc"):
        return True
    hint = hint_for(site_name)
    return bool(hint) and hint in (outcome.get("msg") or "")


OVERLAY_SITE = None


def overlay_index_wrong(outcome, site_name):
    """a failure inside overlay step i (its skipIf, overlay, overlayRef inputs or overlayRef Function) must be
    reported under `spec.overlays[i]` — i being the step's position as written in the spec"""
    import re

    m = re.search(r"rf\.overlays\[(\d+)\]", site_name)
    if not m:
        return None
    text = f"{outcome.get('msg') or ''} {outcome.get('loc') or ''}"
    named = re.findall(r"spec\.overlays\[(\d+)\]", text)
    if named and m.group(1) not in named:
        return (f"the failure is in overlay step {m.group(1)} of the spec ({site_name}) but the PermFail names "
                f"spec.overlays[{named[0]}]: {outcome.get('msg')!r}")
    return None


def step_of(site_name):
    return int(site_name.split("]")[0][5:]) if site_name.startswith("step[") else None


def complaints(case, obs):
    """every reconcile of the same prepared object must satisfy the property"""
    what = complaints_one(case, obs)
    if what is not None:
        return what
    for later in obs.get("later", []):
        what = complaints_one(case, later)
        if what is not None:
            return f"reconcile #{later['pass'] + 1} of the same prepared object: {what}"
    return None


def complaints_one(case, obs):
    """the property's clauses on what the real code did in one reconcile; a description or None"""
    if "prepare" in obs:
        return None
    if "escaped" in obs:
        return f"an exception escaped the reconcile call: {obs['escaped']}"
    bad = [(n, a) for n, a in obs["events"] if is_bad(a)]
    # the only exemption: the planted failure sits directly inside one of celpy's own absorbing built-ins
    celpy_absorbs = case.get("stream") == "absorbed" and str(case.get("plant", {}).get("fail", "")).startswith("celpy:")
    for i, created in obs.get("failed_inside", {}).items():
        name, answer = obs["events"][int(i)]
        if not is_bad(answer) and not celpy_absorbs:
            return (f"a sub-expression failed to evaluate inside {name} ({created} error object(s) constructed) but the "
                    f"value of the expression carries no error: the failure was swallowed (value {json.dumps(answer)[:200]})")
    for req in obs.get("requests", []):
        if req["err"]:
            return f"a {req['method']} body contains an error object"
        if req.get("errtext") and not celpy_absorbs:
            return f"a {req['method']} body contains the text of an evaluation error in place of data: {req['errtext']!r}"
    out = obs["outcome"]
    if out["c"] == "ok" and out.get("err"):
        return "the returned value contains an error object"
    if out["c"] == "ok" and out.get("errtext") and not celpy_absorbs:
        return f"the returned value contains the text of an evaluation error in place of data: {out['errtext']!r}"
    if obs.get("state_errtext") and not celpy_absorbs:
        return f"the published state contains the text of an evaluation error in place of data: {obs['state_errtext']!r}"
    if case["kind"] in ("vf", "rf"):
        plant = case.get("plant") or {}
        if (case.get("stream") == "real" and plant.get("site") == "locals" and out["c"] != "permFail"):
            # the healthy preconditions pass, so `locals` is always reached; the planted sub-expression fails by construction
            return (f"a failing sub-expression was planted in `locals` ({plant.get('pos')}, {plant.get('fail')}) but the outcome "
                    f"is {out['c']} ({out.get('msg')!r}); `locals` evaluated: "
                    f"{any(n.endswith('locals') for n, _ in obs['events'])}")
        if bad:
            if out["c"] != "permFail":
                return f"the expression at {bad[0][0]} failed to evaluate but the outcome is {out['c']}"
            if not names_location(out, bad[0][0]):
                return f"PermFail for the failure at {bad[0][0]} names no location (location={out.get('loc')!r}, message={out.get('msg')!r})"
            wrong = overlay_index_wrong(out, bad[0][0])
            if wrong:
                return wrong
            if case["kind"] == "rf" and obs["requests"] and obs["events"] and bad[0][0] != "rf.postconditions" \
                    and bad[0][0] != "rf.return":
                return f"a request was sent although {bad[0][0]} failed to evaluate"
        return None
    # workflow
    if obs.get("state_err"):
        return "the published state contains an error object"
    conds = {c["type"]: c for c in obs["conditions"]}
    for name, _ in bad:
        k = step_of(name)
        if name.endswith("step.state"):
            label = f"step_{k}"
            if label not in obs["state_errors"]:
                return f"state expression of {label} failed but no state error was recorded"
            if any(key.startswith(f"state_{k}") for key in obs["state_keys"]):
                return f"state expression of {label} failed but its state was published"
            continue
        c = conds.get(f"Step{k}")
        if c is None:
            return (f"the expression at {name} failed to evaluate but step {k} reported no PermFail "
                    f"(workflow outcome {out['c']}: {out.get('msg')!r})")
        if REASON_CLASS.get(c["reason"]) != "permFail":
            return f"the expression at {name} failed to evaluate but step {k} is {c['reason']}"
        if not (c.get("location") or hint_for(name) in (c.get("message") or "")):
            return f"step {k}'s failure for {name} names no location"
        if sum(1 for n2, _ in bad if step_of(n2) == k) == 1:     # one failure in the step: its index must be the spec's
            wrong = overlay_index_wrong({"msg": c.get("message"), "loc": c.get("location")}, name)
            if wrong:
                return f"step {k}: {wrong}"
    body_bad = [n for n, _ in bad if not n.endswith("step.state")]
    if body_bad and out["c"] != "permFail":
        return f"a step expression failed ({body_bad[0]}) but the workflow outcome is {out['c']}"
    return None


# ----------------------------------------------------------------------------- model request / comparison

def env_wire(aux, live, requests, owned):
    mutated = any(q["method"] in ("PATCH", "DELETE", "POST") for q in requests)
    return {"live": to_tree(live), "templateDoc": to_tree(aux.get("template")),
            "ownerSameNamespace": True, "isMatch": not mutated, "ownerReffed": not mutated}


def to_tree(v):
    if v is None or isinstance(v, (bool, str)):
        return v
    if isinstance(v, int):
        return {"i": str(v)}
    if isinstance(v, list):
        return [to_tree(x) for x in v]
    if isinstance(v, dict):
        return {"m": [[k, to_tree(x)] for k, x in v.items()]}
    return str(v)


def model_request(case, obs):
    if case["kind"] == "vf":
        return {"op": "vf", "f": obs["structure"], "base": None, "oracle": obs["events"]}
    if case["kind"] == "rf":
        return {"op": "rf", "f": obs["structure"], "oracle": obs["events"],
                "env": env_wire(case["aux"], obs["live"], obs["requests"], obs["structure"]["owned"])}
    steps = []
    impl = Impl.shared
    for k, st in enumerate(obs["steps"]):
        st = copy.deepcopy(st)

        def fix(fn, k=k, st=st):
            if fn and fn["kind"] == "rf":
                aux = fn.pop("aux")
                # the comparator's answer per step: any mutation of the step's objects = "differs"
                reqs = [q for q in obs["requests"] if (q.get("name") or "").startswith(f"str-{k}")]
                live = impl.live_object(aux, "str")
                fn["env"] = env_wire(aux, live, reqs, fn["f"]["owned"])
            return fn
        lg = st["logic"]
        if "fn" in lg:
            fix(lg["fn"])
        else:
            for c in lg["switch"]:
                fix(c[1])
            fix(lg["default"])
        steps.append(st)
    return {"op": "wf", "steps": steps, "oracle": obs["events"]}


def compare(case, obs, ans):
    """model vs implementation on the property-relevant abstraction; a description or None"""
    mevals = ans["evals"]
    ievals = [n for n, _ in obs["events"]]
    if case["kind"] == "wf":
        # steps are concurrent tasks: their evaluations interleave; the order within a step is fixed
        for k in range(len(obs["steps"])):
            pm = [n for n in mevals if n.startswith(f"step[{k}]/")]
            pi = [n for n in ievals if n.startswith(f"step[{k}]/")]
            if pm != pi:
                return f"evaluation log of step {k} differs: model {pm} vs implementation {pi}"
        if len(mevals) != len(ievals):
            return f"evaluation log differs: model {mevals} vs implementation {ievals}"
    elif mevals != ievals:
        return f"evaluation log differs: model {mevals} vs implementation {ievals}"
    mreq = [o[0] for o in ans["outs"] if o[0] in ("POST", "PATCH", "DELETE")]
    ireq = [q["method"] for q in obs.get("requests", [])]
    if case["kind"] != "wf" and mreq != ireq:
        return f"requests differ: model {mreq} vs implementation {ireq}"
    if case["kind"] == "wf" and sorted(mreq) != sorted(ireq):
        return f"requests differ: model {sorted(mreq)} vs implementation {sorted(ireq)}"
    if any(o[1] for o in ans["outs"]):
        return "the model let an error object out"
    if case["kind"] in ("vf", "rf"):
        mc = ans["res"]["c"]
        ic = "crash" if "escaped" in obs else obs["outcome"]["c"]
        if mc != ic:
            return f"outcome class differs: model {mc} ({ans['res']}) vs implementation {ic} ({obs.get('outcome')})"
        return None
    if "escaped" in obs:
        return "implementation raised"
    conds = {c["type"]: c for c in obs["conditions"]}
    for k, r_ in enumerate(ans["res"]):
        c = conds.get(f"Step{k}")
        ic = REASON_CLASS.get(c["reason"]) if c else None
        mc = "retry" if r_["c"] == "crash" else r_["c"]
        if mc != ic:
            return f"step {k}: model {r_} vs implementation {c}"
    if ans.get("stateErr"):
        return "the model's published state contains an error object"
    return None


# ----------------------------------------------------------------------------- case generation

def gen_case(r, rec):
    kind = r.choice(["vf", "vf", "rf", "rf", "rf", "wf", "wf"])
    stream = r.choice(["real", "real", "injected", "healthy"] if r.random() < 0.9 else ["two", "absorbed"])
    case = {"kind": kind, "stream": stream}
    ABSORBING[0] = stream == "absorbed"
    try:
        return _gen_case(r, rec, kind, stream, case)
    finally:
        ABSORBING[0] = False


def _gen_case(r, rec, kind, stream, case):
    if kind == "vf":
        case["spec"] = healthy_vf(r)
        if stream in ("real", "two", "absorbed"):
            case["plant"] = plant_vf(r, case["spec"])
            if stream == "two":
                case["plant2"] = plant_vf(r, case["spec"])
        candidates = ["vf." + s for s in ("preconditions", "locals", "return") if s in case["spec"]]
    elif kind == "rf":
        case["spec"], case["aux"] = healthy_rf(r)
        if stream in ("real", "two", "absorbed"):
            case["plant"] = plant_rf(r, case["spec"], case["aux"])
            if stream == "two":
                case["plant2"] = plant_rf(r, case["spec"], case["aux"])
        candidates = None
    else:
        case["fns"], case["wf"], case["aux"] = healthy_wf(r)
        if stream in ("real", "two", "absorbed"):
            case["plant"] = plant_wf(r, case["fns"], case["wf"], case["aux"])
            if stream == "two":
                case["plant2"] = plant_wf(r, case["fns"], case["wf"], case["aux"])
        candidates = None
    if stream == "injected":
        (mode, payload), label = synthetic(r, rec)
        inj = {"mode": label, "flavor": r.randrange(1 << 30), "site": None, "pick": r.random()}
        if label == "raise-other":
            inj["mode"] = "raise-" + type(payload).__name__
        if label == "value-with-error":
            inj["tree"] = py_to_tree(payload, rec.celpy, rec.celtypes)
        case["inject"] = inj
        case["candidates"] = candidates
    return case


def resolve_injection(case, impl):
    """the injected stream replaces the answer at one of the sites a healthy run evaluates"""
    inj = case["inject"]
    if inj["site"] is not None:
        return True
    probe = copy.deepcopy(case)
    probe.pop("inject")
    obs = impl.run(probe)
    names = [n for n, _ in obs.get("events", [])]
    if not names:
        return False
    inj["site"] = names[int(inj["pick"] * len(names)) % len(names)]
    return True


def shrink(case, impl):
    """drop what is not needed for the complaint: the second plant, optional sections of the spec"""
    def fails(c):
        try:
            return complaints(c, impl.run(c)) is not None
        except Exception:
            return False
    best = case
    if case["kind"] in ("vf", "rf"):
        for key in ("preconditions", "postconditions", "locals", "create", "update", "overlays"):
            if key in best["spec"]:
                c = copy.deepcopy(best)
                del c["spec"][key]
                if fails(c):
                    best = c
        if "overlays" in best["spec"]:
            for i in reversed(range(len(best["spec"]["overlays"]))):
                c = copy.deepcopy(best)
                del c["spec"]["overlays"][i]
                if not c["spec"]["overlays"]:
                    del c["spec"]["overlays"]
                if fails(c):
                    best = c
    else:
        if len(best["wf"]["steps"]) > 1:
            for i in (1, 0):
                c = copy.deepcopy(best)
                del c["wf"]["steps"][i]
                if fails(c):
                    best = c
                    break
        for st in range(len(best["wf"]["steps"])):
            for key in ("skipIf", "forEach", "state"):
                if key in best["wf"]["steps"][st]:
                    c = copy.deepcopy(best)
                    del c["wf"]["steps"][st][key]
                    if fails(c):
                        best = c
    return best


# ----------------------------------------------------------------------------- the check

def run(tier: str) -> int:
    import celpy
    from celpy import celtypes

    from koreo.cel.evaluation import check_for_celevalerror

    ck = Check("C10", tier)
    ck.trusted = [
        "Lean 4.33.0 kernel; axioms of every theorem ⊆ {propext, Classical.choice, Quot.sound}",
        "model lean/Koreo/EvalScan.lean hand-transcribed from cel/evaluation.py, cel/functions.py (_deep_overlay), "
        "cel/encoder.py (convert_bools) and the data flow of the three reconcile modules; the list of evaluation call "
        "sites, the shape of check_for_celevalerror and the try/scan/except shape of the evaluators are regenerated "
        "from the source by harness/extractors/EvalSites.py and proved equal to the model's",
        "celpy 0.3.0 as an oracle (raised | value tree possibly holding error objects); theorems hold for every oracle; "
        "that the real library is one is validated by the recorded answers of this run",
        "differential harness/c10.py (scan unit stream; ValueFunction / ResourceFunction / Workflow runs vs the "
        "compiled Lean model fed with the recorded celpy answers); harness/cluster.py in-memory API",
        "the comparator's answer (validate_match, C04/C05) is inferred from the request log, not modelled",
    ]
    ck.assumptions = [
        "the cluster, the caches and the trigger speak JSON (Env.Clean): error objects only come from expression evaluation",
        "`names the location` = PermFail.location is non-empty or the message contains the site's path "
        "(for errors without a parse tree koreo leaves `location` empty and puts the path in the message)",
        "contexts in which celpy itself absorbs a failing sub-expression (string(x) of an error, a message of a passing "
        "assertion, an untaken branch) are not failures of the expression as far as koreo can see; counted as `absorbed`",
        "sub-workflows as step logic and API faults are outside this model (C09)",
    ]
    ck.prove(extractors=["EvalSites"])

    r = rng("c10")
    impl = Impl()
    Impl.shared = impl
    drv = LeanDriver("C10")

    # ---- corpus: minimised past failures first
    from common import VERIF
    for f in sorted((VERIF / "corpus" / "C10").glob("*.json")):
        entry = json.loads(f.read_text())
        case = entry["case"]
        ck.evaluated()
        ck.count("corpus")
        try:
            obs = impl.run(case)
        except Exception as e:
            obs = {"escaped": f"(prepare) {e!r}", "events": []}
        what = complaints(case, obs)
        if what is not None:
            ck.violate({"case": case, "corpus": f.name, "events": obs.get("events"), "outcome": obs.get("outcome"),
                        "escaped": obs.get("escaped"), "requests": obs.get("requests")}, what)

    # ---- (b) the scan itself
    n_scan = 3000 if tier == "quick" else 60000
    trees = [dedup_keys(gen_tree(r, 0, force_err=(r.random() < 0.5))) for _ in range(n_scan)]
    try:
        answers = drv.ask([{"op": "scan", "t": t} for t in trees])
    except Infra as e:
        if ck.build_ok:
            raise
        answers = [None] * n_scan
        ck.notes.append(f"model driver unavailable: {e}")
    for t, ans in zip(trees, answers):
        ck.evaluated()
        want = tree_has_err(t)
        py = tree_to_py(t, r, celpy, celtypes)
        try:
            got = check_for_celevalerror(py, "unit:site")
        except BaseException as e:
            ck.violate({"kind": "scan", "tree": t}, f"check_for_celevalerror raised {e!r}")
            continue
        found = got is not None
        ck.count(f"scan:{'error' if want else 'clean'}")
        if want:
            ck.nontriv(json.dumps(["scan", t]))
        if found != want:
            ck.violate({"kind": "scan", "tree": t},
                       "check_for_celevalerror missed an error object" if want else "check_for_celevalerror reported a clean value")
        elif found and not (got.location or "unit:site" in (got.message or "")):
            ck.violate({"kind": "scan", "tree": t}, "the scan's PermFail names no location")
        if ans is not None and ans.get("found") != found:
            ck.disagree({"kind": "scan", "tree": t}, ans, {"found": found}, "scan")

    # ---- (c) Functions and steps
    n = 1700 if tier == "quick" else 30000      # prepared objects; each is reconciled twice
    cases, observations = [], []
    for _ in range(n):
        case = gen_case(r, impl.rec)
        try:
            if case["stream"] == "injected" and not resolve_injection(case, impl):
                continue
            obs = impl.run(case)
        except Infra:
            raise
        except Exception as e:          # a crash of prepare (C20's subject) or of the harness itself
            ck.count(f"skipped:{type(e).__name__}")
            continue
        if "prepare" in obs:
            ck.count("skipped:prepare-rejected")
            continue
        cases.append(case)
        observations.append(obs)
    flat = [(c, p) for c, o in zip(cases, observations) for p in [o] + o.get("later", [])]
    try:
        answers = drv.ask([model_request(c, p) for c, p in flat])
    except Infra as e:
        if ck.build_ok:
            raise
        answers = [None] * len(flat)
        ck.notes.append(f"model driver unavailable: {e}")

    # the model, fed each reconcile's recorded answers, against that reconcile
    for (case, p), ans in zip(flat, answers):
        ck.evaluated()
        ck.count(f"reconcile-pass:{p.get('pass', 0)}")
        if ans is None:
            continue
        if "error" in ans:
            raise Infra(f"driver rejected a request: {ans['error']}")
        diff = compare(case, p, ans)
        if diff is not None:
            ck.disagree({"case": case, "pass": p.get("pass", 0), "events": p.get("events"), "outcome": p.get("outcome")},
                        {k: ans.get(k) for k in ("res", "evals", "outs")}, {"requests": p.get("requests")},
                        (f"reconcile #{p.get('pass', 0) + 1}: " if p.get("pass") else "") + diff)

    for case, obs in zip(cases, observations):
        bad = [(nm, a) for nm, a in obs.get("events", []) if is_bad(a)]
        ck.count(f"kind:{case['kind']}")
        ck.count(f"stream:{case['stream']}")
        ck.count(f"outcome:{'escaped' if 'escaped' in obs else obs['outcome']['c']}")
        for nm, a in bad:
            ck.count("failed-site:" + "".join(ch for ch in nm if not ch.isdigit()))
            ck.count("celpy:" + ("raised" if a == "raised" else "embedded"))
        if bad and obs.get("outcome", {}).get("c") == "permFail":
            ck.count("permfail-location-attr:" + ("set" if obs["outcome"].get("loc") else "empty (path in message)"))
        if case["stream"] == "absorbed":
            swallowed = any(not is_bad(obs["events"][int(i)][1]) for i in obs.get("failed_inside", {}))
            ck.count("celpy-built-in absorbed the failure" if swallowed else "celpy-built-in: failure not absorbed/reached")
        if "plant" in case:
            ck.count(f"position:{case['plant'].get('pos')}")
            ck.count(f"failure:{case['plant'].get('fail')}")
            if not bad:
                ck.count("absorbed-or-unreached")
        if case.get("inject"):
            ck.count(f"inject:{case['inject']['mode']}")
        for q in obs.get("requests", []):
            ck.count(f"request:{q['method']}")
        if bad:
            ck.nontriv(json.dumps([case["kind"], case.get("plant"), case.get("inject", {}).get("site"),
                                   [nm for nm, _ in bad], case.get("spec") or case.get("wf")], sort_keys=True, default=str))
        ck.sample({"kind": case["kind"], "stream": case["stream"], "plant": case.get("plant"),
                   "spec": case.get("spec") or case.get("wf"), "failed": [nm for nm, _ in bad],
                   "outcome": obs.get("outcome")}, limit=6)
        what = complaints(case, obs)
        if what is not None:
            small = shrink(case, impl) if len(ck.violations) < 4 else case
            obs2 = impl.run(small)
            ck.violate({"case": small, "events": obs2.get("events"), "outcome": obs2.get("outcome"),
                        "escaped": obs2.get("escaped"), "requests": obs2.get("requests")},
                       complaints(small, obs2) or what)

    if tier == "thorough":
        ck.leanchecker()
    return ck.finish(
        rule="(1) random trees (depth ≤ 4) with error objects as values, list/tuple items and map keys through "
             "check_for_celevalerror; (2) ValueFunctions, ResourceFunctions (object absent / matching / differing / "
             "readonly; inline, overlayRef and create overlays; template by reference) and 1-2 step Workflows (forEach, "
             "refSwitch, skipIf, state) with a failing sub-expression (16 kinds incl. every error-returning custom "
             "function) planted at top level / nested map value / list item / list of maps / map, filter and all macros / "
             "CEL map or list literal / map key / overlay leaf of a random site, or with celpy's answer at one site "
             "replaced by a random tree holding an error object or by a raised exception. non-trivial = at least one "
             "evaluation failed; distinct by kind + plant + failing sites + spec",
    )


def replay(path: str) -> int:
    import celpy
    from celpy import celtypes

    from koreo.cel.evaluation import check_for_celevalerror
    import random

    data = json.load(open(path))
    impl = Impl()
    Impl.shared = impl
    rc = 0
    for v in data.get("violations", []):
        c = v["case"]
        if c.get("kind") == "scan":
            py = tree_to_py(c["tree"], random.Random(0), celpy, celtypes)
            found = check_for_celevalerror(py, "unit:site") is not None
            bad = None if found == tree_has_err(c["tree"]) else "scan and tree disagree"
            print("replay: scan", json.dumps(c["tree"]), "->", found, "::", bad)
        else:
            case = c["case"]
            obs = impl.run(case)
            bad = complaints(case, obs)
            print("replay:", json.dumps(case.get("spec") or case.get("wf")), "->",
                  json.dumps({k: obs.get(k) for k in ("outcome", "escaped", "requests")}, default=str), "::", bad)
        rc = rc or (1 if bad else 0)
    return rc
