"""Virtual-time asyncio loop (DESIGN.md section 4).

`time()` is a counter that only advances when nothing is runnable: the loop then jumps to
the earliest timer.  Latencies injected as `asyncio.sleep` therefore fix a completion order,
a 10 s timeout is hit exactly by a hang, and a pass costs microseconds of wall time.
`turn(loop)` runs exactly one loop iteration (everything that is ready now), which is what
the C16 harness uses to place operations between turns of the background tasks.
"""
from __future__ import annotations

import asyncio
import heapq


class Deadlock(RuntimeError):
    """nothing is runnable and no timer is pending: the awaited thing can never happen"""


class VirtualLoop(asyncio.SelectorEventLoop):
    def __init__(self):
        super().__init__()
        self._vtime = 0.0
        self.turns = 0
        self.max_turns = 2_000_000

    def time(self) -> float:
        return self._vtime

    def advance(self, dt: float):
        self._vtime += dt

    def _run_once(self):
        # drop cancelled timers at the head so that they do not hold the clock back
        while self._scheduled and self._scheduled[0]._cancelled:
            handle = heapq.heappop(self._scheduled)
            handle._scheduled = False
            self._timer_cancelled_count -= 1
        if not self._ready:
            if self._scheduled:
                when = self._scheduled[0]._when
                if when > self._vtime:
                    self._vtime = when
            elif not self._stopping:
                raise Deadlock("virtual loop: nothing runnable and no timer pending")
        self.turns += 1
        if self.turns > self.max_turns:
            raise Deadlock("virtual loop: turn budget exhausted")
        super()._run_once()


def turn(loop: asyncio.AbstractEventLoop, n: int = 1):
    """run exactly n loop iterations"""
    for _ in range(n):
        loop.call_soon(loop.stop)
        loop.run_forever()


def run_virtual(coro, loop: VirtualLoop | None = None):
    """run a coroutine to completion on a (fresh) virtual loop; returns (result, virtual elapsed, loop)"""
    own = loop is None
    loop = loop or VirtualLoop()
    t0 = loop.time()
    try:
        asyncio.set_event_loop(loop)
        res = loop.run_until_complete(coro)
        return res, loop.time() - t0, loop
    finally:
        if own:
            try:
                pending = [t for t in asyncio.all_tasks(loop) if not t.done()]
                for t in pending:
                    t.cancel()
                if pending:
                    loop.run_until_complete(asyncio.gather(*pending, return_exceptions=True))
            except Exception:
                pass
            asyncio.set_event_loop(None)
            loop.close()
