"""writes MANIFEST.json from the table below (kept in one place so it stays valid)"""
import json
from pathlib import Path

VERIF = Path(__file__).resolve().parent.parent

def load_claims():
    """one file per claimed property: harness/claims/Cxx.json with text, note, technique, design"""
    out = {}
    for f in sorted((VERIF / "harness" / "claims").glob("C*.json")):
        out[f.stem] = json.loads(f.read_text())
    return out


CLAIMED = load_claims()

PENDING_REASON = "check not built yet in this round (planned at level proof; see DESIGN.md section 5)"


def main():
    props = [json.loads(l) for l in (VERIF / "properties.jsonl").read_text().splitlines() if l.strip()]
    checks, na = [], []
    for p in props:
        pid = p["id"]
        c = CLAIMED.get(pid)
        if c is None:
            na.append({"property_id": pid, "reason": PENDING_REASON})
            continue
        checks.append({
            "property_id": pid,
            "quick_cmd": f"./check {pid} quick",
            "thorough_cmd": f"./check {pid} thorough",
            "evidence_file": f"evidence/{pid}.json",
            "replay_cmd_template": f"./check {pid} quick --replay {{path}}",
            "engine": "lean4-proof+correspondence",
            "level_claimed": {"category": "proof", "text": c["text"], "design_ref": c["design"]},
            "level_note": c["note"],
            "technique": c["technique"],
        })
    m = {
        "version": 1,
        "setup_cmd": "sh setup.sh",
        "hooks": {
            "guard": "KOREO_CORE_VERIF",
            "enable": "no source hook exists; checks set KOREO_CORE_VERIF=1 and import koreo from /repo/src",
            "baseline_off_cmd": "cd /repo && /venv/bin/python -m pytest -ra -q -p no:cacheprovider --timeout=900 --continue-on-collection-errors",
            "source_commits": [],
            "add_only": True,
        },
        "engines": [{
            "name": "lean4-proof+correspondence",
            "path": "lean/ (models, theorems, driver) + harness/ (translator, differential, oracle)",
            "serves_properties": [c["property_id"] for c in checks],
            "kind_free_text": "machine-checked proof in Lean 4 over executable models; models tied to /repo by "
                              "regenerated tables (harness/extract.py) and by running model and implementation on "
                              "the same inputs",
        }],
        "checks": checks,
        "not_applicable": na,
        "notes": "See DESIGN.md. Every check: regenerate Gen/*.lean from /repo, lake build the property's theorems, "
                 "audit axioms, differential model vs implementation, property oracle on the implementation.",
    }
    (VERIF / "MANIFEST.json").write_text(json.dumps(m, indent=1, ensure_ascii=False) + "\n")


if __name__ == "__main__":
    main()
