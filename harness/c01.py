"""C01 — steps run only on Ok dependencies and see exactly their values.

proof:   lean/Koreo/Props/C01.lean over lean/Koreo/Workflow.lean (every eval / run oracle, every well-formed workflow)
tie:     generated DAG workflows (gen_wf.py) prepared by the real prepare_* through the real cache, reconciled by
         the real `reconcile_workflow` against the in-memory cluster (wf_run.py)  vs  the Lean `reconcile` on the
         same workflow-as-data + outcome assignment (driver_c01)
oracle:  the property's clauses re-checked on the implementation's observations with a tiny evaluator of the
         generator's expression shapes that shares nothing with the Lean model
"""
from __future__ import annotations

import itertools
import json

import gen_wf
import wf_run
from common import Check, Infra, LeanDriver, VERIF, canon_unordered, rng

ERR = object()


# --------------------------------------------------------------------------- the oracle's own evaluator

def py_eval(e, act):
    """value of a generator expression over an activation, or ERR"""
    if "lit" in e:
        return e["lit"]
    if "bad" in e:
        return ERR
    if "path" in e:
        cur = act
        for k in e["path"]:
            if not isinstance(cur, dict) or k not in cur:
                return ERR
            cur = cur[k]
        return cur
    if "list" in e:
        vs = [py_eval(x, act) for x in e["list"]]
        return ERR if any(v is ERR for v in vs) else vs
    if "call" in e:
        vs = [py_eval(x, act) for x in e["args"]]
        if any(v is ERR for v in vs):
            return ERR
        return py_apply(e["call"], vs)
    out = {}
    for k, x in e["map"]:
        v = py_eval(x, act)
        if v is ERR:
            return ERR
        out[k] = v
    return out


def _overlay(res, ov):
    out = json.loads(json.dumps(res))
    for k, v in ov.items():
        if isinstance(v, dict) and isinstance(out.get(k), dict):
            out[k] = _overlay(out[k], v)
        else:
            out[k] = json.loads(json.dumps(v))
    return out


def py_apply(f, vs):
    """the custom functions the generators use, on plain values (fresh results, nothing shared)"""
    if f == "flatten" and len(vs) == 1 and isinstance(vs[0], list) and all(isinstance(x, list) for x in vs[0]):
        return [y for x in vs[0] for y in x]
    if f == "overlay" and len(vs) == 2 and all(isinstance(v, dict) for v in vs):
        return _overlay(vs[0], vs[1])
    if f == "size" and len(vs) == 1 and isinstance(vs[0], (list, dict)):
        return len(vs[0])
    if f == "at0" and len(vs) == 1 and isinstance(vs[0], list) and vs[0]:
        return vs[0][0]
    if f == "in" and len(vs) == 2 and isinstance(vs[0], str) and isinstance(vs[1], dict):
        return vs[0] in vs[1]
    return ERR


def same(a, b):
    return canon_unordered(a) == canon_unordered(b)


def _unsub(name):
    while name.startswith("sub-"):
        name = name[4:]
    return name


def site_prefix_calls(log, prefix):
    """API requests made by the reference site `prefix` (or by anything nested below it)"""
    prefix = _unsub(prefix)
    return [[m, n] for m, n in log if _unsub(n) == prefix or _unsub(n).startswith(prefix + ".")]


def oracle(case, obs, prep=None):
    """C01's clauses on what the implementation did; returns a list of (label, what).
    With `prep`, a step whose Logic is a sub-workflow is held to that sub-workflow's REAL outcome (the prepared
    definition reconciled on its own with the step's inputs as trigger): not Ok ⇒ the step is not Ok either and
    every step referencing it is a dependency-skip without any Logic evaluation."""
    bad = []
    if obs.get("rejected"):
        return [("*", REJECTED + "; ".join(obs["rejected"]))]
    if obs.get("raised"):
        return [("*", f"reconcile_workflow raised {obs['raised']}")]
    steps = gen_wf.main_steps(case)
    classes = obs["classes"]
    eff = dict(classes)      # per-step class the dependency clauses go by (sub-workflow steps: their real outcome)
    state = obs["state_plain"]
    fns = case["fns"]
    obs_mode = {}
    for s in steps:
        st = s.get("state")
        obs_mode[s["label"]] = bool(st and st.get("map") == [[s["label"], {"path": ["value"]}]])
    by_owner: dict[str, list] = {}
    for m, n in obs["log"]:
        by_owner.setdefault(gen_wf.site_owner(case, n), []).append([m, n])
    kind_site = {f["rf"]["kind"]: f["rf"]["prefix"] for f in fns.values()
                 if f.get("rf") and f["rf"].get("lookup") and f["rf"].get("kind")}
    for k in obs.get("lookups") or []:       # a kind-discovery call is an API call on behalf of the kind's only user
        site = kind_site.get(k.split(".")[0])
        if site:
            by_owner.setdefault(gen_wf.site_owner(case, site), []).append(["LOOKUP", k])
    for s in steps:
        l = s["label"]
        mine = by_owner.get(l, [])
        cls = classes.get(l)
        dep_cls = {d: eff.get(d) for d in s["deps"]}
        non_ok = [d for d, c in dep_cls.items() if c is not None and c != "ok"]
        # (1) a non-Ok dependency: dependency-skip, and no API call on the step's behalf
        if non_ok:
            if cls is not None and cls != "depSkip":
                bad.append((l, f"dependency {non_ok[0]} ended {dep_cls[non_ok[0]]} but the step is {cls}, not depSkip"))
            if mine:
                bad.append((l, f"API calls {mine} on behalf of a step whose dependency {non_ok[0]} is not Ok"))
            continue
        # (2) Logic evaluated (API calls seen / ran to an own outcome) only with every dependency Ok
        if any(c is None for c in dep_cls.values()):
            continue      # a dependency without a condition: its class is not observable here
        vals = {}
        known = True
        for d in s["deps"]:
            if obs_mode.get(d) and d in state:
                vals[d] = state[d]
            else:
                known = False
        if not known:
            continue
        act = {"steps": vals, "parent": case["trig"]} if s["deps"] else {"parent": case["trig"]}
        inputs = {} if s.get("inputs") is None else py_eval(s["inputs"], act)
        if inputs is ERR:
            if cls not in (None, "permFail"):
                bad.append((l, f"inputs cannot be evaluated but the step is {cls}"))
            if mine:
                bad.append((l, f"API calls {mine} although inputs cannot be evaluated"))
            continue
        # (3) skipIf
        if s.get("skipIf") is not None:
            sk = py_eval(s["skipIf"], act)
            if sk is True:
                if cls not in (None, "skip"):
                    bad.append((l, f"skipIf is true but the step is {cls}"))
                if mine:
                    bad.append((l, f"API calls {mine} on behalf of a step whose skipIf is true"))
                continue
            if sk is not False:
                if cls not in (None, "permFail"):
                    bad.append((l, f"skipIf is not a bool but the step is {cls}"))
                if mine:
                    bad.append((l, f"API calls {mine} although skipIf is not a bool"))
                continue
        # the evaluations the Logic gets: [(inputs, index)]
        fe = s.get("forEach")
        if fe:
            items = py_eval(fe["itemIn"], act)
            if items is ERR or not isinstance(items, list):
                if cls not in (None, "permFail"):
                    bad.append((l, f"forEach.itemIn is not a list but the step is {cls}"))
                if mine:
                    bad.append((l, f"API calls {mine} although forEach.itemIn is not a list"))
                continue
            evals = [{**inputs, fe["inputKey"]: it} for it in items]
        else:
            evals = [inputs]
        # (4) refSwitch: exactly the selected case
        lg = s["logic"]
        selected = []
        if "switch" in lg:
            sw = lg["switch"]
            targets = dict((k, t) for k, t in sw["cases"])
            for ev in evals:
                v = py_eval(sw["on"], {"inputs": ev, **act})
                if isinstance(v, str) and not isinstance(v, bool):
                    selected.append(targets.get(v, sw["default"]))
                elif isinstance(v, int) and not isinstance(v, bool):
                    selected.append(sw["default"])
                else:
                    selected.append(None)
            for k, t in sw["cases"]:
                site = t["fn"] if "fn" in t else t["wf"]
                if t in [x for x in selected if x]:
                    continue
                stray = site_prefix_calls(obs["log"], site)
                if stray:
                    bad.append((l, f"refSwitch evaluated case {k!r} ({stray}) which was not selected"))
            if not fe and selected == [None]:
                if cls not in (None, "permFail"):
                    bad.append((l, f"refSwitch selects nothing but the step is {cls}"))
                if mine:
                    bad.append((l, f"API calls {mine} although refSwitch selects nothing"))
                continue
        else:
            selected = [lg["ref"]] * len(evals)
        # (4b) a sub-workflow step is exactly as Ok as the sub-workflow is
        if prep is not None and not fe and selected and selected[0] and "wf" in selected[0]:
            sub = wf_run.run_sub(prep, selected[0]["wf"], evals[0])
            if sub and not sub["raised"] and sub["overall"]:
                c_sub = sub["overall"]["c"]
                if cls is not None and cls != c_sub:
                    bad.append((l, f"sub-workflow {selected[0]['wf']} ends {c_sub} for these inputs but the step is reported {cls}"))
                elif c_sub == "ok" and cls == "ok" and obs_mode.get(l) and l in state \
                        and canon_unordered(state[l]) != sub.get("state"):
                    bad.append((l, f"the step's value {state[l]!r} is not the state of the selected sub-workflow "
                                   f"{selected[0]['wf']} ({sub.get('state')})"))
                eff[l] = c_sub
        # (4c) what ran is the Function the (selected) reference names: a Function whose outcome class is fixed by
        # construction (precondition-forced, or a ResourceFunction mode over its own objects) gives the step that class
        want = []
        for t in selected:
            f = fns.get(t["fn"]) if t and "fn" in t else None
            if f is None or f.get("by") or (f.get("rf") and f["rf"]["nameKey"] and not f["rf"]["pre"]):
                want = None
                break
            want.append(f["c"])
        if want is not None and cls is not None and (not fe or all(c == "ok" for c in want)):
            expect = "ok" if fe else want[0]
            if cls != expect:
                which = selected[0]["fn"] if not fe else "the selected Functions"
                bad.append((l, f"the Logic to evaluate is {which} (which answers {expect}) but the step is {cls}"))
        # (5) inputs exact: an echoing Function shows what the Logic received
        if cls == "ok" and obs_mode.get(l) and l in state:
            got = state[l]
            outs = got if fe else [got]
            if fe and (not isinstance(got, list) or len(got) != len(evals)):
                bad.append((l, f"forEach over {len(evals)} items returned {got!r}"))
                continue
            for i, (ev, t, out) in enumerate(zip(evals, selected, outs)):
                if not t or "fn" not in t:
                    continue
                f = fns[t["fn"]]
                if f.get("by") or f["c"] != "ok":
                    if f.get("by") and isinstance(out, dict) and "got" in out and not same(out["got"], ev):
                        bad.append((l, f"evaluation {i} received {out['got']!r}, expected exactly {ev!r}"))
                    continue
                if not isinstance(out, dict) or out.get("site") != t["fn"]:
                    bad.append((l, f"evaluation {i} is not the answer of {t['fn']}: {out!r}"))
                elif not same(out.get("got"), ev):
                    bad.append((l, f"evaluation {i} received {out.get('got')!r}, expected exactly {ev!r}"))
    # (6) every Ok step's published state reaches Result.state (later listed step wins on a shared key)
    expect: dict = {}
    for s in steps:
        st = s.get("state")
        if not st or "map" not in st:
            continue
        c = classes.get(s["label"])
        sure = all("lit" in e or e.get("path") == ["value"] for _, e in st["map"])
        for k, e in st["map"]:
            if c == "ok" and sure and "lit" in e:
                expect[k] = ("lit", e["lit"], s["label"])
            elif c is None or c == "ok":
                expect[k] = None
    for k, v in expect.items():
        if v is None:
            continue
        if k not in state:
            bad.append((v[2], f"step {v[2]} ended Ok and publishes state key {k!r} = {v[1]!r}, but Result.state has no such key"))
        elif not same(state[k], v[1]):
            bad.append((v[2], f"step {v[2]} ended Ok and is the last listed step to publish state key {k!r} = {v[1]!r}, "
                              f"but Result.state has {state[k]!r}"))
    return bad


# --------------------------------------------------------------------------- one case through both sides

REJECTED = "the generated workflow is well-formed (every dependency names an earlier step, every definition it needs is offered) but prepare does not make it ready: "


def observe(case):
    """(prep, obs); a well-formed generated definition that the tree's prepare rejects is the TREE's behaviour, not
    infrastructure trouble: then nothing is run and obs = {"rejected": [...]}"""
    prep = wf_run.prepare_case(case)
    if prep.problems:
        return prep, {"rejected": [str(x)[:300] for x in prep.problems[:3]]}
    wf_run.cool_lookups(prep)        # functions prepared without `plural` discover it in this pass
    return prep, wf_run.run_prepared(prep)


def judge(case):
    """prepare, run, oracle"""
    prep, obs = observe(case)
    return oracle(case, obs, prep)


def compact(case):
    """the case as stored in samples / replays"""
    return json.loads(json.dumps(case))


def shrink(case, fails):
    """shortest failing prefix of the main workflow, then drop steps nobody depends on, then unused definitions"""
    def ok(c):
        try:
            return bool(fails(c))
        except Exception:
            return False

    best = case
    for c in gen_wf.shrink_candidates(best):
        if ok(c):
            best = c
            break
    changed = True
    while changed:
        changed = False
        steps = gen_wf.main_steps(best)
        for i in range(len(steps) - 1, -1, -1):
            if len(steps) == 1 or any(steps[i]["label"] in s["deps"] for s in steps):
                continue
            c = gen_wf.drop_step(best, i)
            if ok(c):
                best, changed = c, True
                break
    pruned = gen_wf.prune(best)
    return pruned if ok(pruned) else best


def check_case(ck, case, ans, tag):
    """oracle on the implementation + correspondence with the model's answer `ans`"""
    ck.evaluated()
    prep, obs = observe(case)
    steps = gen_wf.main_steps(case)
    ck.count(f"steps:{min(len(steps), 20)}")
    ck.count(f"src:{tag}")
    if obs.get("rejected"):
        small = shrink(case, lambda c: bool(observe(c)[1].get("rejected"))) if len(ck.violations) < 3 else case
        ck.violate({"case": compact(small)}, oracle(small, observe(small)[1])[0][1])
        return obs
    if obs.get("raised") is None:
        ck.count(f"overall:{obs['overall']['c']}")
        for c in obs["classes"].values():
            ck.count(f"class:{c}")
    for s in steps:
        if s.get("skipIf"):
            ck.count("has:skipIf")
        if s.get("forEach"):
            ck.count("has:forEach")
        if "switch" in s["logic"]:
            ck.count("has:refSwitch")
        elif "wf" in s["logic"]["ref"]:
            ck.count("has:subWorkflow")
        if s["deps"]:
            ck.count("has:deps")
    ck.count("api-calls", len(obs["log"]))
    kinds = {c for c in obs.get("classes", {}).values()}
    if len(kinds) >= 2 and any(s["deps"] for s in steps):
        ck.nontriv(json.dumps(gen_wf.to_req(case), sort_keys=True))
    ck.sample({"case": compact(case), "impl": {k: obs.get(k) for k in ("overall", "classes", "log")}}, limit=3)
    bad = oracle(case, obs, prep)
    if bad:
        def fails(c):
            return bool(judge(c))
        small = shrink(case, fails) if len(ck.violations) < 3 else case
        sb = judge(small) or bad
        ck.violate({"case": compact(small)}, f"step {sb[0][0]}: {sb[0][1]}")
    # correspondence
    want_deps = {s["label"]: s["deps"] for s in steps}
    if prep.deps != want_deps:
        ck.disagree({"case": compact(case)}, want_deps, prep.deps, "prepared-dependencies")
    if ans is not None:
        if "error" in ans:
            raise Infra(f"driver: {ans['error']}")
        mv = wf_run.model_view(ans)
        diff = wf_run.compare(obs, mv)
        api_m = sorted(ans["api"])
        api_i = sorted([f"{m} {n}" for m, n in obs["log"]] + [f"LOOKUP {k}" for k in obs.get("lookups") or []])
        if api_m != api_i:
            diff.append("api-requests")
        if not ans["wf"]:
            diff.append("not-well-formed")
        if diff:
            ck.disagree({"case": compact(case)},
                        {k: mv.get(k) for k in diff if k in mv} | ({"api": api_m} if "api-requests" in diff else {}),
                        {k: obs.get(k) for k in diff if k in obs} | ({"api": api_i} if "api-requests" in diff else {}),
                        "workflow-observables:" + ",".join(diff))
    return obs


# --------------------------------------------------------------------------- exhaustive small DAGs

def exhaustive(ck, drv, max_n):
    """every DAG shape on ≤ max_n steps × every outcome assignment; one prepared workflow per shape"""
    total = 0
    for n in range(1, max_n + 1):
        for deps in gen_wf.dag_shapes(n):
            base = gen_wf.shape_case(deps)
            prep = wf_run.prepare_case(base)
            if prep.problems:
                ck.violate({"case": compact(base)}, REJECTED + "; ".join(str(x)[:300] for x in prep.problems[:3]))
                continue
            cases = [gen_wf.with_assignment(base, cl)
                     for cl in itertools.product(gen_wf.CHAMELEON_CLASSES, repeat=n)]
            answers = drv.ask([gen_wf.to_req(c) for c in cases])
            for c, ans in zip(cases, answers):
                total += 1
                ck.evaluated()
                obs = wf_run.run_prepared(prep, trigger=c["trig"])
                bad = oracle(c, obs, prep)
                if bad:
                    ck.violate({"case": compact(c)}, f"step {bad[0][0]}: {bad[0][1]}")
                if "error" in ans:
                    raise Infra(f"driver: {ans['error']}")
                diff = wf_run.compare(obs, wf_run.model_view(ans))
                if diff:
                    ck.disagree({"case": compact(c)}, wf_run.model_view(ans), {k: obs.get(k) for k in diff if k in obs},
                                "workflow-observables:" + ",".join(diff))
                if n >= 2 and len(set(obs["classes"].values())) >= 2:
                    ck.nontriv(("shape", json.dumps(deps, sort_keys=True), tuple(c["trig"]["cls"].values())))
    ck.count("exhaustive-small-dags", total)
    return total


# --------------------------------------------------------------------------- entry points

def run(tier: str) -> int:
    ck = Check("C01", tier)
    ck.trusted = [
        "Lean 4.33.0 kernel; axioms of every theorem ⊆ {propext, Classical.choice, Quot.sound}",
        "model lean/Koreo/Workflow.lean hand-transcribed from src/koreo/workflow/reconcile.py (_reconcile_step, "
        "_reconcile_step_logic, _reconcile_ref_switch, _for_each_reconciler, post-loop of _reconcile_steps, tail of "
        "reconcile_workflow); tied to the code by this run's differential only",
        "harness/gen_wf.py, wf_run.py, cluster.py, vloop.py, c01.py (ordinary Python); celpy 0.3.0 as the CEL oracle; "
        "kr8s APIObject plumbing; asyncio task wiring (task_map lookups) is exercised, not modelled",
    ]
    ck.assumptions = [
        "workflows are those prepare_workflow accepts with steps_ready Ok (no ErrorStep; 1-20 steps)",
        "expressions range over the generator's shapes: literals, member paths into parent/steps/inputs/value, map "
        "literals of those, failing expressions; floats absent",
        "every Function is referenced at exactly one site; API calls succeed (fault-free pass, no time-out)",
    ]
    wf_run.check_constants()
    ck.prove()
    drv = LeanDriver("C01")
    # corpus
    for f in sorted((VERIF / "corpus" / "C01").glob("*.json")):
        data = json.load(open(f))
        for case in data.get("cases", [data.get("case")] if data.get("case") else []):
            ans = drv.ask([gen_wf.to_req(case)])[0]
            check_case(ck, case, ans, "corpus")
    # random DAG workflows
    r = rng("c01")
    n = 300 if tier == "quick" else 3500
    cases = []
    for i in range(n):
        mode = "obs" if r.random() < 0.6 else "mixed"
        cases.append((gen_wf.gen_case(r, mode=mode), mode))
    try:
        answers = drv.ask([gen_wf.to_req(c) for c, _ in cases])
    except Infra as e:
        answers = [None] * len(cases)
        ck.notes.append(f"model driver unavailable: {e}")
        ck.build_ok = False
    for (c, mode), ans in zip(cases, answers):
        check_case(ck, c, ans, mode)
    # targeted: sub-workflows whose inner steps are all skipped (overall Skip/DepSkip), referenced downstream
    rs = rng("c01-subskip")
    tcases = [gen_wf.gen_skipped_sub_case(rs) for _ in range(40 if tier == "quick" else 600)]
    try:
        tanswers = drv.ask([gen_wf.to_req(c) for c in tcases])
    except Infra:
        tanswers = [None] * len(tcases)
    for c, ans in zip(tcases, tanswers):
        o = check_case(ck, c, ans, "skipped-sub-workflow")
        sub_label = next(s["label"] for s in gen_wf.main_steps(c)
                         if "wf" in json.dumps(s["logic"]) and "sub-main" in json.dumps(s["logic"]))
        ck.count("sub-workflow-step:" + str((o.get("classes") or {}).get(sub_label)))
    # targeted: forEach over a list of maps one member of which cannot be evaluated
    ri = rng("c01-itemerr")
    icases = [gen_wf.gen_item_error_case(ri) for _ in range(30 if tier == "quick" else 400)]
    try:
        ianswers = drv.ask([gen_wf.to_req(c) for c in icases])
    except Infra:
        ianswers = [None] * len(icases)
    for c, ans in zip(icases, ianswers):
        check_case(ck, c, ans, "forEach-item-error")
    # targeted (second round of seeded changes): one Koreo name under several kinds in a refSwitch; a forEach refSwitch
    # whose switchOn reads steps.*; Ok steps with falsy values that publish state
    for tag, g, nq, nt in (("shared-name-switch", gen_wf.gen_shared_name_switch_case, 30, 400),
                           ("forEach-switch-on-steps", gen_wf.gen_foreach_switch_steps_case, 30, 400),
                           ("falsy-value-state", gen_wf.gen_falsy_state_case, 30, 400),
                           ("shared-dependency-value", gen_wf.gen_alias_case, 40, 400),
                           ("digit-label", gen_wf.gen_digit_label_case, 30, 300),
                           ("unnameable-access", gen_wf.gen_unnameable_case, 40, 400),
                           ("cluster-scoped", gen_wf.gen_cluster_scoped_case, 15, 150),
                           ("non-json-values", gen_wf.gen_typed_value_case, 25, 300),
                           ("gated-kind-discovery", gen_wf.gen_gated_lookup_case, 30, 300),
                           ("steps-as-a-whole", gen_wf.gen_whole_steps_case, 15, 150)):
        rt = rng("c01-" + tag)
        xs = [g(rt) for _ in range(nq if tier == "quick" else nt)]
        try:
            xa = drv.ask([gen_wf.to_req(c) for c in xs])
        except Infra:
            xa = [None] * len(xs)
        for c, ans in zip(xs, xa):
            check_case(ck, c, ans, tag)
    # exhaustive small DAGs × outcome assignments
    try:
        k = exhaustive(ck, drv, 3 if tier == "quick" else 4)
        ck.cov["exhaustive"] = True
        ck.cov["exhaustive_space"] = (f"every dependency relation on ≤ {3 if tier == 'quick' else 4} listed steps × every "
                                      f"assignment of {{ok, skip, depSkip, retry, permFail, evaluation error}} ({k} runs)")
    except Infra as e:
        ck.notes.append(f"exhaustive sweep not run: {e}")
        ck.build_ok = False
    if tier == "thorough":
        ck.leanchecker()

    def widen(ck):
        rr = rng("c01-widen")
        for i in range(1500):
            c = gen_wf.gen_case(rr, mode="obs")
            ck.evaluated()
            bad = judge(c)
            if bad:
                small = shrink(c, lambda x: bool(judge(x)))
                sb = judge(small) or bad
                ck.violate({"case": compact(small)}, f"step {sb[0][0]}: {sb[0][1]}")
                return

    return ck.finish(
        widen=widen,
        rule="random DAG workflows of 1-20 steps (ref / refSwitch / forEach / skipIf / sub-workflows up to 2 levels / "
             "state / conditions; ValueFunctions and ResourceFunctions with an assigned outcome class) plus every DAG "
             "shape on few steps × every outcome assignment; non-trivial = at least two distinct step outcome classes "
             "and at least one dependency edge; distinct by the whole workflow-as-data",
    )


def replay(path: str) -> int:
    data = json.load(open(path))
    rc = 0
    items = data.get("violations") or [{"case": d.get("case")} for d in data.get("no_longer_checks", []) if d.get("case")]
    for v in items:
        case = v["case"]["case"] if "case" in v["case"] else v["case"]
        prep, obs = observe(case)
        bad = oracle(case, obs, prep)
        print("replay:", json.dumps({"steps": [s["label"] for s in gen_wf.main_steps(case)], "trig": case["trig"]}),
              "->", {k: obs.get(k) for k in ("overall", "classes", "log")}, "::", bad)
        rc = rc or (1 if bad else 0)
    return rc
