"""Machinery shared by the C04 and C05 checks: model requests, the unit-level differential of
`validate_match` against `validateMatch`, generated ResourceFunctions reconciled against the
in-memory cluster, and the observation/abstraction both sides are compared on."""
from __future__ import annotations

import copy
import json

import gen_rf45 as g
from common import canon_unordered, to_wire

API_VERSION, KIND, PLURAL, NS, NAME = "example.dev/v1", "Widget", "widgets", "ns1", "w1"
KEY = (API_VERSION, PLURAL, NS, NAME)
# a cluster-scoped kind (`apiConfig.namespaced: false`): its own kr8s class, no namespace anywhere
CKIND, CPLURAL = "ClusterWidget", "clusterwidgets"


def namespaced(p) -> bool:
    return bool(p.get("namespaced", True))


def kind_of(p):
    return (KIND, PLURAL) if namespaced(p) else (CKIND, CPLURAL)


def ns_of(p):
    return NS if namespaced(p) else None


def key_of(p):
    return (API_VERSION, kind_of(p)[1], ns_of(p), NAME)


def parent_ns(p):
    """namespace of the parent (the `owner` argument of a pass): `NS` unless the program says otherwise;
    `None` = a cluster-scoped parent, any other string = a parent living in another namespace"""
    return p["parentNs"] if "parentNs" in p else NS


def owned_eff(p) -> bool:
    """`own_resource and owner_namespace == namespace`: a namespaced parent never owns a cluster-scoped object
    (nor one in another namespace); a cluster-scoped parent owns a cluster-scoped object (None == None)"""
    return bool(p["owned"]) and parent_ns(p) == ns_of(p)
LA = g.LA_ANNOTATION

# strings that survive the literal -> CEL encoder whatever becomes of F2 (no numerals, quotes, backslashes)
E2E_STRS = ["", "a", "b", " a ", "True", "None", "x$y", "é", "it's", "long-ish value"]


# --------------------------------------------------------------------------- unit level

def impl_vm(t, a, la):
    """match / differ / raise of the real comparator (it mutates `last_applied_value`: copies)"""
    from koreo.resource_function.reconcile.validate import validate_match

    try:
        m = validate_match(copy.deepcopy(t), copy.deepcopy(a), copy.deepcopy(la))
        return "ok" if m.match else "differ"
    except Exception:
        return "raise"


def vm_req(t, a, la):
    return {"op": "vm", "t": to_wire(t), "a": to_wire(a), "la": to_wire(la)}


def meets_req(mode, t, live, la=None):
    return {"op": "meets", "mode": mode, "t": to_wire(t), "l": to_wire(live), "la": to_wire(la)}


def res_allows(ans: dict, impl: str) -> bool:
    """the model's answer set contains what the implementation did"""
    if ans.get("r") == "ok":
        return impl == "ok"
    return (impl == "differ" and bool(ans.get("d"))) or (impl == "raise" and bool(ans.get("x")))


def la_ok(t, la) -> bool:
    """LaShaped: the last-applied tree has the target's shape along the target's paths"""
    if isinstance(t, dict):
        if not (isinstance(la, dict) or not la):
            return False
        lad = la if isinstance(la, dict) else {}
        _, _, maps = g.spec_dirs(t)
        for k, tv in t.items():
            if k in g.DIRECTIVES or k == g.OWNER_REFS:
                continue
            lav = lad.get(k)
            if k in maps:
                if isinstance(tv, list):
                    lams = lav if isinstance(lav, list) and all(isinstance(m, dict) for m in lav) else []
                    for tm in tv:
                        if isinstance(tm, dict):
                            key = g.member_key(tm, maps[k])
                            lam = None
                            for m in lams:
                                if g.member_key(m, maps[k]) == key:
                                    lam = m
                            if not la_ok(tm, lam):
                                return False
            elif not la_ok(tv, lav):
                return False
        return True
    if isinstance(t, list):
        if not (isinstance(la, list) or not la):
            return False
        items = la if isinstance(la, list) else []
        return all(la_ok(x, items[i] if i < len(items) else None) for i, x in enumerate(t))
    return True


def gen_triple(r, stream: str):
    """(target, live, last-applied, kind, info) for the unit-level differential.
    stream: 'decorated' | 'drift' | 'random' | 'malformed'"""
    t = g.gen_target(r, nulls=r.random() < 0.15)
    if stream == "malformed":
        t = g.malform(r, t)
        stream = r.choice(["decorated", "drift"])
    base = g.strip(t)
    info = None
    if stream == "random":
        live = g.gen_plain(r, 3, True)
    else:
        live = g.decorate_object(r, t, copy.deepcopy(base))
        if stream == "drift":
            d = g.drift(r, t, live)
            if d:
                live, info = d[0], {"path": g.path_text(d[1]), "at": d[2], "deviation": d[3]}
            else:
                stream = "decorated"
    la = g.gen_la(r, t)
    return t, live, la, stream, info


# --------------------------------------------------------------------------- annotation text <-> wire

def decode_ann(obj):
    """show the last-applied annotation as JSON (both sides are compared on values, not on text)"""
    if not isinstance(obj, dict):
        return obj
    md = obj.get("metadata")
    if isinstance(md, dict) and isinstance(md.get("annotations"), dict) and isinstance(md["annotations"].get(LA), str):
        try:
            dec = json.loads(md["annotations"][LA])
        except Exception:
            return obj
        out = dict(obj)
        out["metadata"] = dict(md)
        out["metadata"]["annotations"] = dict(md["annotations"])
        out["metadata"]["annotations"][LA] = {"__decoded__": dec}
        return out
    return obj


def to_model_object(obj):
    """the same object with the annotation text in the driver's codec (wire text)"""
    if not isinstance(obj, dict):
        return obj
    md = obj.get("metadata")
    if isinstance(md, dict) and isinstance(md.get("annotations"), dict) and isinstance(md["annotations"].get(LA), str):
        try:
            dec = json.loads(md["annotations"][LA])
            text = json.dumps(to_wire(dec), ensure_ascii=True)
        except Exception:
            return obj
        out = copy.deepcopy(obj)
        out["metadata"]["annotations"][LA] = text
        return out
    return obj


def extract_la(obj):
    """what `_extract_last_applied` reads (None when absent); raises like it"""
    if not obj:
        return None
    md = obj.get("metadata")
    if not md:
        return None
    an = md.get("annotations")
    if not an:
        return None
    text = an.get(LA)
    if not text:
        return None
    return json.loads(text)


def cn(v):
    return canon_unordered(v)


# --------------------------------------------------------------------------- programs

def deep_merge(a, b):
    """maps merge key by key, everything else is replaced (what the forced / create overlay does here)"""
    if isinstance(a, dict) and isinstance(b, dict):
        out = dict(a)
        for k, v in b.items():
            out[k] = deep_merge(a[k], v) if k in a else copy.deepcopy(v)
        return out
    return copy.deepcopy(b)


def _retarget_strings(r, v):
    """replace strings the encoder may mangle by safe ones (inline targets go through it)"""
    if isinstance(v, dict):
        return {k: (x if k in g.DIRECTIVES else _retarget_strings(r, x)) for k, x in v.items()}
    if isinstance(v, list):
        return [_retarget_strings(r, x) for x in v]
    if isinstance(v, str) and v not in E2E_STRS:
        return "s-" + v.encode().hex()[:10]
    return v


SAFE_OVERLAY_KEYS = {"a", "b", "c", "d", "e", "spec", "items", "k1", "k2", "data"}


def gen_program(r, nulls=False, policy=None):
    """a ResourceFunction by construction: the materialised target is known (`T`), and is split into
    base (inline or template) + overlays; create overlay adds keys the target does not have"""
    T = g.gen_target(r, nulls=nulls, depth=3)
    T.pop("metadata", None)
    T = _retarget_strings(r, T)
    # keyed lists / sets keep their members; member names are among NAMES -> safe
    if r.random() < 0.7:
        T["metadata"] = {"labels": {"app": r.choice(["web", "db"])}}
        if r.random() < 0.3:
            T["metadata"]["annotations"] = {"team": "x"}
        if r.random() < 0.08:          # a target that names owners itself (C08 / F7 territory)
            T["metadata"]["ownerReferences"] = [{"apiVersion": "v1", "kind": "Other", "name": "o", "uid": "uid-other"}]
    use_template = r.random() < 0.35
    movable = [k for k in T if k in SAFE_OVERLAY_KEYS]
    moved = r.sample(movable, r.randint(0, min(2, len(movable)))) if r.random() < 0.6 else []
    base = {k: v for k, v in T.items() if k not in moved}
    overlays = [{"overlay": {k: copy.deepcopy(T[k])}} for k in moved]
    # input-driven leaves (inline base and overlays only: a template is static)
    inputs = {"name": NAME}
    exprs = 0
    planted = {}          # input name -> path of the leaf it drives inside T (base and overlays keep T's paths)

    def plant(v, allow, path=()):
        nonlocal exprs
        if isinstance(v, dict):
            return {k: (x if k in g.DIRECTIVES else plant(x, allow, path + (k,))) for k, x in v.items()}
        if isinstance(v, list):
            return [plant(x, allow, path + (i,)) for i, x in enumerate(v)]
        if allow and v is not None and not isinstance(v, float) and exprs < 3 and r.random() < 0.1:
            exprs += 1
            inputs[f"v{exprs}"] = v
            planted[f"v{exprs}"] = list(path)
            return f"=inputs.v{exprs}"
        return v

    spec_base = plant(base, not use_template)
    spec_overlays = [{"overlay": plant(o["overlay"], True)} for o in overlays]
    pol = policy or r.choice(["patch", "patch", "recreate", "never", "default"])
    delay = r.choice([0, 5, 7, 30, 61])
    cdelay = r.choice([0, 11, 30])
    create_overlay = None
    contradicts = False
    if r.random() < 0.4:
        create_overlay = {"createOnly": r.choice(["z", 1, True])}
        if r.random() < 0.3:
            create_overlay["status0"] = {"seeded": True}
        if r.random() < 0.12:
            ks = [k for k in T if k in SAFE_OVERLAY_KEYS and g.is_scalar(T[k]) and isinstance(T[k], str)]
            if ks:
                create_overlay[ks[0]] = T[ks[0]] + "-at-create"
                contradicts = True
    owned = r.random() < 0.7
    is_namespaced = r.random() >= 0.15        # else a cluster-scoped kind: `apiConfig.namespaced: false`
    create_enabled = r.random() >= 0.15
    if not create_enabled:
        create_overlay, contradicts = None, False
    # an overlay step that (tries to) rewrite identity fields: the forced kind/name overlay is applied
    # last, so the materialised target is unchanged by it
    if r.random() < 0.15:
        kind = r.choice(["metadata-input", "metadata-input", "name", "kind", "apiVersion"] +
                        (["namespace"] if is_namespaced else []))
        if kind == "metadata-input":
            md = copy.deepcopy(T.get("metadata") or {})
            md.update({"name": "intruder", "namespace": "elsewhere"} if is_namespaced else {"name": "intruder"})
            inputs["metadata"] = md
            T.setdefault("metadata", {})
            spec_overlays.append({"overlay": {"metadata": "=inputs.metadata"}})
        elif kind == "name":
            spec_overlays.append({"overlay": {"metadata": {"name": "intruder"}}})
        elif kind == "namespace":
            spec_overlays.append({"overlay": {"metadata": {"namespace": "elsewhere"}}})
        elif kind == "kind":
            spec_overlays.append({"overlay": {"kind": "Gadget"}})
        else:
            spec_overlays.append({"overlay": {"apiVersion": "other.dev/v9"}})
    out = {"namespaced": is_namespaced, "createEnabled": create_enabled, "T": T, "base": spec_base, "overlays": spec_overlays, "template": use_template, "policy": pol,
           "delay": delay, "createDelay": cdelay, "createOverlay": create_overlay, "contradicts": contradicts,
           "owned": owned, "inputs": inputs, "planted": planted}
    # where the parent lives (drawn last: everything above keeps its stream).  A cluster-scoped kind is mostly
    # managed for a cluster-scoped parent (owner = (None, ref): owned when `owned`), a namespaced one
    # sometimes for a cluster-scoped parent or for a parent in another namespace (never owned by koreo's rule)
    c = r.random()
    if not is_namespaced:
        if c < 0.65:
            out["parentNs"] = None
    elif c < 0.08:
        out["parentNs"] = None
    elif c < 0.16:
        out["parentNs"] = "ns-of-the-parent"
    return out


def _under_la(t, path) -> bool:
    """the path passes through a key its map lists in x-koreo-compare-last-applied"""
    cur = t
    for e in path:
        if isinstance(cur, dict):
            if e in g.spec_dirs(cur)[1]:
                return True
        try:
            cur = cur[e]
        except (KeyError, IndexError, TypeError):
            return False
    return False


def _set_path(v, path, new):
    cur = v
    for e in path[:-1]:
        cur = cur[e]
    cur[path[-1]] = new


def _get_path(v, path):
    for e in path:
        v = v[e]
    return v


def add_input_subtree(r, p, la=True):
    """the same program with one more overlay step that adds a top-level map holding an input-driven scalar
    leaf — listed in the map's x-koreo-compare-last-applied when `la` — (template or inline alike: overlays may
    always use inputs).  Returns p itself when no top-level name is free."""
    free = sorted(k for k in SAFE_OVERLAY_KEYS if k not in p["T"])
    if not free:
        return p
    top = r.choice(free)
    sub = _retarget_strings(r, g.gen_dict(r, 1, False, max_keys=2))
    leaf = r.choice([k for k in g.KEYS if k not in sub])
    val = r.choice(["a", "b", "first", 0, 7, 443, True, False])
    sub[leaf] = val
    if la:
        sub[g.LAST_APPLIED] = [x for x in (sub.get(g.LAST_APPLIED) or []) if x != leaf] + [leaf]
    n = 1 + sum(1 for k in p["inputs"] if k.startswith("w"))
    name = f"w{n}"
    q = copy.deepcopy(p)
    q["T"][top] = copy.deepcopy(sub)
    spec_sub = copy.deepcopy(sub)
    spec_sub[leaf] = f"=inputs.{name}"
    q["overlays"] = [{"overlay": {top: spec_sub}}] + q["overlays"]
    q["inputs"][name] = val
    q.setdefault("planted", {})[name] = [top, leaf]
    return q


def vary_inputs(r, p, prefer_la=0.75):
    """the same function with one input-driven leaf given another value of its type: (program, path) or None.
    Prefers a leaf below a last-applied-directed key.  Leaves under `metadata` stay (identity overlays copy it)."""
    cands = [(n, path) for n, path in (p.get("planted") or {}).items()
             if path and path[0] != "metadata" and n in p["inputs"]]
    if not cands:
        return None
    la_c = [c for c in cands if _under_la(p["T"], c[1])]
    name, path = r.choice(la_c) if la_c and r.random() < prefer_la else r.choice(cands)
    old = p["inputs"][name]
    if isinstance(old, bool):
        new = not old
    elif isinstance(old, int):
        new = r.choice([x for x in (0, 1, 2, 7, 80, 443, 2 ** 40) if x != old])
    elif isinstance(old, str):
        new = r.choice([x for x in ("a", "b", "second", " a ", "x$y", "é", "long-ish value", "") if x != old])
    else:
        return None
    q = copy.deepcopy(p)
    try:
        if cn(_get_path(q["T"], path)) != cn(old):
            return None
        _set_path(q["T"], path, new)
    except (KeyError, IndexError, TypeError):
        return None
    if g.wf(p["T"]) and not g.wf(q["T"]):      # e.g. two keyed members with one key: not a target of the domain
        return None
    q["inputs"][name] = new
    return q, path


def program_spec(p) -> tuple[dict, dict | None]:
    """(ResourceFunction spec, ResourceTemplate spec or None)"""
    kind, plural = kind_of(p)
    spec: dict = {"apiConfig": {"apiVersion": API_VERSION, "kind": kind, "plural": plural,
                                "name": "=inputs.name", "owned": p["owned"]}}
    if namespaced(p):
        spec["apiConfig"]["namespace"] = NS
    else:
        spec["apiConfig"]["namespaced"] = False
    tmpl = None
    if p["template"]:
        tmpl = {"template": {"apiVersion": API_VERSION, "kind": kind, **copy.deepcopy(p["base"])}}
        spec["resourceTemplateRef"] = {"name": "tmpl"}
    else:
        spec["resource"] = copy.deepcopy(p["base"])
    if p["overlays"]:
        spec["overlays"] = copy.deepcopy(p["overlays"])
    if p["policy"] == "patch":
        spec["update"] = {"patch": {"delay": p["delay"]}}
    elif p["policy"] == "recreate":
        spec["update"] = {"recreate": {"delay": p["delay"]}}
    elif p["policy"] == "never":
        spec["update"] = {"never": {}}
    create: dict = {"delay": p["createDelay"]}
    if p["createOverlay"]:
        create["overlay"] = copy.deepcopy(p["createOverlay"])
    if not p.get("createEnabled", True):
        create = {"enabled": False}
    spec["create"] = create
    return spec, tmpl


def forced(p):
    md = {"name": NAME}
    if namespaced(p):
        md["namespace"] = NS
    return {"apiVersion": API_VERSION, "kind": kind_of(p)[0], "metadata": md}


def target_of(p) -> dict:
    """the materialised Target Resource Specification (with its directives)"""
    return deep_merge(p["T"], forced(p))


def policy_of(p):
    if p["policy"] in ("patch", "default"):
        return {"k": "patch", "d": to_wire(p["delay"] if p["policy"] == "patch" else 30)}
    if p["policy"] == "recreate":
        return {"k": "recreate", "d": to_wire(p["delay"])}
    return {"k": "never"}


def owner_state(p, live):
    """(owner-reffed?, ownerFix for the model) — the C08 side, re-derived from its specification;
    (None, "skip") where `_validate_owner_reffed` itself would raise"""
    import koreo_util as ku

    if not owned_eff(p) or live is None:
        return True, None
    md = live.get("metadata") if isinstance(live, dict) else None
    if not isinstance(md, dict) or "ownerReferences" not in md:
        return (True, None) if not isinstance(md, dict) else (False, {"refs": to_wire([ku.OWNER_REF])})
    refs = md.get("ownerReferences")
    if not refs:
        return False, {"refs": to_wire([ku.OWNER_REF])}
    if not isinstance(refs, list):
        return True, None
    if not all(isinstance(x, dict) for x in refs):
        return None, "skip"
    if any(x.get("uid") == ku.OWNER_REF["uid"] for x in refs):
        return True, None
    return False, {"refs": to_wire(list(refs) + [ku.OWNER_REF])}


def create_view(p) -> dict:
    import koreo_util as ku

    cv = deep_merge(target_of(p), p["createOverlay"] or {})
    cv = deep_merge(cv, forced(p))
    if owned_eff(p):
        refs = cv["metadata"].get("ownerReferences")
        if not refs:
            refs = [copy.deepcopy(ku.OWNER_REF)]
        elif not any(x.get("uid") == ku.OWNER_REF["uid"] for x in refs):
            refs = copy.deepcopy(refs) + [copy.deepcopy(ku.OWNER_REF)]
        cv["metadata"]["ownerReferences"] = refs
    return cv


def owner_free(t) -> bool:
    """the target does not itself set metadata.ownerReferences (never patched from the target: fix F7)"""
    md = t.get("metadata") if isinstance(t, dict) else None
    return isinstance(md, dict) and "ownerReferences" not in md


def synth_stored(p):
    """the object as koreo would have created it — for functions that may not create themselves"""
    body = g.strip(create_view(p))
    text = json.dumps(body)
    body = copy.deepcopy(body)
    body["metadata"].setdefault("annotations", {})[LA] = text
    return body


def pass_req(p, live):
    import koreo_util as ku

    return {"op": "pass",
            # the model decides `shouldOwn` itself (`shouldOwnOf`) from these three; the harness's own
            # `owned_eff` is used by the oracle and by `create_view`
            "cfg": {"policy": policy_of(p), "own": bool(p["owned"]), "parentNs": parent_ns(p), "ns": ns_of(p),
                    "ownerRef": to_wire(ku.OWNER_REF),
                    "createEnabled": bool(p.get("createEnabled", True)),
                    "createDelay": to_wire(p["createDelay"]),
                    "createView": to_wire(create_view(p))},
            "t": to_wire(target_of(p)),
            "cluster": None if live is None else {"some": to_wire(to_model_object(live))}}


def identity_path(path) -> bool:
    """paths that are the object's identity (C06): the request URL pins them, the API server never
    returns them changed, and kr8s re-imposes apiVersion/kind on what it read — not drift a
    ResourceFunction can observe"""
    keys = tuple(e[1] for e in path if e[0] == "k")
    if len(path) == 1 and keys in (("apiVersion",), ("kind",), ("metadata",)):
        return True
    return len(path) == 2 and keys in (("metadata", "name"), ("metadata", "namespace"))


# --------------------------------------------------------------------------- the API server's bookkeeping

SERVER_KEYS = ("uid", "generation", "resourceVersion")
_UIDS = [0]


def _outside_metadata(obj):
    return {k: v for k, v in obj.items() if k not in ("metadata", "status")} if isinstance(obj, dict) else obj


class ServerRules:
    """what the API server does to an object it stores: `metadata.uid` is set once per created object,
    `metadata.resourceVersion` changes on every write, `metadata.generation` only when something outside
    `metadata` / `status` changed.  Used as the cluster's `decorate` hook and for direct edits of the
    stored object between passes."""

    def __init__(self, key=KEY):
        self.cluster = None
        self.key = key

    def stamp(self, old, new):
        if not isinstance(new, dict) or not isinstance(new.get("metadata"), dict):
            return new
        new = copy.deepcopy(new)
        md = new["metadata"]
        omd = old.get("metadata") if isinstance(old, dict) and isinstance(old.get("metadata"), dict) else None
        if omd is None or "uid" not in omd:
            if "uid" not in md:
                _UIDS[0] += 1
                md["uid"] = f"uid-{_UIDS[0]}"
            md.setdefault("generation", 1)
            md.setdefault("resourceVersion", "1")
            return new
        md["uid"] = omd["uid"]
        for k in ("name", "namespace"):                   # identity is immutable on the server
            if k in omd:
                md[k] = omd[k]
        for k in ("apiVersion", "kind"):
            if k in old:
                new[k] = old[k]
        gen = omd.get("generation", 1)
        if cn(_outside_metadata(old)) != cn(_outside_metadata(new)):
            gen = gen + 1
        md["generation"] = gen
        try:
            md["resourceVersion"] = str(int(omd.get("resourceVersion", "0")) + 1)
        except (TypeError, ValueError):
            md["resourceVersion"] = "1"
        return new

    def __call__(self, obj):
        old = self.cluster.objects.get(self.key) if self.cluster is not None else None
        return self.stamp(old, obj)


def without_server_keys(obj):
    if not isinstance(obj, dict) or not isinstance(obj.get("metadata"), dict):
        return obj
    out = dict(obj)
    out["metadata"] = {k: v for k, v in obj["metadata"].items() if k not in SERVER_KEYS}
    return out


# --------------------------------------------------------------------------- running the real thing

class Prepared:
    def __init__(self, p):
        import koreo_util as ku

        self.p = p
        spec, tmpl = program_spec(p)
        self.spec, self.tmpl = spec, tmpl

        async def prep():
            ku.reset()
            if tmpl is not None:
                await ku.offer_resource_template("tmpl", copy.deepcopy(tmpl))
            return await ku.offer_resource_function("rf", copy.deepcopy(spec))

        self.prep = prep
        self.fn = None

    def run_passes(self, stored, steps, faults=None, programs=None):
        """`steps`: list of callables (cluster object or None) -> new cluster object or None, applied to
        the stored object *before* each pass.  Returns one observation per pass.
        `faults[i]`: a fault for pass i — a plain value hits the GET (first call of the pass); a map
        `{"at": n, "fault": f}` hits the pass's n-th call (n = 1: the POST / PATCH / DELETE after the GET).
        `programs[i]`: the program whose *inputs* pass i runs with (same function, another materialised target)."""
        import celpy

        import cluster as clmod
        import koreo_util as ku
        from koreo.resource_function.reconcile import reconcile_resource_function
        from koreo.resource_function.structure import ResourceFunction

        p = self.p
        obs = []

        async def go():
            fn = await self.prep()
            if not isinstance(fn, ResourceFunction):
                return [{"prepare": ku.outcome_obs(fn)}]
            KEY = key_of(p)
            rules = ServerRules(KEY)
            c = clmod.Cluster(decorate=rules)
            rules.cluster = c
            if stored is not None:
                c.put(*KEY, rules.stamp(None, stored))
            for step in steps:
                cur = c.get(*KEY)
                if step is not None:
                    new = step(copy.deepcopy(cur))
                    if new is None:
                        c.objects.pop(KEY, None)
                    else:
                        c.put(*KEY, rules.stamp(cur, new))
                before = copy.deepcopy(c.get(*KEY))
                n0 = len(c.log)
                fault = (faults or {}).get(len(obs), (faults or {}).get(str(len(obs))))
                c.faults.clear()
                wfault = None
                if isinstance(fault, dict):    # a fault at a later call of the pass (the write)
                    wfault, fault = fault, None
                    c.faults[c.calls + int(wfault.get("at", 1))] = wfault["fault"]
                elif fault is not None:        # the GET is the first API call of a pass
                    c.faults[c.calls] = fault
                pp = programs[len(obs)] if programs is not None and len(obs) < len(programs) and \
                    programs[len(obs)] is not None else p
                try:
                    res = await reconcile_resource_function(
                        api=c, location="t", function=fn, owner=(parent_ns(p), copy.deepcopy(ku.OWNER_REF)),
                        inputs=celpy.json_to_cel(pp["inputs"]))
                    o = ku.outcome_obs(res.outcome)
                    out = {"c": o["c"]}
                    if o["c"] == "retry":
                        out["d"] = o["delay"]
                except Exception as e:  # an exception leaves reconcile_resource_function
                    out = {"c": "raised", "exc": type(e).__name__}
                reqs = [{"m": e["method"], "b": e["body"]} for e in c.mutations(n0)]
                c.faults.clear()
                if wfault is not None and not any(e.get("fault") is not None for e in c.log[n0:]):
                    wfault = None              # the pass made no such call: an ordinary pass
                obs.append({"before": before, "o": out, "reqs": reqs, "after": copy.deepcopy(c.get(*KEY)),
                            "fault": fault, "wfault": wfault, "p": pp})
            return obs

        return ku.run(go())


def obs_abstract(o):
    """what the model and the implementation are compared on for one pass"""
    out = {"c": o["o"]["c"]}
    if out["c"] == "retry":
        out["d"] = cn(o["o"].get("d"))
    return {"o": out,
            "reqs": [{"m": q["m"], "b": cn(decode_ann(q["b"])) if q["m"] != "DELETE" else None} for q in o["reqs"]],
            "cluster": None if o["after"] is None else cn(without_server_keys(decode_ann(o["after"])))}


def model_abstract(rs):
    """the model's possible results in the same abstraction"""
    from common import from_wire

    out = []
    for r in rs:
        o = {"c": r["o"]["c"]}
        if o["c"] == "retry":
            o["d"] = cn(from_wire(r["o"]["d"]))
        out.append({"o": o,
                    "reqs": [{"m": q["m"], "b": cn(from_wire(q["b"])) if q["m"] != "DELETE" else None}
                             for q in r["reqs"]],
                    "cluster": None if r["cluster"] is None else cn(without_server_keys(from_wire(r["cluster"])))})
    return out


def payload_core(body):
    """a request body without koreo's own annotation (and the container created only to hold it)"""
    b = copy.deepcopy(body)
    md = b.get("metadata") if isinstance(b, dict) else None
    if isinstance(md, dict) and isinstance(md.get("annotations"), dict):
        md["annotations"].pop(LA, None)
        if not md["annotations"]:
            del md["annotations"]
    return b


def _no_empty_annotations(v):
    v = copy.deepcopy(v)
    md = v.get("metadata") if isinstance(v, dict) else None
    if isinstance(md, dict) and md.get("annotations") == {}:
        del md["annotations"]
    return v


# --------------------------------------------------------------------------- shrinking

def _subvalues(v, path=()):
    yield path, v
    if isinstance(v, dict):
        for k, x in v.items():
            yield from _subvalues(x, path + (k,))
    elif isinstance(v, list):
        for i, x in enumerate(v):
            yield from _subvalues(x, path + (i,))


def _without(v, path):
    v = copy.deepcopy(v)
    cur = v
    for e in path[:-1]:
        cur = cur[e]
    del cur[path[-1]]
    return v


def _replaced(v, path, new):
    if not path:
        return copy.deepcopy(new)
    v = copy.deepcopy(v)
    cur = v
    for e in path[:-1]:
        cur = cur[e]
    cur[path[-1]] = copy.deepcopy(new)
    return v


def shrink_triple(case: dict, fails, fields=("t", "live", "la"), budget=400):
    """greedy structural shrink of the JSON values of a case while `fails(case)` keeps holding"""
    case = copy.deepcopy(case)
    spent = 0
    changed = True
    while changed and spent < budget:
        changed = False
        for f in fields:
            paths = [p for p, _ in _subvalues(case[f]) if p]
            paths.sort(key=lambda p: (len(p), str(p)))
            for p in paths:
                if spent >= budget:
                    break
                try:
                    cand = dict(case)
                    cand[f] = _without(case[f], p)
                except (KeyError, IndexError, TypeError):
                    continue
                spent += 1
                try:
                    if fails(cand):
                        case, changed = cand, True
                        break
                except Exception:
                    pass
            if changed:
                break
    return case


# --------------------------------------------------------------------------- phases shared by the two checks

TRUSTED = [
    "Lean 4.33.0 kernel; axioms of every theorem ⊆ {propext, Classical.choice, Quot.sound}",
    "models lean/Koreo/Compare.lean (validate.py as repaired by fixes/F9-compare-as-map.diff and "
    "fixes/F6-typed-set.diff) and lean/Koreo/Reconcile45.lean (reconcile/__init__.py:315-382, 612-721, "
    "828-860; prepare.py:465-478) hand-transcribed; tied to the code by this run's differential only, "
    "plus the constants regenerated by harness/extractors/Compare45.py",
    "environment: harness/cluster.py (RFC 7386 merge-patch) ~ lean/Koreo/MergePatch.lean; kr8s 0.20.7 APIObject "
    "(create/patch/delete addressing, `raw` re-imposing apiVersion/kind); celpy evaluating the generated literals",
    "Python: `==`/truthiness/set/str()/str.strip on JSON scalars (modelled in Koreo/Json.lean, Koreo/Compare.lean); "
    "json.dumps/json.loads round trip of the payload (the theorems' `Codec.reads` hypothesis, checked on every PATCH/POST body)",
    "the Python oracle `meets` (harness/gen_rf45.py) — differential-tested against Lean's `meetsB` on every unit case",
]
ASSUMPTIONS = [
    "floats are multiples of 1/8 of moderate size; strings carry no control characters; whitespace is ASCII",
    "keyed-list member keys never equal a directive key name (the code would read such a member as a directive)",
    "C04 domain: DirectivesWF (directive values have the documented shapes, set-directed lists hold scalars, keyed "
    "lists hold maps with distinct scalar-valued keys), no explicit nulls, target does not set koreo's own annotation, "
    "create overlay only adds keys",
    "C05 drift stream leaves the object's identity alone (apiVersion, kind, metadata.name/namespace: C06) and does "
    "not tamper with koreo's last-applied annotation (a non-object JSON text there makes `_validate_dict_match` raise)",
]


def unit_phase(ck, drv, n, weights, oracle, label):
    """generated triples through the real comparator and the model; the Python spec oracle against Lean's"""
    from common import rng

    r = rng(label)
    streams = [s for s, w in weights.items() for _ in range(w)]
    cases = [gen_triple(r, r.choice(streams)) for _ in range(n)]
    reqs = [{"op": "unit", "t": to_wire(t), "a": to_wire(live), "la": to_wire(la)} for t, live, la, _, _ in cases]
    try:
        ans = drv.ask(reqs)
    except Exception as e:
        ck.notes.append(f"model driver unavailable: {e}")
        ck.build_ok = False
        ans = None
    for i, (t, live, la, stream, info) in enumerate(cases):
        ck.evaluated()
        iv = impl_vm(t, live, la)
        pf, pe = g.meets("full", t, live, la), g.meets("excl", t, live)
        wf, nn, lk = g.wf(t), g.no_nulls(t), la_ok(t, la)
        ck.count(f"unit:{stream}:{iv}")
        if info:
            ck.count(f"drift-at:{info['at']}:{info['deviation']}")
        ck.count(f"unit:wf={int(wf)}:full={int(pf)}:excl={int(pe)}")
        if wf and (pf or not pe):
            ck.nontriv(hash((cn(t), cn(live), cn(la))))
        case = {"kind": "unit", "t": t, "live": live, "la": la, "stream": stream, "drift": info}
        if i < 3:
            ck.sample({**case, "impl": iv, "meets_full": pf, "meets_excl": pe, "wf": wf})
        if ans is not None:
            a = ans[i]
            if not res_allows(a["vm"], iv):
                ck.disagree(case, a["vm"], iv, "validateMatch-answer-set")
            if a["full"] != pf or a["excl"] != pe:
                ck.disagree(case, [a["full"], a["excl"]], [pf, pe], "python-meets-vs-lean-meetsB")
            if a["wf"] != wf or a["nonulls"] != nn or a["laok"] != lk:
                ck.disagree(case, [a["wf"], a["nonulls"], a["laok"]], [wf, nn, lk], "domain-predicates")
        bad = oracle(case, iv)
        if bad:
            small = shrink_triple(case, lambda c: oracle(c, impl_vm(c["t"], c["live"], c["la"])) is not None)
            ck.violate({**small, "impl": impl_vm(small["t"], small["live"], small["la"])},
                       oracle(small, impl_vm(small["t"], small["live"], small["la"])) or bad)


QUIRK_PROBES = [
    ("null-below-last-applied",
     {g.LAST_APPLIED: ["d"], "d": {"e": None, "f": 1}}, {}, {"d": {"f": 1}}),
    ("keyed-non-list-below-last-applied",
     {g.LAST_APPLIED: ["k2"], g.AS_MAP: {"k2": ["id"]},
      "k2": [{"id": "db", "d": 7, g.AS_MAP: {"d": ["name"]}}]}, {"k2": [{"id": "db", "d": 7}]}, {"k2": [{"id": "db"}]}),
    ("member-named-ownerReferences",
     {g.AS_MAP: {"m": ["name"]}, "m": [{"name": "ownerReferences", "v": 1}, {"name": "b"}]},
     {"m": [{"name": "ownerReferences", "v": 2}, {"name": "b"}]}, None),
    ("member-named-as-directive",
     {g.AS_MAP: {"m": ["name"]}, "m": [{"name": g.AS_MAP, "v": 1}, {"name": "b"}]},
     {"m": [{"name": g.AS_MAP, "v": 1}, {"name": "b"}]}, None),
]


def quirk_probes(ck, drv):
    """the corners outside the stated domain (notes, Props/C05.lean): record what code and model answer"""
    try:
        ans = drv.ask([vm_req(t, a, la) for _, t, a, la in QUIRK_PROBES])
    except Exception:
        return
    for (name, t, a, la), m in zip(QUIRK_PROBES, ans):
        mv = "ok" if m.get("r") == "ok" else "+".join(k for k, f in (("differ", m.get("d")), ("raise", m.get("x"))) if f)
        ck.count(f"quirk:{name}:impl={impl_vm(t, a, la)}:model={mv}")


def oracle_c04_unit(case, iv):
    """live Meets target ⇒ the comparator reports a match (stated domain: DirectivesWF)"""
    t, live, la = case["t"], case["live"], case["la"]
    if g.wf(t) and g.meets("full", t, live, la) and iv != "ok":
        return f"live meets the target but validate_match says {iv}"
    return None


def oracle_c05_unit(case, iv):
    """drift ⇒ never a match; and differences rather than an exception when the last-applied tree is koreo's"""
    t, live, la = case["t"], case["live"], case["la"]
    if not g.wf(t) or g.meets("excl", t, live):
        return None
    if iv == "ok":
        return "live differs from the target in a target-specified field but validate_match reports a match"
    if iv == "raise" and la_ok(t, la):
        return "live differs from the target in a target-specified field and validate_match raises instead of reporting it"
    return None


def update_phase(ck, drv):
    """`_prepare_update` against `prepareUpdate` on every shape of spec.update"""
    quirk_probes(ck, drv)
    from koreo.resource_function import structure
    from koreo.resource_function.prepare import _prepare_update
    from koreo.result import PermFail

    specs = [None, {}, {"patch": {}}, {"patch": {"delay": 5}}, {"patch": {"delay": 0}}, {"recreate": {"delay": 9}},
             {"recreate": {}}, {"never": {}}, {"never": {"x": 1}}, {"patch": {"delay": 5}, "never": {}},
             {"recreate": {"delay": 2}, "never": {}}, {"never": {}, "patch": {}}, {"patch": 5}, {"never": None},
             {"other": 1}, {"patch": {"delay": None}}, {"patch": [1]}, {"recreate": {"delay": 1}, "patch": {"delay": 2}}]
    reqs = [({"op": "update"} if s is None else {"op": "update", "spec": to_wire(s)}) for s in specs]
    try:
        ans = drv.ask(reqs)
    except Exception as e:
        ck.notes.append(f"model driver unavailable: {e}")
        ck.build_ok = False
        return
    from common import from_wire

    for s, a in zip(specs, ans):
        ck.evaluated()
        got = _prepare_update(copy.deepcopy(s))
        if isinstance(got, PermFail):
            mine = None
        elif isinstance(got, structure.UpdatePatch):
            mine = {"k": "patch", "d": cn(got.delay)}
        elif isinstance(got, structure.UpdateRecreate):
            mine = {"k": "recreate", "d": cn(got.delay)}
        else:
            mine = {"k": "never"}
        m = a.get("p")
        if m is not None and "d" in m:
            m = {"k": m["k"], "d": cn(from_wire(m["d"]))}
        ck.count(f"update:{(mine or {}).get('k', 'permFail')}")
        if m != mine:
            ck.disagree({"kind": "update", "spec": s}, m, mine, "prepareUpdate")


GET_FAULTS = [400, 401, 403, 429, 500, 503, "raise-before", "no-response"]


def run_scenario(ck, drv, p, stored, steps, relation="pass-observables", faults=None, programs=None):
    """run the passes on the implementation, ask the model for each pass's possible results,
    record disagreements; returns (observations, abstractions) or None when prepare failed"""
    pr = Prepared(p)
    obs = pr.run_passes(stored, steps, faults, programs)
    if obs and "prepare" in obs[0]:
        ck.count("e2e:prepare-failed")
        ck.notes.append(f"prepare failed: {obs[0]['prepare'].get('msg')}"[:300]) if len(ck.notes) < 5 else None
        return None
    reqs, usable = [], []
    for o in obs:
        # a pass whose write was answered with an error / raised in flight: the model's pass is the fault-free
        # one; what is compared is the pass *after* it (the model has no state besides the cluster)
        usable.append(o.get("wfault") is None)
        if o.get("wfault") is not None:
            ck.count(f"e2e:write-fault:{o['wfault']['fault']}:{'+'.join(q['m'] for q in o['reqs']) or 'none'}")
        req = pass_req(o["p"], o["before"])
        if o.get("fault") is not None:
            req["loadFault"] = True
            ck.count(f"e2e:get-fault:{o['fault']}")
        reqs.append(req)
    try:
        ans = iter(drv.ask(reqs))
    except Exception as e:
        ck.notes.append(f"model driver unavailable: {e}")
        ck.build_ok = False
        ans = None
    abstr = []
    for o, u in zip(obs, usable):
        ia = obs_abstract(o)
        abstr.append(ia)
        ck.evaluated()
        ck.count(f"e2e:{p['policy']}:{ia['o']['c']}:{'+'.join(q['m'] for q in ia['reqs']) or 'none'}")
        ms = model_abstract(next(ans)["rs"]) if ans is not None else None
        if u and ms is not None:
            if ia not in ms:
                ck.disagree({"kind": "e2e", "p": o["p"], "befores": [o["before"]],
                             "faults": {"0": o["fault"]} if o.get("fault") is not None else {}}, ms, ia, relation)
        # the codec hypothesis of the theorems, on what koreo really wrote
        for q in o["reqs"]:
            if q["m"] in ("POST", "PATCH"):
                try:
                    la = extract_la(q["b"])
                    if cn(_no_empty_annotations(la)) != cn(payload_core(q["b"])):
                        ck.disagree({"kind": "e2e", "p": p, "befores": [o["before"]]}, "last-applied == body",
                                    [la, q["b"]], "json-roundtrip-of-payload")
                except Exception as e:
                    ck.disagree({"kind": "e2e", "p": p, "befores": [o["before"]]}, "parsable", repr(e), "json-roundtrip-of-payload")
    return obs, abstr


def in_c04_domain(p, t) -> bool:
    return g.wf(t) and g.no_nulls(t) and owner_free(t) and not p["contradicts"]


def configured_delay(p, before):
    if before is None:
        return p["createDelay"] if p.get("createEnabled", True) else None      # may not create: never mutates
    if p["policy"] == "patch":
        return p["delay"]
    if p["policy"] == "default":
        return 30
    if p["policy"] == "recreate":
        return p["delay"]
    return None


def oracle_c04_pass(p, o, prev=None):
    """the property's clauses on one observed pass (`prev`: the pass right before it, no interference between)"""
    t = target_of(p)
    before = o["before"]
    muts = o["reqs"]
    if o.get("fault") is not None:
        # the load itself was answered with an error: the pass must not write at all
        if muts or cn(o["after"]) != cn(before):
            return (f"the GET was answered with {o['fault']} but the pass sent " +
                    "+".join(q["m"] for q in muts) + " (object " +
                    ("absent" if before is None else "present") + ")")
        if o["o"]["c"] != "retry":
            return f"the GET was answered with {o['fault']} and the pass returned {o['o']} instead of Retry"
        return None
    if muts or cn(o["after"]) != cn(before):
        want = configured_delay(p, before)
        if o["o"]["c"] != "retry" or o["o"].get("d") != want:
            return f"a mutating pass ({'+'.join(q['m'] for q in muts)}) returned {o['o']} instead of Retry({want})"
    if before is not None and g.wf(t):
        try:
            la = extract_la(before)
        except Exception:
            la = "unreadable"
        reffed, fix = owner_state(p, before)
        if la != "unreadable" and reffed is True and g.meets("full", t, before, la):
            if muts:
                return "the live object meets the target (owner reference in place) but the pass sent " + \
                    "+".join(q["m"] for q in muts)
            if o["o"]["c"] != "ok":
                return f"the live object meets the target but the pass did not go on to return (outcome {o['o']})"
    if prev is not None and in_c04_domain(p, t) and any(q["m"] in ("POST", "PATCH") for q in prev["reqs"]) \
            and cn(prev["after"]) == cn(before):
        if muts:
            return f"the pass right after a {prev['reqs'][0]['m']} mutates again ({'+'.join(q['m'] for q in muts)}): update loop"
        if o["o"]["c"] != "ok":
            return f"the pass right after a {prev['reqs'][0]['m']} does not return Ok ({o['o']})"
    return None


def oracle_c05_pass(p, o):
    """a drifted live object gets exactly the policy's action; after a patch the object meets the target"""
    t = target_of(p)
    before = o["before"]
    if before is None or not g.wf(t) or o.get("fault") is not None:
        return None
    try:
        la = extract_la(before)
    except Exception:
        return None
    if g.meets("excl", t, before) or not la_ok(t, la):
        return None
    pol = "patch" if p["policy"] == "default" else p["policy"]
    muts = [q["m"] for q in o["reqs"]]
    if pol == "never":
        if muts or o["o"]["c"] != "ok":
            return f"update policy never, drifted object: expected no request and Ok, got {muts} {o['o']}"
        return None
    want_delay = configured_delay(p, before)
    if pol == "recreate":
        if muts != ["DELETE"] or o["o"]["c"] != "retry" or o["o"].get("d") != want_delay:
            return f"update policy recreate, drifted object: expected one DELETE and Retry({want_delay}), got {muts} {o['o']}"
        return None
    if muts != ["PATCH"] or o["o"]["c"] != "retry" or o["o"].get("d") != want_delay:
        return f"update policy patch, drifted object: expected one PATCH and Retry({want_delay}), got {muts} {o['o']}"
    body = payload_core(o["reqs"][0]["b"])
    want = copy.deepcopy(g.strip(t))
    want["metadata"].pop("ownerReferences", None)      # the comparison ignores it; only applied on create
    reffed, fix = owner_state(p, before)
    if reffed is False and isinstance(fix, dict):
        from common import from_wire

        want["metadata"]["ownerReferences"] = from_wire(fix["refs"])
    if cn(body) != cn(_no_empty_annotations(want)):
        return "the PATCH does not carry the full target"
    if g.no_nulls(t) and owner_free(t) and o["after"] is not None:
        try:
            la2 = extract_la(o["after"])
        except Exception:
            la2 = None
        if not g.meets("full", t, o["after"], la2):
            return "after the patch the object does not meet the target"
    return None
